import FV.C05C06
/-! Validation and `size()` depend on the address of the slice only through its residue modulo the alignment.
(Needed to move a message between the sender's buffer, the wire and the receiver's buffer.) -/
namespace FV

def AddrIndep (d : Dict) : Prop :=
  ∀ (a a' : Nat) (bs : Bytes), a % d.align = a' % d.align →
    d.validateU ⟨a, bs⟩ = d.validateU ⟨a', bs⟩ ∧ d.size ⟨a, bs⟩ = d.size ⟨a', bs⟩

theorem mod_congr_of_dvd {a a' m k : Nat} (h : a % m = a' % m) (hk : m % k = 0) : a % k = a' % k := by
  obtain ⟨c, rfl⟩ := Nat.dvd_of_mod_eq_zero hk
  have h1 : a % (k * c) % k = a % k := Nat.mod_mul_right_mod a k c
  have h2 : a' % (k * c) % k = a' % k := Nat.mod_mul_right_mod a' k c
  rw [← h1, ← h2, h]

theorem mod_congr_add {a a' m : Nat} (h : a % m = a' % m) (off : Nat) : (a + off) % m = (a' + off) % m := by
  rw [Nat.add_mod, h, ← Nat.add_mod]

theorem validate_congr {d : Dict} (hd : AddrIndep d) (a a' : Nat) (bs : Bytes) (h : a % d.align = a' % d.align) :
    d.validate ⟨a, bs⟩ = d.validate ⟨a', bs⟩ := by
  have e := (hd a a' bs h).1
  show (checkAlignMin d.align d.minSize ⟨a, bs⟩).bind (fun _ => d.validateU ⟨a, bs⟩) =
       (checkAlignMin d.align d.minSize ⟨a', bs⟩).bind (fun _ => d.validateU ⟨a', bs⟩)
  have c : checkAlignMin d.align d.minSize ⟨a, bs⟩ = checkAlignMin d.align d.minSize ⟨a', bs⟩ := by
    by_cases h0 : a % d.align = 0
    · have h0' : a' % d.align = 0 := by rw [← h]; exact h0
      simp [checkAlignMin, h0, h0', Slice.len] <;> rfl
    · have h0' : ¬ a' % d.align = 0 := by rw [← h]; exact h0
      simp [checkAlignMin, h0, h0', Slice.len] <;> rfl
  rw [c, e]

theorem readU_addr (l : LenTy) (a a' : Nat) (bs : Bytes) (h : a % l.align = a' % l.align) :
    l.readU ⟨a, bs⟩ = l.readU ⟨a', bs⟩ := by
  by_cases h0 : a % l.align = 0
  · have h0' : a' % l.align = 0 := by rw [← h]; exact h0
    simp [LenTy.readU, Slice.len, h0, h0'] <;> rfl
  · have h0' : ¬ a' % l.align = 0 := by rw [← h]; exact h0
    simp [LenTy.readU, Slice.len, h0, h0'] <;> rfl

theorem prim_addr (s a : Nat) : AddrIndep (primD s a) := fun _ _ _ _ => ⟨rfl, rfl⟩
theorem bool_addr : AddrIndep boolD := fun _ _ _ _ => ⟨rfl, rfl⟩

theorem arrLoop_addr (d : Dict) (hd : AddrIndep d) (hmod : d.ssize % d.align = 0) (a a' : Nat) (bs : Bytes)
    (h : a % d.align = a' % d.align) : ∀ k i, arrLoop d ⟨a, bs⟩ k i = arrLoop d ⟨a', bs⟩ k i := by
  intro k
  induction k with
  | zero => intro i; simp [arrLoop]
  | succ k ih =>
    intro i
    simp only [arrLoop, Res.bind_eq, Slice.dropU, Slice.len, Slice.takeU, Slice.drop, Slice.take]
    by_cases h1 : i * d.ssize ≤ bs.length
    · simp only [h1, if_true, Res.bind_ok]
      by_cases h2 : d.ssize ≤ (List.drop (i * d.ssize) bs).length
      · simp only [h2, if_true, Res.bind_ok]
        rw [(hd (a + i * d.ssize) (a' + i * d.ssize) _ (mod_congr_add h _)).1, ih (i + 1)]
      · simp only [h2, if_false, Res.bind_fault]
    · simp only [h1, if_false, Res.bind_fault]

theorem arr_addr (d : Dict) (hd : AddrIndep d) (hmod : d.ssize % d.align = 0) (n : Nat) : AddrIndep (arrD d n) := by
  intro a a' bs h
  exact ⟨arrLoop_addr d hd hmod a a' bs h n 0, rfl⟩

/-- the field walker: every field's alignment divides `M`, addresses congruent modulo `M` -/
theorem validateAll_addr (M : Nat) :
    ∀ (ds : List Dict), (∀ d ∈ ds, AddrIndep d) → (∀ d ∈ ds, M % d.align = 0) →
      ∀ (pos a a' : Nat) (bs : Bytes), a % M = a' % M → validateAll ds pos ⟨a, bs⟩ = validateAll ds pos ⟨a', bs⟩ := by
  intro ds
  induction ds with
  | nil => intro _ _ _ _ _ _ _; rfl
  | cons d ds ih =>
    intro hd hm pos a a' bs h
    have h1 := (hd d (by simp) a a' bs (mod_congr_of_dvd h (hm d (by simp)))).1
    cases ds with
    | nil => simp only [validateAll, h1]
    | cons d' ds' =>
      simp only [validateAll, h1, Slice.splitAt, Slice.len, Slice.take, Slice.drop]
      cases (d.validateU ⟨a', bs⟩).offset pos with
      | ok u =>
        simp only
        by_cases hs : ceilMul (pos + d.ssize) d'.align - pos ≤ bs.length
        · simp only [hs, if_true]
          exact ih (fun x hx => hd x (by simp [hx])) (fun x hx => hm x (by simp [hx])) _ _ _ _ (mod_congr_add h _)
        · simp only [hs, if_false]
      | err e => rfl
      | fault f => rfl

theorem sstruct_addr (ds : List Dict) (hl : ∀ d ∈ ds, Law d) (hd : ∀ d ∈ ds, AddrIndep d) : AddrIndep (sstructD ds) := by
  intro a a' bs h
  simp only [sstructD] at h ⊢
  exact ⟨validateAll_addr (alignL ds) ds hd (alignL_mod ds hl) 0 a a' bs h, trivial⟩

theorem cenum_addr (tag : LenTy) (n : Nat) : AddrIndep (cenumD tag n) := by
  intro a a' bs h
  simp only [cenumD] at h ⊢
  rw [readU_addr tag a a' bs h]
  exact ⟨rfl, trivial⟩

theorem senum_addr (tag : LenTy) (ht : tag.Law) (vs : List (List Dict)) (hl : ∀ v ∈ vs, ∀ d ∈ v, Law d)
    (hd : ∀ v ∈ vs, ∀ d ∈ v, AddrIndep d) : AddrIndep (senumD tag vs) := by
  intro a a' bs h
  simp only [senumD] at h ⊢
  have hpll := alignLL_pow2 vs hl
  rw [readU_addr tag a a' bs (mod_congr_of_dvd h (Pow2.max_mod_left ht.align_pow2 hpll))]
  refine ⟨?_, trivial⟩
  cases hr : tag.readU ⟨a', bs⟩ with
  | ok t =>
    simp only [Res.bind_eq, Res.bind_ok, Slice.dropU, Slice.len, Slice.drop]
    by_cases hlt : t < vs.length
    · simp only [hlt, if_true]
      by_cases hdo : ceilMul tag.size (max tag.align (alignLL vs)) ≤ bs.length
      · simp only [hdo, if_true, Res.bind_ok]
        have hmem := getD_mem vs t [] hlt
        rw [validateAll_addr (alignLL vs) (vs.getD t []) (hd _ hmem) (fun d hdm => alignLL_mod vs hl _ hmem d hdm) 0 _ _ _
          (mod_congr_add (mod_congr_of_dvd h (Pow2.max_mod_right ht.align_pow2 hpll)) _)]
      · simp only [hdo, if_false, Res.bind_fault]
    · simp only [hlt, if_false]
  | err e => rfl
  | fault f => rfl

theorem vecElems_addr (d : Dict) (hd : AddrIndep d) (dOff : Nat) (a a' : Nat) (bs : Bytes)
    (h : a % d.align = a' % d.align) : ∀ k i, vecElems d dOff ⟨a, bs⟩ k i = vecElems d dOff ⟨a', bs⟩ k i := by
  intro k
  induction k with
  | zero => intro i; simp [vecElems]
  | succ k ih =>
    intro i
    simp only [vecElems, Res.bind_eq, Slice.dropU, Slice.len, Slice.takeU, Slice.drop, Slice.take]
    by_cases h1 : dOff + i * d.ssize ≤ bs.length
    · simp only [h1, if_true, Res.bind_ok]
      by_cases h2 : d.ssize ≤ (List.drop (dOff + i * d.ssize) bs).length
      · simp only [h2, if_true, Res.bind_ok]
        rw [(hd (a + (dOff + i * d.ssize)) (a' + (dOff + i * d.ssize)) _ (mod_congr_add h _)).1, ih (i + 1)]
      · simp only [h2, if_false, Res.bind_fault]
    · simp only [h1, if_false, Res.bind_fault]

theorem vec_addr (d : Dict) (hd : AddrIndep d) (hp : Pow2 d.align) (l : LenTy) (hl : l.Law) : AddrIndep (vecD d l) := by
  intro a a' bs h
  simp only [vecD] at h ⊢
  rw [readU_addr l a a' bs (mod_congr_of_dvd h (Pow2.max_mod_left hl.align_pow2 hp))]
  simp only [Slice.len]
  simp only [vecElems_addr d hd _ a a' bs (mod_congr_of_dvd h (Pow2.max_mod_right hl.align_pow2 hp))]
  exact ⟨trivial, trivial⟩

theorem str_addr (l : LenTy) : AddrIndep (strD l) := by
  intro a a' bs h
  simp only [strD] at h ⊢
  rw [readU_addr l a a' bs h]
  exact ⟨rfl, rfl⟩


/-! ### FlexVec, unsized structs and enums; assembly over `Ty` -/
theorem checkAlignMin_addr (al mn a a' : Nat) (bs : Bytes) (h : a % al = a' % al) :
    checkAlignMin al mn ⟨a, bs⟩ = checkAlignMin al mn ⟨a', bs⟩ := by
  by_cases h0 : a % al = 0
  · have h0' : a' % al = 0 := by rw [← h]; exact h0
    simp [checkAlignMin, h0, h0', Slice.len] <;> rfl
  · have h0' : ¬ a' % al = 0 := by rw [← h]; exact h0
    simp [checkAlignMin, h0, h0']

theorem flexValidate_addr (d : Dict) (hd : AddrIndep d) (hp : Pow2 d.align) (l : LenTy) (hl : l.Law) (os : Nat) :
    ∀ (f pos a a' : Nat) (bs : Bytes), a % max l.align d.align = a' % max l.align d.align →
      flexValidate d l os f pos ⟨a, bs⟩ = flexValidate d l os f pos ⟨a', bs⟩ := by
  intro f
  induction f with
  | zero => intro _ _ _ _ _; rfl
  | succ f ih =>
    intro pos a a' bs h
    have hla : a % l.align = a' % l.align := mod_congr_of_dvd h (Pow2.max_mod_left hl.align_pow2 hp)
    have hda : a % d.align = a' % d.align := mod_congr_of_dvd h (Pow2.max_mod_right hl.align_pow2 hp)
    have hck := checkAlignMin_addr l.align l.size a a' bs hla
    have hread := readU_addr l a a' bs hla
    have hv : ∀ (k : Nat) (xs : Bytes), d.validate ⟨a + k, xs⟩ = d.validate ⟨a' + k, xs⟩ :=
      fun k xs => validate_congr hd _ _ _ (mod_congr_add hda k)
    have hrec : ∀ (p k : Nat) (xs : Bytes), flexValidate d l os f p ⟨a + k, xs⟩ = flexValidate d l os f p ⟨a' + k, xs⟩ :=
      fun p k xs => ih p _ _ xs (mod_congr_add h k)
    unfold flexValidate
    simp only [hck, hread]
    by_cases h0 : a % max l.align d.align = 0
    · have h0' : a' % max l.align d.align = 0 := by rw [← h]; exact h0
      simp only [h0, h0', ne_eq, not_true_eq_false, if_false]
      cases hc : checkAlignMin l.align l.size ⟨a', bs⟩ with
      | err e => rfl
      | fault w => rfl
      | ok u =>
        cases hr : l.readU ⟨a', bs⟩ with
        | err e => rfl
        | fault w => rfl
        | ok next =>
          simp only [Slice.splitAt, Slice.len, Slice.take, Slice.drop]
          by_cases h1 : os ≤ bs.length <;> by_cases h2 : next ≤ bs.length <;> by_cases h3 : os ≤ (bs.take next).length <;>
            simp only [h1, h2, h3, if_true, if_false, hv, hrec] <;> rfl
    · have h0' : ¬ a' % max l.align d.align = 0 := by rw [← h]; exact h0
      simp only [h0, h0', ne_eq, not_false_eq_true, if_true]

theorem flexSize_addr (d : Dict) (hd : AddrIndep d) (hp : Pow2 d.align) (l : LenTy) (hl : l.Law) (os al : Nat) :
    ∀ (f pos a a' : Nat) (bs : Bytes), a % max l.align d.align = a' % max l.align d.align →
      flexSize d l os al f pos ⟨a, bs⟩ = flexSize d l os al f pos ⟨a', bs⟩ := by
  intro f
  induction f with
  | zero => intro _ _ _ _ _; rfl
  | succ f ih =>
    intro pos a a' bs h
    have hla : a % l.align = a' % l.align := mod_congr_of_dvd h (Pow2.max_mod_left hl.align_pow2 hp)
    have hda : a % d.align = a' % d.align := mod_congr_of_dvd h (Pow2.max_mod_right hl.align_pow2 hp)
    have hread := readU_addr l a a' bs hla
    have hs : ∀ (k : Nat) (xs : Bytes), d.size ⟨a + k, xs⟩ = d.size ⟨a' + k, xs⟩ :=
      fun k xs => (hd _ _ xs (mod_congr_add hda k)).2
    have hrec : ∀ (p k : Nat) (xs : Bytes), flexSize d l os al f p ⟨a + k, xs⟩ = flexSize d l os al f p ⟨a' + k, xs⟩ :=
      fun p k xs => ih p _ _ xs (mod_congr_add h k)
    unfold flexSize
    simp only [hread, Res.bind_eq]
    cases hr : l.readU ⟨a', bs⟩ with
    | err e => rfl
    | fault w => rfl
    | ok next =>
      simp only [Res.bind_ok, Slice.splitAt, Slice.len, Slice.take, Slice.drop]
      by_cases h1 : os ≤ bs.length <;> by_cases h2 : next ≤ bs.length <;>
        simp only [h1, h2, if_true, if_false, Res.bind_ok, Res.bind_fault, hs, hrec] <;> rfl

theorem flex_addr (d : Dict) (hd : AddrIndep d) (hp : Pow2 d.align) (l : LenTy) (hl : l.Law) : AddrIndep (flexD d l) := by
  intro a a' bs h
  simp only [flexD] at h ⊢
  simp only [Slice.len, Slice.take]
  exact ⟨flexValidate_addr d hd hp l hl _ _ 0 a a' _ h, flexSize_addr d hd hp l hl _ _ _ 0 a a' _ h⟩

theorem ustruct_addr (ds : List Dict) (last : Dict) (hl : ∀ d ∈ ds ++ [last], Law d) (hd : ∀ d ∈ ds ++ [last], AddrIndep d) :
    AddrIndep (ustructD ds last) := by
  intro a a' bs h
  simp only [ustructD] at h ⊢
  simp only [Slice.len, Slice.take, Slice.dropU, Slice.drop]
  refine ⟨validateAll_addr (alignL (ds ++ [last])) (ds ++ [last]) hd (alignL_mod _ hl) 0 a a' _ h, ?_⟩
  have hlast := (hd last (by simp))
  have hm : alignL (ds ++ [last]) % last.align = 0 := alignL_mod _ hl last (by simp)
  by_cases hc : ceilMul (foldSize ds 0) last.align ≤ (List.take (floorMul (List.length bs) (alignL (ds ++ [last]))) bs).length
  · simp only [hc, if_true, Res.bind_eq, Res.bind_ok]
    rw [(hlast _ _ _ (mod_congr_add (mod_congr_of_dvd h hm) _)).2]
  · simp only [hc, if_false, Res.bind_eq, Res.bind_fault]

theorem foldSizeDyn_addr (M : Nat) :
    ∀ (ds : List Dict), (∀ d ∈ ds, AddrIndep d) → (∀ d ∈ ds, M % d.align = 0) →
      ∀ (pos acc a a' : Nat) (bs : Bytes), a % M = a' % M → foldSizeDyn ds pos acc ⟨a, bs⟩ = foldSizeDyn ds pos acc ⟨a', bs⟩ := by
  intro ds
  induction ds with
  | nil => intro _ _ _ _ _ _ _ _; rfl
  | cons d ds ih =>
    intro hd hm pos acc a a' bs h
    cases ds with
    | nil =>
      simp only [foldSizeDyn, Res.bind_eq]
      rw [(hd d (by simp) a a' bs (mod_congr_of_dvd h (hm d (by simp)))).2]
    | cons d' ds' =>
      simp only [foldSizeDyn, Slice.splitAt, Slice.len, Slice.take, Slice.drop]
      by_cases hc : ceilMul (pos + d.ssize) d'.align - pos ≤ bs.length
      · simp only [hc, if_true]
        exact ih (fun x hx => hd x (by simp [hx])) (fun x hx => hm x (by simp [hx])) _ _ _ _ _ (mod_congr_add h _)
      · simp only [hc, if_false]

theorem uenum_addr (tag : LenTy) (ht : tag.Law) (vs : List (List Dict)) (hl : ∀ v ∈ vs, ∀ d ∈ v, Law d)
    (hd : ∀ v ∈ vs, ∀ d ∈ v, AddrIndep d) : AddrIndep (uenumD tag vs) := by
  intro a a' bs h
  simp only [uenumD] at h ⊢
  have hpll := alignLL_pow2 vs hl
  have hdata := mod_congr_add (mod_congr_of_dvd h (Pow2.max_mod_right ht.align_pow2 hpll)) (ceilMul tag.size (max tag.align (alignLL vs)))
  rw [readU_addr tag a a' bs (mod_congr_of_dvd h (Pow2.max_mod_left ht.align_pow2 hpll))]
  cases hr : tag.readU ⟨a', bs⟩ with
  | ok t =>
    simp only [Res.bind_eq, Res.bind_ok, Slice.dropU, Slice.len, Slice.drop, Slice.take]
    by_cases hdo : ceilMul tag.size (max tag.align (alignLL vs)) ≤ bs.length
    · simp only [hdo, if_true, Res.bind_ok]
      by_cases hlt : t < vs.length
      · have hmem := getD_mem vs t [] hlt
        simp only [hlt, if_true]
        rw [validateAll_addr (alignLL vs) (vs.getD t []) (hd _ hmem) (fun d hdm => alignLL_mod vs hl _ hmem d hdm) 0 _ _ _ hdata,
          foldSizeDyn_addr (alignLL vs) (vs.getD t []) (hd _ hmem) (fun d hdm => alignLL_mod vs hl _ hmem d hdm) 0 0 _ _ _ hdata]
        exact ⟨rfl, rfl⟩
      · simp only [hlt, if_false, true_and]
        -- an out-of-range tag: validation has already failed; `size()` reads the (empty) default variant
        have hv : vs.getD t [] = [] := by
          simp only [List.getD, List.getElem?_eq_none (Nat.le_of_not_lt hlt), Option.getD_none]
        simp only [hv, List.isEmpty_nil, if_true]
    · simp only [hdo, if_false, Res.bind_fault, and_self]
  | err e => exact ⟨rfl, rfl⟩
  | fault f => exact ⟨rfl, rfl⟩

mutual
/-- **Validation and `size()` do not depend on where the bytes are, only on the address modulo the alignment** — for every
well-formed type. A message that validates in the sender's buffer validates on the wire and in the receiver's buffer. -/
theorem Ty.addrIndep : ∀ t : Ty, t.WF → AddrIndep t.dict
  | .prim s a, _ => prim_addr s a
  | .bool, _ => bool_addr
  | .arr t n, h => by
      simp only [Ty.WF] at h
      obtain ⟨sz, hsz⟩ : ∃ sz, t.dict.sized = some sz := by
        have hs := dict_sized_isSome t h.2
        cases hq : t.dict.sized <;> simp_all
      have hss : t.dict.ssize = sz := by simp [Dict.ssize, hsz]
      exact arr_addr t.dict (Ty.addrIndep t h.1) (by rw [hss]; exact (Ty.law t h.1).sized_mod sz hsz) n
  | .sstruct fs, h => by
      simp only [Ty.WF] at h
      exact sstruct_addr (dictL fs) (lawL fs h.1) (addrL fs h.1)
  | .cenum tag n, _ => cenum_addr tag n
  | .senum tag vs, h => by
      simp only [Ty.WF] at h
      exact senum_addr tag h.1 (dictLL vs) (lawLL vs h.2.1) (addrLL vs h.2.1)
  | .vec t l, h => by
      simp only [Ty.WF] at h
      exact vec_addr t.dict (Ty.addrIndep t h.1) (Ty.law t h.1).align_pow2 l h.2.2
  | .str l, _ => str_addr l
  | .flex t l, h => by
      simp only [Ty.WF] at h
      exact flex_addr t.dict (Ty.addrIndep t h.1) (Ty.law t h.1).align_pow2 l h.2
  | .ustruct fs last, h => by
      simp only [Ty.WF] at h
      apply ustruct_addr (dictL fs) last.dict
      · intro d hd
        rcases List.mem_append.1 hd with hm | hm
        · exact lawL fs h.1 d hm
        · simp at hm; subst hm; exact Ty.law last h.2.2.1
      · intro d hd
        rcases List.mem_append.1 hd with hm | hm
        · exact addrL fs h.1 d hm
        · simp at hm; subst hm; exact Ty.addrIndep last h.2.2.1
  | .uenum tag vs, h => by
      simp only [Ty.WF] at h
      exact uenum_addr tag h.1 (dictLL vs) (lawLL vs h.2.1) (addrLL vs h.2.1)
theorem addrL : ∀ fs : List Ty, wfL fs → ∀ d ∈ dictL fs, AddrIndep d
  | [], _ => by intro d hd; simp [dictL] at hd
  | t :: ts, h => by
      intro d hd
      simp only [dictL, List.mem_cons] at hd
      rcases hd with rfl | hm
      · exact Ty.addrIndep t h.1
      · exact addrL ts h.2 d hm
theorem addrLL : ∀ vs : List (List Ty), wfLL vs → ∀ v ∈ dictLL vs, ∀ d ∈ v, AddrIndep d
  | [], _ => by intro v hv; simp [dictLL] at hv
  | v0 :: vs, h => by
      intro v hv
      simp only [dictLL, List.mem_cons] at hv
      rcases hv with rfl | hm
      · exact addrL v0 h.1
      · exact addrLL vs h.2 v hm
end

/-- validity at one aligned address is validity at every aligned address -/
theorem validate_any_addr (t : Ty) (h : t.WF) (bs : Bytes) (a a' : Nat) (ha : a % t.dict.align = 0) (ha' : a' % t.dict.align = 0) :
    t.dict.validate ⟨a, bs⟩ = t.dict.validate ⟨a', bs⟩ ∧ t.dict.size ⟨a, bs⟩ = t.dict.size ⟨a', bs⟩ :=
  ⟨validate_congr (Ty.addrIndep t h) a a' bs (by rw [ha, ha']), ((Ty.addrIndep t h) a a' bs (by rw [ha, ha'])).2⟩
end FV
#print axioms FV.Ty.addrIndep
