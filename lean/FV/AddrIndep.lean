import FV.C05C06
/-! Validation and `size()` depend on the address of the slice only through its residue modulo the alignment.
(Needed to move a message between the sender's buffer, the wire and the receiver's buffer.) -/
namespace FV

def AddrIndep (d : Dict) : Prop :=
  ∀ (a a' : Nat) (bs : Bytes), a % d.align = a' % d.align →
    d.validateU ⟨a, bs⟩ = d.validateU ⟨a', bs⟩ ∧ d.size ⟨a, bs⟩ = d.size ⟨a', bs⟩

theorem mod_congr_of_dvd {a a' m k : Nat} (h : a % m = a' % m) (hk : m % k = 0) : a % k = a' % k := by
  obtain ⟨c, rfl⟩ := Nat.dvd_of_mod_eq_zero hk
  have h1 : a % (k * c) % k = a % k := Nat.mod_mul_right_mod a k c
  have h2 : a' % (k * c) % k = a' % k := Nat.mod_mul_right_mod a' k c
  rw [← h1, ← h2, h]

theorem mod_congr_add {a a' m : Nat} (h : a % m = a' % m) (off : Nat) : (a + off) % m = (a' + off) % m := by
  rw [Nat.add_mod, h, ← Nat.add_mod]

theorem validate_congr {d : Dict} (hd : AddrIndep d) (a a' : Nat) (bs : Bytes) (h : a % d.align = a' % d.align) :
    d.validate ⟨a, bs⟩ = d.validate ⟨a', bs⟩ := by
  have e := (hd a a' bs h).1
  show (checkAlignMin d.align d.minSize ⟨a, bs⟩).bind (fun _ => d.validateU ⟨a, bs⟩) =
       (checkAlignMin d.align d.minSize ⟨a', bs⟩).bind (fun _ => d.validateU ⟨a', bs⟩)
  have c : checkAlignMin d.align d.minSize ⟨a, bs⟩ = checkAlignMin d.align d.minSize ⟨a', bs⟩ := by
    by_cases h0 : a % d.align = 0
    · have h0' : a' % d.align = 0 := by rw [← h]; exact h0
      simp [checkAlignMin, h0, h0', Slice.len] <;> rfl
    · have h0' : ¬ a' % d.align = 0 := by rw [← h]; exact h0
      simp [checkAlignMin, h0, h0', Slice.len] <;> rfl
  rw [c, e]

theorem readU_addr (l : LenTy) (a a' : Nat) (bs : Bytes) (h : a % l.align = a' % l.align) :
    l.readU ⟨a, bs⟩ = l.readU ⟨a', bs⟩ := by
  by_cases h0 : a % l.align = 0
  · have h0' : a' % l.align = 0 := by rw [← h]; exact h0
    simp [LenTy.readU, Slice.len, h0, h0'] <;> rfl
  · have h0' : ¬ a' % l.align = 0 := by rw [← h]; exact h0
    simp [LenTy.readU, Slice.len, h0, h0'] <;> rfl

theorem prim_addr (s a : Nat) : AddrIndep (primD s a) := fun _ _ _ _ => ⟨rfl, rfl⟩
theorem bool_addr : AddrIndep boolD := fun _ _ _ _ => ⟨rfl, rfl⟩

theorem arrLoop_addr (d : Dict) (hd : AddrIndep d) (hmod : d.ssize % d.align = 0) (a a' : Nat) (bs : Bytes)
    (h : a % d.align = a' % d.align) : ∀ k i, arrLoop d ⟨a, bs⟩ k i = arrLoop d ⟨a', bs⟩ k i := by
  intro k
  induction k with
  | zero => intro i; simp [arrLoop]
  | succ k ih =>
    intro i
    simp only [arrLoop, Res.bind_eq, Slice.dropU, Slice.len, Slice.takeU, Slice.drop, Slice.take]
    by_cases h1 : i * d.ssize ≤ bs.length
    · simp only [h1, if_true, Res.bind_ok]
      by_cases h2 : d.ssize ≤ (List.drop (i * d.ssize) bs).length
      · simp only [h2, if_true, Res.bind_ok]
        rw [(hd (a + i * d.ssize) (a' + i * d.ssize) _ (mod_congr_add h _)).1, ih (i + 1)]
      · simp only [h2, if_false, Res.bind_fault]
    · simp only [h1, if_false, Res.bind_fault]

theorem arr_addr (d : Dict) (hd : AddrIndep d) (hmod : d.ssize % d.align = 0) (n : Nat) : AddrIndep (arrD d n) := by
  intro a a' bs h
  exact ⟨arrLoop_addr d hd hmod a a' bs h n 0, rfl⟩

/-- the field walker: every field's alignment divides `M`, addresses congruent modulo `M` -/
theorem validateAll_addr (M : Nat) :
    ∀ (ds : List Dict), (∀ d ∈ ds, AddrIndep d) → (∀ d ∈ ds, M % d.align = 0) →
      ∀ (pos a a' : Nat) (bs : Bytes), a % M = a' % M → validateAll ds pos ⟨a, bs⟩ = validateAll ds pos ⟨a', bs⟩ := by
  intro ds
  induction ds with
  | nil => intro _ _ _ _ _ _ _; rfl
  | cons d ds ih =>
    intro hd hm pos a a' bs h
    have h1 := (hd d (by simp) a a' bs (mod_congr_of_dvd h (hm d (by simp)))).1
    cases ds with
    | nil => simp only [validateAll, h1]
    | cons d' ds' =>
      simp only [validateAll, h1, Slice.splitAt, Slice.len, Slice.take, Slice.drop]
      cases (d.validateU ⟨a', bs⟩).offset pos with
      | ok u =>
        simp only
        by_cases hs : ceilMul (pos + d.ssize) d'.align - pos ≤ bs.length
        · simp only [hs, if_true]
          exact ih (fun x hx => hd x (by simp [hx])) (fun x hx => hm x (by simp [hx])) _ _ _ _ (mod_congr_add h _)
        · simp only [hs, if_false]
      | err e => rfl
      | fault f => rfl

theorem sstruct_addr (ds : List Dict) (hl : ∀ d ∈ ds, Law d) (hd : ∀ d ∈ ds, AddrIndep d) : AddrIndep (sstructD ds) := by
  intro a a' bs h
  simp only [sstructD] at h ⊢
  exact ⟨validateAll_addr (alignL ds) ds hd (alignL_mod ds hl) 0 a a' bs h, trivial⟩

theorem cenum_addr (tag : LenTy) (n : Nat) : AddrIndep (cenumD tag n) := by
  intro a a' bs h
  simp only [cenumD] at h ⊢
  rw [readU_addr tag a a' bs h]
  exact ⟨rfl, trivial⟩

theorem senum_addr (tag : LenTy) (ht : tag.Law) (vs : List (List Dict)) (hl : ∀ v ∈ vs, ∀ d ∈ v, Law d)
    (hd : ∀ v ∈ vs, ∀ d ∈ v, AddrIndep d) : AddrIndep (senumD tag vs) := by
  intro a a' bs h
  simp only [senumD] at h ⊢
  have hpll := alignLL_pow2 vs hl
  rw [readU_addr tag a a' bs (mod_congr_of_dvd h (Pow2.max_mod_left ht.align_pow2 hpll))]
  refine ⟨?_, trivial⟩
  cases hr : tag.readU ⟨a', bs⟩ with
  | ok t =>
    simp only [Res.bind_eq, Res.bind_ok, Slice.dropU, Slice.len, Slice.drop]
    by_cases hlt : t < vs.length
    · simp only [hlt, if_true]
      by_cases hdo : ceilMul tag.size (max tag.align (alignLL vs)) ≤ bs.length
      · simp only [hdo, if_true, Res.bind_ok]
        have hmem := getD_mem vs t [] hlt
        rw [validateAll_addr (alignLL vs) (vs.getD t []) (hd _ hmem) (fun d hdm => alignLL_mod vs hl _ hmem d hdm) 0 _ _ _
          (mod_congr_add (mod_congr_of_dvd h (Pow2.max_mod_right ht.align_pow2 hpll)) _)]
      · simp only [hdo, if_false, Res.bind_fault]
    · simp only [hlt, if_false]
  | err e => rfl
  | fault f => rfl

theorem vecElems_addr (d : Dict) (hd : AddrIndep d) (dOff : Nat) (a a' : Nat) (bs : Bytes)
    (h : a % d.align = a' % d.align) : ∀ k i, vecElems d dOff ⟨a, bs⟩ k i = vecElems d dOff ⟨a', bs⟩ k i := by
  intro k
  induction k with
  | zero => intro i; simp [vecElems]
  | succ k ih =>
    intro i
    simp only [vecElems, Res.bind_eq, Slice.dropU, Slice.len, Slice.takeU, Slice.drop, Slice.take]
    by_cases h1 : dOff + i * d.ssize ≤ bs.length
    · simp only [h1, if_true, Res.bind_ok]
      by_cases h2 : d.ssize ≤ (List.drop (dOff + i * d.ssize) bs).length
      · simp only [h2, if_true, Res.bind_ok]
        rw [(hd (a + (dOff + i * d.ssize)) (a' + (dOff + i * d.ssize)) _ (mod_congr_add h _)).1, ih (i + 1)]
      · simp only [h2, if_false, Res.bind_fault]
    · simp only [h1, if_false, Res.bind_fault]

theorem vec_addr (d : Dict) (hd : AddrIndep d) (hp : Pow2 d.align) (l : LenTy) (hl : l.Law) : AddrIndep (vecD d l) := by
  intro a a' bs h
  simp only [vecD] at h ⊢
  rw [readU_addr l a a' bs (mod_congr_of_dvd h (Pow2.max_mod_left hl.align_pow2 hp))]
  simp only [Slice.len]
  simp only [vecElems_addr d hd _ a a' bs (mod_congr_of_dvd h (Pow2.max_mod_right hl.align_pow2 hp))]
  exact ⟨trivial, trivial⟩

theorem str_addr (l : LenTy) : AddrIndep (strD l) := by
  intro a a' bs h
  simp only [strD] at h ⊢
  rw [readU_addr l a a' bs h]
  exact ⟨rfl, rfl⟩

end FV
