import FV.Emplace
/-! Emplace theorems, part 1: helpers and FlatVec / FlatString / sized values. -/
namespace FV

theorem writeAt_ok {bs x : Bytes} {off : Nat} (h : off + x.length ≤ bs.length) :
    ∃ r, writeAt bs off x = .ok r ∧ r.length = bs.length := by
  refine ⟨bs.take off ++ x ++ bs.drop (off + x.length), by simp [writeAt, h], ?_⟩
  simp; omega

/-- what an emplacer promises -/
structure EmpOk (d : Dict) (s : Slice) (o : EO) : Prop where
  len : o.bytes.length = s.len
  valid : o.res = .ok () → d.validateU ⟨s.addr, o.bytes⟩ = .ok ()
  kinds : ∀ e, o.res = .error e → e.kind = .insufficientSize ∨ e.kind = .badAlign

/-- a byte image of a sized value, valid wherever it is (suitably aligned) placed -/
def ValidImage (d : Dict) (v : Bytes) : Prop :=
  ∃ sz, d.sized = some sz ∧ v.length = sz ∧ ∀ a, a % d.align = 0 → d.validateU ⟨a, v⟩ = .ok ()

theorem encLenTy_length (l : LenTy) (n : Nat) : (encLenTy l n).length = l.size := by
  unfold encLenTy; split <;> simp [toBE]

theorem readU_of_prefix (l : LenTy) (s : Slice) (n : Nat) (hn : n < 256 ^ l.size) (hal : s.addr % l.align = 0)
    (rest : Bytes) (hb : s.bytes = encLenTy l n ++ rest) : l.readU s = .ok n := by
  have hl := encLenTy_length l n
  have hlen : ¬ s.len < l.size := by simp [Slice.len, hb, hl]
  simp only [LenTy.readU, hlen, if_false, hal, ne_eq, not_true_eq_false]
  rw [hb, List.take_append_of_le_length (by omega), List.take_of_length_le (by omega)]
  unfold encLenTy
  split
  · simp [toBE, le_roundtrip n _ hn]
  · simp [le_roundtrip n _ hn]

/-- writing a sized value at the start of its slot -/
theorem emplace_raw (d : Dict) (hF : FrameLaw d) (v : Bytes) (hv : ValidImage d v) (s : Slice)
    (hal : s.addr % d.align = 0) (hlen : d.minSize ≤ s.len) (hL : Law d) :
    ∃ b, writeAt s.bytes 0 v = .ok b ∧ EmpOk d s (EO.ok b) := by
  obtain ⟨sz, hsz, hvl, hval⟩ := hv
  have hmin := hL.sized_min sz hsz
  obtain ⟨b, hb, hbl⟩ := writeAt_ok (bs := s.bytes) (x := v) (off := 0) (by simp [Slice.len] at hlen ⊢; omega)
  refine ⟨b, hb, hbl, ?_, by intro e h; cases h⟩
  intro _
  have hz : d.sizeV ⟨s.addr, v⟩ = .ok sz := hF.sized_sizeV sz hsz _
  have hread := writeAt_read hb
  simp only [List.drop_zero] at hread
  exact (hF.loc ⟨s.addr, v⟩ sz hal (by simp [Slice.len]; omega) (hval s.addr hal) hz ⟨s.addr, b⟩ rfl
    (by simp only [Slice.len]; rw [hbl]; simp [Slice.len] at hlen; omega)
    (by simp only; rw [← hvl, hread]; simp)).1

/-! ### FlatVec -/
/-- result of writing a run of elements -/
theorem vecWriteElems_spec (S dOff : Nat) :
    ∀ (xs : List Bytes) (j : Nat) (bs : Bytes), (∀ x ∈ xs, x.length = S) → dOff + (j + xs.length) * S ≤ bs.length →
      ∃ r, vecWriteElems S dOff xs j bs = .ok r ∧ r.length = bs.length ∧
        (∀ a k, a + k ≤ dOff + j * S → (r.drop a).take k = (bs.drop a).take k) ∧
        (∀ i (hi : i < xs.length), (r.drop (dOff + (j + i) * S)).take S = xs[i]) := by
  intro xs
  induction xs with
  | nil => intro j bs _ _; exact ⟨bs, rfl, rfl, fun _ _ _ => rfl, fun i hi => by simp at hi⟩
  | cons x xs ih =>
    intro j bs hx hlen
    have hxl : x.length = S := hx x (by simp)
    have e1 : (j + (xs.length + 1)) * S = j * S + (xs.length + 1) * S := Nat.add_mul _ _ _
    have e2 : (xs.length + 1) * S = xs.length * S + S := Nat.succ_mul _ _
    simp only [List.length_cons] at hlen
    obtain ⟨b1, hb1, hl1⟩ := writeAt_ok (bs := bs) (x := x) (off := dOff + j * S) (by omega)
    have e3 : (j + 1 + xs.length) * S = j * S + S + xs.length * S := by
      rw [Nat.add_mul, Nat.add_mul, Nat.one_mul]
    obtain ⟨r, hr, hrl, hpre, hel⟩ := ih (j + 1) b1 (fun y hy => hx y (by simp [hy])) (by rw [hl1, e3]; omega)
    refine ⟨r, by simp [vecWriteElems, hxl, hb1, hr], by omega, ?_, ?_⟩
    · intro a k hak
      have e4 : (j + 1) * S = j * S + S := by rw [Nat.add_mul, Nat.one_mul]
      rw [hpre a k (by rw [e4]; omega)]
      exact writeAt_frame hb1 a k (Or.inl hak)
    · intro i hi
      cases i with
      | zero =>
        simp only [Nat.add_zero, List.getElem_cons_zero]
        have e4 : (j + 1) * S = j * S + S := by rw [Nat.add_mul, Nat.one_mul]
        rw [hpre (dOff + j * S) S (by rw [e4]; omega)]
        have := writeAt_read hb1
        rw [hxl] at this; exact this
      | succ i =>
        simp only [List.getElem_cons_succ]
        have := hel i (by simpa using hi)
        have e5 : j + (i + 1) = j + 1 + i := by omega
        rw [e5]; exact this

/-- all elements valid ⇒ the element loop succeeds -/
theorem vecElems_of_all (d : Dict) (sz : Nat) (hss : d.ssize = sz) (dOff : Nat) (s : Slice) :
    ∀ k i, dOff + (i + k) * sz ≤ s.len →
      (∀ m, i ≤ m → m < i + k → d.validateU ((s.drop (dOff + m * sz)).take sz) = .ok ()) →
      vecElems d dOff s k i = .ok () := by
  intro k
  induction k with
  | zero => intro i _ _; simp [vecElems]
  | succ k ih =>
    intro i hlen hall
    have e1 : (i + (k + 1)) * sz = i * sz + (k+1) * sz := Nat.add_mul _ _ _
    have e2 : (k+1) * sz = k * sz + sz := Nat.succ_mul _ _
    have h1 : dOff + i * sz ≤ s.len := by omega
    have h2 : sz ≤ s.len - (dOff + i * sz) := by omega
    simp only [vecElems, hss, Res.bind_eq, Slice.dropU, h1, if_true, Res.bind_ok, Slice.takeU, Slice.len_drop, h2]
    rw [hall i (by omega) (by omega)]
    simp only [Res.offset_ok, Res.bind_ok]
    apply ih (i + 1)
    · have : i + 1 + k = i + (k + 1) := by omega
      rw [this]; exact hlen
    · intro m hm1 hm2; exact hall m (by omega) (by omega)

theorem vec_valid_intro (d : Dict) (sz : Nat) (hss : d.ssize = sz) (l : LenTy) (s : Slice) (len : Nat)
    (hlen : max l.size d.align ≤ s.len) (hr : l.readU s = .ok len)
    (hcap : len ≤ min (if sz = 0 then usizeMax else floorMul (s.len - max l.size d.align) (max l.align d.align) / sz) l.max)
    (hel : vecElems d (max l.size d.align) s len 0 = .ok ()) : (vecD d l).validateU s = .ok () := by
  have hnot : ¬ len > min (if sz = 0 then usizeMax else floorMul (s.len - max l.size d.align) (max l.align d.align) / sz) l.max := by omega
  simp only [vecD, hr, Res.bind_eq, Res.bind_ok, vecSlots_ok d l s.len hlen, hss, hnot, if_false, hel]
  split <;> rfl

/-- a vector image whose first `n` element slots hold valid images and whose length field says `n` validates -/
theorem vec_filled_valid (d : Dict) (hd : Law d) (sz : Nat) (hsz : d.sized = some sz) (l : LenTy) (hl : l.Law)
    (a : Nat) (hal : a % max l.align d.align = 0) (b1 b2 : Bytes) (xs : List Bytes)
    (hxs : ∀ x ∈ xs, ValidImage d x) (hlenb : max l.size d.align ≤ b1.length)
    (hel : ∀ i (hi : i < xs.length), (b1.drop (max l.size d.align + i * sz)).take sz = xs[i])
    (hcap : xs.length ≤ min (if sz = 0 then usizeMax else floorMul (b1.length - max l.size d.align) (max l.align d.align) / sz) l.max)
    (hw : writeAt b1 0 (encLenTy l xs.length) = .ok b2) :
    (vecD d l).validateU ⟨a, b2⟩ = .ok () := by
  have hss : d.ssize = sz := by simp [Dict.ssize, hsz]
  have hpa := Pow2.of_max hl.align_pow2 hd.align_pow2
  have hapos := hpa.pos
  have hdo := dataOffset_mod l hl d.align hd.align_pow2
  have hls : l.size ≤ max l.size d.align := Nat.le_max_left _ _
  have hb2l := writeAt_length hw
  have hn : xs.length < 256 ^ l.size := by
    have : l.max = 256 ^ l.size - 1 := rfl
    have hp : 0 < 256 ^ l.size := Nat.pow_pos (by omega)
    omega
  have hb2 : b2 = encLenTy l xs.length ++ b1.drop l.size := by
    unfold writeAt at hw
    split at hw
    · cases hw; simp [encLenTy_length]
    · cases hw
  have hr : l.readU ⟨a, b2⟩ = .ok xs.length :=
    readU_of_prefix l ⟨a, b2⟩ _ hn (mod_trans hal (Pow2.max_mod_left hl.align_pow2 hd.align_pow2)) _ hb2
  -- the extent fits
  have hfit : max l.size d.align + (0 + xs.length) * sz ≤ (⟨a, b2⟩ : Slice).len := by
    simp only [Slice.len, hb2l, Nat.zero_add]
    by_cases hz : sz = 0
    · subst hz; omega
    · simp only [hz, if_false] at hcap
      have := vec_z_le _ _ sz hapos hdo (n := b1.length) (len := xs.length) hlenb hz (by omega)
      have h2 := le_ceilMul (x := max l.size d.align + sz * xs.length) hapos
      rw [Nat.mul_comm]; omega
  apply vec_valid_intro d sz hss l ⟨a, b2⟩ xs.length (by simp only [Slice.len]; omega) hr
    (by simp only [Slice.len, hb2l]; exact hcap)
  apply vecElems_of_all d sz hss _ _ xs.length 0 hfit
  intro m _ hm
  have hm' : m < xs.length := by omega
  -- element m of b2 is element m of b1, i.e. xs[m]
  have hframe : (b2.drop (max l.size d.align + m * sz)).take sz = (b1.drop (max l.size d.align + m * sz)).take sz :=
    writeAt_frame hw _ _ (Or.inr (by rw [encLenTy_length]; omega))
  obtain ⟨sz', hsz', hxl, hval⟩ := hxs xs[m] (List.getElem_mem hm')
  have : ((⟨a, b2⟩ : Slice).drop (max l.size d.align + m * sz)).take sz = ⟨a + (max l.size d.align + m * sz), xs[m]⟩ := by
    simp only [Slice.drop, Slice.take, Slice.mk.injEq, true_and]
    rw [hframe, hel m hm']
  rw [this]
  apply hval
  have hda : a % d.align = 0 := mod_trans hal (Pow2.max_mod_right hl.align_pow2 hd.align_pow2)
  have hdoa : max l.size d.align % d.align = 0 := Pow2.max_mod_right hl.size_pow2 hd.align_pow2
  exact add_mod_zero hda (add_mod_zero hdoa (mul_mod_zero (hd.sized_mod sz hsz)))

/-- `vec::FromIterator` (and, with `xs.length ≤ cap`, `FromArray`): no fault; the result always validates — also
when the iterator does not fit and `Err(InsufficientSize)` is returned (the vector then holds the part that fitted) -/
theorem emplace_vecIter (et : Ty) (hL : Law et.dict) (sz : Nat) (hsz : et.dict.sized = some sz) (l : LenTy) (hl : l.Law)
    (xs : List Bytes) (hxs : ∀ x ∈ xs, ValidImage et.dict x) (s : Slice)
    (hal : s.addr % max l.align et.dict.align = 0) (hlen : max l.size et.dict.align ≤ s.len) :
    ∃ o, emplaceU (.vec et l) (.vecIter xs) s = .ok o ∧ EmpOk (vecD et.dict l) s o ∧
      (vecD et.dict l).validateU ⟨s.addr, o.bytes⟩ = .ok () := by
  have hss : et.dict.ssize = sz := by simp [Dict.ssize, hsz]
  have hpa := Pow2.of_max hl.align_pow2 hL.align_pow2
  have hapos := hpa.pos
  have hdo := dataOffset_mod l hl et.dict.align hL.align_pow2
  have hls : l.size ≤ max l.size et.dict.align := Nat.le_max_left _ _
  obtain ⟨b0, hb0, hb0l⟩ := writeAt_ok (bs := s.bytes) (x := encLenTy l 0) (off := 0)
    (by rw [encLenTy_length]; simp only [Slice.len] at hlen; omega)
  have hslots := vecSlots_ok et.dict l s.len hlen
  rw [hss] at hslots
  -- the part that fits
  obtain ⟨cap, hcapdef⟩ : ∃ c, c = min (if sz = 0 then usizeMax else floorMul (s.len - max l.size et.dict.align) (max l.align et.dict.align) / sz) l.max := ⟨_, rfl⟩
  have hfitlen : (xs.take cap).length ≤ cap := by rw [List.length_take]; omega
  have hroom : max l.size et.dict.align + (0 + (xs.take cap).length) * sz ≤ b0.length := by
    rw [hb0l, Nat.zero_add]
    by_cases hz : sz = 0
    · subst hz; simp only [Slice.len] at hlen; omega
    · have hc : (xs.take cap).length ≤ floorMul (s.len - max l.size et.dict.align) (max l.align et.dict.align) / sz := by
        have : cap ≤ floorMul (s.len - max l.size et.dict.align) (max l.align et.dict.align) / sz := by
          rw [hcapdef]; simp only [hz, if_false]; omega
        omega
      have := vec_z_le _ _ sz hapos hdo (n := s.len) (len := (xs.take cap).length) hlen hz hc
      have h2 := le_ceilMul (x := max l.size et.dict.align + sz * (xs.take cap).length) hapos
      simp only [Slice.len] at this
      rw [Nat.mul_comm]; omega
  obtain ⟨b1, hb1, hb1l, _, hel⟩ := vecWriteElems_spec sz (max l.size et.dict.align) (xs.take cap) 0 b0
    (fun x hx => by obtain ⟨sz', h1, h2, _⟩ := hxs x (List.mem_of_mem_take hx); rw [hsz] at h1; cases h1; exact h2) hroom
  obtain ⟨b2, hb2, hb2l⟩ := writeAt_ok (bs := b1) (x := encLenTy l (xs.take cap).length) (off := 0)
    (by rw [encLenTy_length, hb1l, hb0l]; simp only [Slice.len] at hlen; omega)
  have hvalid : (vecD et.dict l).validateU ⟨s.addr, b2⟩ = .ok () := by
    apply vec_filled_valid et.dict hL sz hsz l hl s.addr hal b1 b2 (xs.take cap)
      (fun x hx => hxs x (List.mem_of_mem_take hx)) (by rw [hb1l, hb0l]; exact hlen)
      (by intro i hi; have := hel i hi; simpa using this)
      (by rw [hb1l, hb0l]; show _ ≤ min (if sz = 0 then usizeMax else floorMul (s.len - max l.size et.dict.align) (max l.align et.dict.align) / sz) l.max; rw [← hcapdef]; exact hfitlen) hb2
  have hlen2 : b2.length = s.len := by rw [hb2l, hb1l, hb0l]; rfl
  have hcomp : emplaceU (.vec et l) (.vecIter xs) s =
      .ok (if cap < xs.length then EO.err b2 .insufficientSize 0 else EO.ok b2) := by
    simp only [emplaceU, hb0, Res.bind_ok, hslots, hss, ← hcapdef, hb1, hb2]
    split <;> rfl
  rw [hcomp]
  by_cases hover : cap < xs.length
  · simp only [hover, if_true]
    refine ⟨_, rfl, ⟨hlen2, ?_, ?_⟩, hvalid⟩
    · intro h; simp [EO.err] at h
    · intro e he; simp only [EO.err, Except.error.injEq] at he; subst he; exact Or.inl rfl
  · simp only [hover, if_false]
    refine ⟨_, rfl, ⟨hlen2, fun _ => hvalid, ?_⟩, hvalid⟩
    intro e he; simp [EO.ok] at he
end FV
#print axioms FV.emplace_vecIter
