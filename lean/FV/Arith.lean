/-! Arithmetic of `base/src/utils/mod.rs` -/
namespace FV

def ceilMul (x m : Nat) : Nat := ((x + m - 1) / m) * m
def floorMul (x m : Nat) : Nat := (x / m) * m

theorem floorMul_le (x m : Nat) : floorMul x m ≤ x := Nat.div_mul_le_self x m

theorem floorMul_mod (x m : Nat) : floorMul x m % m = 0 := by
  unfold floorMul; exact Nat.mul_mod_left _ _

theorem lt_floorMul_add {x m : Nat} (h : 0 < m) : x < floorMul x m + m := by
  unfold floorMul
  have := Nat.div_add_mod x m
  have := Nat.mod_lt x h
  rw [Nat.mul_comm]; omega

theorem floorMul_greatest {x y m : Nat} (h : 0 < m) (hy : y % m = 0) (hle : y ≤ x) : y ≤ floorMul x m := by
  unfold floorMul
  have h1 : y = (y / m) * m := by
    have := Nat.div_add_mod y m; rw [Nat.mul_comm] at this; omega
  rw [h1]
  exact Nat.mul_le_mul_right m (Nat.div_le_div_right hle)

theorem ceilMul_mod (x m : Nat) : ceilMul x m % m = 0 := by
  unfold ceilMul; exact Nat.mul_mod_left _ _

theorem le_ceilMul {x m : Nat} (h : 0 < m) : x ≤ ceilMul x m := by
  unfold ceilMul
  have h1 := Nat.div_add_mod (x + m - 1) m
  have h2 := Nat.mod_lt (x + m - 1) h
  rw [Nat.mul_comm]; omega

theorem ceilMul_lt_add {x m : Nat} (h : 0 < m) : ceilMul x m < x + m := by
  unfold ceilMul
  have := Nat.div_mul_le_self (x + m - 1) m
  omega

theorem ceilMul_least {x y m : Nat} (h : 0 < m) (hy : y % m = 0) (hle : x ≤ y) : ceilMul x m ≤ y := by
  unfold ceilMul
  have h1 : y = (y / m) * m := by
    have := Nat.div_add_mod y m; rw [Nat.mul_comm] at this; omega
  rw [h1]
  apply Nat.mul_le_mul_right
  -- (x + m - 1)/m ≤ y/m
  have hy' : y = m * (y / m) := by rw [Nat.mul_comm]; exact h1
  apply Nat.le_of_lt_succ
  apply (Nat.div_lt_iff_lt_mul h).2
  rw [Nat.succ_mul]
  have : (y / m) * m = y := h1.symm
  omega

theorem ceilMul_of_mod {x m : Nat} (h : 0 < m) (hx : x % m = 0) : ceilMul x m = x :=
  Nat.le_antisymm (ceilMul_least h hx (Nat.le_refl _)) (le_ceilMul h)

@[simp] theorem ceilMul_one (x : Nat) : ceilMul x 1 = x := by simp [ceilMul]
@[simp] theorem floorMul_one (x : Nat) : floorMul x 1 = x := by simp [floorMul]

theorem ceilMul_mono {x y m : Nat} (h : x ≤ y) : ceilMul x m ≤ ceilMul y m := by
  unfold ceilMul
  apply Nat.mul_le_mul_right
  apply Nat.div_le_div_right; omega

theorem floorMul_mono {x y m : Nat} (h : x ≤ y) : floorMul x m ≤ floorMul y m := by
  unfold floorMul
  exact Nat.mul_le_mul_right _ (Nat.div_le_div_right h)

/-- `ceil_mul(a, m) + b`-style positions: an aligned base plus an aligned offset stays aligned. -/
theorem add_mod_zero {a b m : Nat} (ha : a % m = 0) (hb : b % m = 0) : (a + b) % m = 0 := by
  rw [Nat.add_mod, ha, hb]; simp

end FV
