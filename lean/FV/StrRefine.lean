import FV.VecRefine
import FV.FlexChain
/-! `FlatString::push(char)` / `push_str` (`Op.pushBytes`) refine a capacity-bounded `String`, and keep the text valid UTF-8. -/
namespace FV

/-- the text of a mapped `FlatString` -/
def strText (g : VecGeo) (bs : Bytes) (len : Nat) : Bytes := (bs.drop g.dOff).take len

/-- the whole byte string is valid UTF-8 (the model of `core::str::from_utf8(..).is_ok()`) -/
def Utf8Ok (bs : Bytes) : Prop := utf8ValidUpTo (bs.length + 1) 0 bs = none

/-- a scalar recognised at the head of `a` is recognised, with the same length, at the head of `a ++ b`, and lies inside `a` -/
theorem utf8Step_append (a b : Bytes) (k : Nat) (h : utf8Step a = some k) :
    utf8Step (a ++ b) = some k ∧ 0 < k ∧ k ≤ a.length := by
  rcases a with _ | ⟨b0, _ | ⟨b1, _ | ⟨b2, _ | ⟨b3, r3⟩⟩⟩⟩
  · simp [utf8Step] at h
  all_goals
    simp only [List.cons_append, List.nil_append]
    unfold utf8Step at h ⊢
    simp only at h ⊢
    repeat' split at h
    all_goals first
      | (cases h; done)
      | (cases h; simp_all; done)
      | (cases h; simp_all; (repeat' split) <;> first | rfl | omega)

theorem utf8Step_bounds (a : Bytes) (k : Nat) (h : utf8Step a = some k) : 0 < k ∧ k ≤ a.length :=
  (utf8Step_append a [] k h).2

/-- with enough fuel the verdict does not depend on the fuel or on the position counter -/
theorem utf8_fuel_irrel : ∀ (f f' p p' : Nat) (bs : Bytes), bs.length < f → bs.length < f' →
    (utf8ValidUpTo f p bs = none ↔ utf8ValidUpTo f' p' bs = none) := by
  intro f
  induction f with
  | zero => intro f' p p' bs h; omega
  | succ f ih =>
    intro f' p p' bs h h'
    cases f' with
    | zero => omega
    | succ f' =>
      cases bs with
      | nil => simp [utf8ValidUpTo]
      | cons b0 r =>
        simp only [utf8ValidUpTo]
        cases hs : utf8Step (b0 :: r) with
        | none => simp
        | some k =>
          simp only
          obtain ⟨hk0, hkl⟩ := utf8Step_bounds _ k hs
          apply ih
          · simp only [List.length_drop, List.length_cons] at h hkl ⊢; omega
          · simp only [List.length_drop, List.length_cons] at h' hkl ⊢; omega

/-- **appending valid UTF-8 to valid UTF-8 gives valid UTF-8** (for the model of `from_utf8`) -/
theorem utf8_append_ok (b : Bytes) (hb : Utf8Ok b) : ∀ (f : Nat) (a : Bytes) (p g : Nat), a.length < f →
    utf8ValidUpTo f p a = none → (a ++ b).length < g → utf8ValidUpTo g p (a ++ b) = none := by
  intro f
  induction f with
  | zero => intro a p g h; omega
  | succ f ih =>
    intro a p g h hv hg
    cases a with
    | nil =>
      simp only [List.nil_append] at hg ⊢
      exact (utf8_fuel_irrel (b.length + 1) g 0 p b (by omega) hg).1 hb
    | cons b0 r =>
      cases g with
      | zero => omega
      | succ g =>
        simp only [utf8ValidUpTo] at hv
        cases hs : utf8Step (b0 :: r) with
        | none => rw [hs] at hv; cases hv
        | some k =>
          rw [hs] at hv
          simp only at hv
          obtain ⟨hs2, hk0, hkl⟩ := utf8Step_append (b0 :: r) b k hs
          simp only [List.cons_append] at hs2 hg ⊢
          simp only [utf8ValidUpTo, hs2]
          have hd : (b0 :: (r ++ b)).drop k = (b0 :: r).drop k ++ b := by
            rw [← List.cons_append, List.drop_append_of_le_length hkl]
          rw [hd]
          apply ih ((b0 :: r).drop k) (p + k) g
          · simp only [List.length_drop, List.length_cons] at h hkl ⊢; omega
          · exact hv
          · simp only [List.length_append, List.length_drop, List.length_cons] at hg hkl ⊢; omega

theorem Utf8Ok.append {a b : Bytes} (ha : Utf8Ok a) (hb : Utf8Ok b) : Utf8Ok (a ++ b) :=
  utf8_append_ok b hb (a.length + 1) a 0 ((a ++ b).length + 1) (by omega) ha (by omega)

/-- **`FlatString::push(char)` / `push_str` refine a capacity-bounded `String`.** Accepted exactly when the new text fits the
capacity; then the text is the old text followed by the new bytes, the invariant (hence the capacity) is kept and the buffer keeps its
length; refused otherwise, with no byte changed. -/
theorem pushBytes_refines (g : VecGeo) (hS : g.S = 1) (bs : Bytes) (len : Nat) (hI : VInv g bs len) (xs : Bytes) :
    ∃ o, vecOp g bs len (.pushBytes xs) = .ok o ∧ o.bytes.length = bs.length ∧
      (len + xs.length ≤ g.cap →
         o.ret = .ok ∧ VInv g o.bytes (len + xs.length) ∧ strText g o.bytes (len + xs.length) = strText g bs len ++ xs) ∧
      (g.cap < len + xs.length → o.ret = .full ∧ o.bytes = bs) := by
  have hle := hI.len_le
  have hroom := hI.room
  rw [hS, Nat.mul_one] at hroom
  simp only [vecOp]
  by_cases hfit : len + xs.length ≤ g.cap
  · rw [if_neg (by omega)]
    obtain ⟨b1, hb1, hb1l⟩ := writeAt_ok (bs := bs) (x := xs) (off := g.dOff + len) (by omega)
    obtain ⟨r, hr, hrl, hdec, _⟩ := setLen_spec g b1 (len + xs.length) hI.hd (by omega) (by have := hI.cap_lt; omega)
    refine ⟨⟨.ok, r⟩, by simp [hb1, hr, Res.bind], by simp only; omega, fun _ => ⟨rfl, ?_, ?_⟩, fun h => by omega⟩
    · exact ⟨hI.hd, hI.cap_lt, by simp only; rw [hS, Nat.mul_one]; omega, hfit, hdec⟩
    · simp only [strText]
      have e1 : r.drop g.dOff = b1.drop g.dOff := by
        unfold VecGeo.setLen at hr
        exact writeAt_drop_after hr g.dOff (by rw [encLenTy_length]; have := hI.hd; omega)
      rw [e1]
      unfold writeAt at hb1
      rw [if_pos (by omega)] at hb1
      cases hb1
      apply List.ext_getElem?
      intro i
      simp only [List.getElem?_take, List.getElem?_drop, List.getElem?_append, List.length_take, List.length_drop, List.length_append]
      by_cases h1 : i < len
      · have : i < len + xs.length := by omega
        have h2 : g.dOff + i < min (g.dOff + len) bs.length + xs.length := by omega
        have h3 : g.dOff + i < min (g.dOff + len) bs.length := by omega
        have h4 : i < min len (bs.length - g.dOff) := by omega
        simp [h1, this, h2, h3, h4]
      · by_cases h5 : i < len + xs.length
        · have h2 : g.dOff + i < min (g.dOff + len) bs.length + xs.length := by omega
          have h3 : ¬ g.dOff + i < min (g.dOff + len) bs.length := by omega
          have h4 : ¬ i < min len (bs.length - g.dOff) := by omega
          have e : g.dOff + i - min (g.dOff + len) bs.length = i - min len (bs.length - g.dOff) := by omega
          simp [h5, h2, h3, h4, e]
        · have h4 : ¬ i < min len (bs.length - g.dOff) := by omega
          have h6 : xs[i - min len (bs.length - g.dOff)]? = none := by
            apply List.getElem?_eq_none; omega
          simp [h5, h4, h6]
  · rw [if_pos (by omega)]
    exact ⟨⟨.full, bs⟩, rfl, rfl, fun h => absurd h hfit, fun _ => ⟨rfl, rfl⟩⟩

/-- … and keep the text valid UTF-8: the old text valid, the pushed bytes valid (a `char` or a `&str` always are) ⇒ the new text valid -/
theorem pushBytes_keeps_utf8 (g : VecGeo) (hS : g.S = 1) (bs : Bytes) (len : Nat) (hI : VInv g bs len) (xs : Bytes)
    (hold : Utf8Ok (strText g bs len)) (hxs : Utf8Ok xs) (o : OpOut) (ho : vecOp g bs len (.pushBytes xs) = .ok o) :
    ∃ len', VInv g o.bytes len' ∧ Utf8Ok (strText g o.bytes len') := by
  obtain ⟨o', ho', _, hok, hfull⟩ := pushBytes_refines g hS bs len hI xs
  rw [ho] at ho'; cases ho'
  by_cases hfit : len + xs.length ≤ g.cap
  · obtain ⟨_, hI', htxt⟩ := hok hfit
    exact ⟨len + xs.length, hI', by rw [htxt]; exact hold.append hxs⟩
  · obtain ⟨_, hb⟩ := hfull (by omega)
    exact ⟨len, by rw [hb]; exact hI, by rw [hb]; exact hold⟩

/-- **validity of a `FlatString` slice is exactly: the invariant of the operation model plus valid UTF-8 text** (given the slice holds
the length field) -/
theorem str_valid_iff (l : LenTy) (s : Slice) (hlen : l.size ≤ s.len) :
    (strD l).validateU s = .ok () ↔
      ∃ g len, strGeo l s.len = .ok g ∧ l.readU s = .ok len ∧ VInv g s.bytes len ∧ g.S = 1 ∧ Utf8Ok (strText g s.bytes len) := by
  have hnl : ¬ s.len < l.size := by omega
  have hgeo : strGeo l s.len = .ok ⟨l, 1, l.size, min (floorMul (s.len - l.size) l.align) l.max⟩ := by simp [strGeo, hnl]
  have hpos : 0 < 256 ^ l.size := Nat.pow_pos (by omega)
  have hmax : l.max < 256 ^ l.size := by unfold LenTy.max; omega
  have hfl := floorMul_le (s.len - l.size) l.align
  have hsl : s.len = s.bytes.length := rfl
  cases hr : l.readU s with
  | fault f => simp [strD, hr, Res.bind, Bind.bind]
  | err e => simp [strD, hr, Res.bind, Bind.bind]
  | ok len =>
    have hdec : VecCfg.decLen ⟨1, l.size, l⟩ s.bytes = len := by
      simp only [LenTy.readU, hnl, if_false] at hr
      split at hr
      · cases hr
      · simp only [Res.ok.injEq] at hr
        unfold VecCfg.decLen
        exact hr
    simp only [strD, hr, hnl, if_false, Res.bind, Bind.bind, hgeo, Res.ok.injEq, exists_and_left, exists_eq_left']
    constructor
    · intro hv
      by_cases hc : len > min (floorMul (s.len - l.size) l.align) l.max
      · simp [hc] at hv
      · simp only [hc, if_false] at hv
        refine ⟨⟨Nat.le_refl _, by show min _ _ < 256 ^ l.size; omega, by show l.size + min _ _ * 1 ≤ s.bytes.length; omega, by show len ≤ min _ _; omega, hdec⟩, trivial, ?_⟩
        unfold Utf8Ok strText
        have hl : ((s.bytes.drop l.size).take len).length = len := by
          simp only [List.length_take, List.length_drop]; omega
        rw [hl]
        split at hv
        · assumption
        · cases hv
    · rintro ⟨hI, _, hu⟩
      have hle : len ≤ min (floorMul (s.len - l.size) l.align) l.max := hI.len_le
      rw [if_neg (by omega)]
      unfold Utf8Ok strText at hu
      have hl : ((s.bytes.drop l.size).take len).length = len := by
        simp only [List.length_take, List.length_drop]; omega
      rw [hl] at hu
      simp only at hu
      rw [hu]
end FV
