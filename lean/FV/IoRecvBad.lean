import FV.IoRecv
import FV.ErrLawUnsized
/-! A complete but malformed message on the stream: the receiver reports the content error, whatever the chunking. -/
namespace FV

/-- what the receiver needs to know about bytes `m` that are rejected with the content error `e` -/
structure IsBad (d : Dict) (m : Bytes) (e : Err) : Prop where
  hard : e.Hard
  pre : ∀ a k, a % d.align = 0 → k < m.length → d.validate ⟨a, m.take k⟩ = .err e ∨ Insuff (d.validate ⟨a, m.take k⟩)
  whole : ∀ a sfx, a % d.align = 0 → d.validate ⟨a, m ++ sfx⟩ = .err e

theorem isBad_of_hard (t : Ty) (h : t.WF) (m : Bytes) (e : Err) (hh : e.Hard)
    (hv : ∀ a, a % t.dict.align = 0 → t.dict.validate ⟨a, m⟩ = .err e) : IsBad t.dict m e :=
  { hard := hh
    pre := fun a k ha hk => (hard_final t h a m e (hv a ha) hh).2 k (by omega)
    whole := fun a sfx ha => (hard_final t h a m e (hv a ha) hh).1 sfx }

/-- **Head lemma, malformed message.** From any window holding a prefix of `m ++ tail`, under any script of positive chunk
sizes that is long enough to bring in the rest of `m`, `recv` returns the parse error `e` — possibly before all of `m` has
arrived, never later, never `OutOfMemory` (capacity ≥ 2·|m|), never a request for bytes beyond `m`. -/
theorem recv_head_bad (d : Dict) (m : Bytes) (e : Err) (hm : IsBad d m e) :
    ∀ (evs : List ReadEv) (b : RBuf) (rest tail : Bytes), RInv d b → 2 * m.length ≤ b.cap →
      b.occ ++ rest = m ++ tail → Covers evs (m.length - b.occ.length) →
      ∃ b' rest' evs', recv d evs b rest = (.parse e, b', rest', evs') ∧ b'.occ ++ rest' = m ++ tail ∧
        ∃ k, evs' = evs.drop k ∧ k ≤ m.length - b.occ.length := by
  have hk : e.kind ≠ .insufficientSize := hm.hard
  intro evs
  induction evs with
  | nil =>
    intro b rest tail hinv _ heq hcov
    have hlen : m.length ≤ b.occ.length := by have := hcov.1; simp at this; omega
    obtain ⟨h1, _⟩ := take_append_of_le heq hlen
    have hv := hm.whole b.slice.addr (b.occ.drop m.length) hinv.slice_al
    have hs : b.slice = ⟨b.slice.addr, m ++ b.occ.drop m.length⟩ := by
      simp only [RBuf.slice, Slice.mk.injEq, true_and]; exact h1
    rw [← hs] at hv
    exact ⟨b, rest, [], by simp [recv, hv, hk], heq, 0, by simp, by omega⟩
  | cons ev evs ih =>
    intro b rest tail hinv hcap heq hcov
    by_cases hlen : m.length ≤ b.occ.length
    · obtain ⟨h1, _⟩ := take_append_of_le heq hlen
      have hv := hm.whole b.slice.addr (b.occ.drop m.length) hinv.slice_al
      have hs : b.slice = ⟨b.slice.addr, m ++ b.occ.drop m.length⟩ := by
        simp only [RBuf.slice, Slice.mk.injEq, true_and]; exact h1
      rw [← hs] at hv
      exact ⟨b, rest, ev :: evs, by simp [recv, hv, hk], heq, 0, by simp, by omega⟩
    · have hlt : b.occ.length < m.length := by omega
      obtain ⟨hpre, hrest⟩ := prefix_of_lt heq hlt
      have hs : b.slice = ⟨b.slice.addr, m.take b.occ.length⟩ := by
        simp only [RBuf.slice, Slice.mk.injEq, true_and]; exact hpre
      rcases hm.pre b.slice.addr b.occ.length hinv.slice_al hlt with hp | ⟨p, hp⟩
      · rw [← hs] at hp
        exact ⟨b, rest, ev :: evs, by simp [recv, hp, hk], heq, 0, by simp, by omega⟩
      rw [← hs] at hp
      obtain ⟨c, hev, hc⟩ := hcov.2 ev (by simp)
      have hcov' : Covers evs (m.length - b.occ.length - 1) :=
        ⟨by have := hcov.1; simp at this; omega, fun e he => hcov.2 e (by simp [he])⟩
      have hw := hinv.within
      have hnoom : ¬ (b.start + b.occ.length = b.cap ∧ b.start = 0) := by omega
      have hb1 : ∃ b1 : RBuf, (if b.start + b.occ.length = b.cap then { b with start := 0 } else b) = b1 ∧
          b1.occ = b.occ ∧ b1.cap = b.cap ∧ b1.base = b.base ∧ b1.start % d.align = 0 ∧ b1.start + b1.occ.length < b1.cap := by
        by_cases he : b.start + b.occ.length = b.cap
        · refine ⟨{ b with start := 0 }, by simp [he], rfl, rfl, rfl, by simp, ?_⟩
          simp only; omega
        · exact ⟨b, by simp [he], rfl, rfl, rfl, hinv.start_al, by omega⟩
      obtain ⟨b1, hsel, ho, hc1, hbase1, hst1, hv1⟩ := hb1
      have hol : b1.occ.length = b.occ.length := by rw [ho]
      unfold recv
      simp only [hp, ne_eq, not_true_eq_false, if_false, readStep, hnoom, hsel, hev]
      have hn : min (min c (b1.cap - (b1.start + b1.occ.length))) rest.length ≠ 0 := by omega
      simp only [hn, if_false]
      obtain ⟨b', rest', evs', hr, heq', k, hk1, hk2⟩ := ih
        { b1 with occ := b1.occ ++ rest.take (min (min c (b1.cap - (b1.start + b1.occ.length))) rest.length) }
        (rest.drop (min (min c (b1.cap - (b1.start + b1.occ.length))) rest.length)) tail
        ⟨by simpa [hbase1] using hinv.base_al, hst1, by simp only [List.length_append, List.length_take]; omega⟩
        (by simpa [hc1] using hcap)
        (by simp only [ho]; rw [List.append_assoc, List.take_append_drop]; exact heq)
        (by apply covers_mono hcov'; simp only [List.length_append, List.length_take]; omega)
      refine ⟨b', rest', evs', hr, heq', k + 1, by simp [hk1], ?_⟩
      simp only [List.length_append, List.length_take] at hk2
      omega

/-- **The receiver on a stream that goes bad.** The stream is any number of well-formed messages, then bytes `bad` that
are rejected with the content error `e`, then anything. Whatever the read sizes, the receiver yields exactly the good
messages, in order, and then the parse error `e`: it does not wait for more input, run out of memory, or skip ahead. -/
theorem recv_delivers_then_bad (d : Dict) (bad : Bytes) (e : Err) (hbad : IsBad d bad e) (tl : Bytes) :
    ∀ (msgs : List Bytes) (evs : List ReadEv) (b : RBuf) (rest : Bytes),
      (∀ m ∈ msgs, IsMsg d m ∧ 2 * m.length ≤ b.cap) → 2 * bad.length ≤ b.cap → RInv d b →
      b.occ ++ rest = flat msgs ++ (bad ++ tl) → Covers evs ((flat msgs).length + bad.length - b.occ.length) →
      recvLoop d (msgs.length + 1) evs b rest = msgs.map .msg ++ [.parse e] := by
  intro msgs
  induction msgs with
  | nil =>
    intro evs b rest _ hcap hinv heq hcov
    simp only [flat, List.foldr_nil, List.nil_append, List.length_nil, Nat.zero_add] at heq hcov
    obtain ⟨b', rest', evs', hr, _, _⟩ := recv_head_bad d bad e hbad evs b rest tl hinv hcap heq hcov
    simp [recvLoop, hr]
  | cons m ms ih =>
    intro evs b rest hms hbcap hinv heq hcov
    obtain ⟨hm, hmcap⟩ := hms m (by simp)
    rw [flat_cons, List.append_assoc] at heq
    obtain ⟨b', rest', evs', hr, hinv', hcap', hbase', hl', heq', hgrow, k, hk1, hk2⟩ :=
      recv_head d m hm evs b rest (flat ms ++ (bad ++ tl)) hinv hmcap heq
        (covers_mono hcov (by simp only [flat_cons, List.length_append]; omega))
    obtain ⟨h1, h2⟩ := take_append_of_le heq' hl'
    have hsz := (hm.whole b'.slice.addr (b'.occ.drop m.length) hinv'.slice_al).2
    have hs : b'.slice = ⟨b'.slice.addr, m ++ b'.occ.drop m.length⟩ := by
      simp only [RBuf.slice, Slice.mk.injEq, true_and]; exact h1
    rw [← hs] at hsz
    have htake : b'.occ.take m.length = m := by rw [h1]; simp
    have hcov' : ∀ n, n ≤ (flat ms).length + bad.length - (b'.occ.length - m.length) → Covers evs' n := by
      intro n hn
      refine ⟨?_, fun e he => hcov.2 e (by rw [hk1] at he; exact List.mem_of_mem_drop he)⟩
      have := hcov.1
      rw [hk1, List.length_drop]
      simp only [flat_cons, List.length_append] at this
      omega
    simp only [recvLoop, hr, hsz, dropGuard, hl', if_true, List.map_cons, List.cons_append, htake]
    congr 1
    split
    · rename_i hemp
      have hd0 : b'.occ.drop m.length = [] := by simpa using hemp
      have hd1 : b'.occ.length ≤ m.length := List.drop_eq_nil_iff.1 hd0
      rw [hd0] at h2
      apply ih
      · intro x hx; simpa [hcap'] using hms x (by simp [hx])
      · simpa [hcap'] using hbcap
      · exact ⟨hinv'.base_al, Nat.zero_mod _, by simp only [List.length_nil]; omega⟩
      · simpa using h2
      · apply hcov'
        simp only [List.length_nil]; omega
    · apply ih
      · intro x hx; simpa [hcap'] using hms x (by simp [hx])
      · simpa [hcap'] using hbcap
      · refine ⟨hinv'.base_al, add_mod_zero hinv'.start_al hm.mult, ?_⟩
        have := hinv'.within
        simp only [List.length_drop]; omega
      · exact h2
      · apply hcov'
        simp only [List.length_drop]; omega

/-- **C10 (malformed is not "incomplete") for every message type.** -/
theorem C10_stream_goes_bad (t : Ty) (h : t.WF) (hmin : 0 < t.dict.minSize) (msgs : List Bytes)
    (hmsgs : ∀ m ∈ msgs, ∀ a, a % t.dict.align = 0 → t.dict.validate ⟨a, m⟩ = .ok () ∧ t.dict.size ⟨a, m⟩ = .ok m.length)
    (bad : Bytes) (e : Err) (hh : e.Hard) (hbad : ∀ a, a % t.dict.align = 0 → t.dict.validate ⟨a, bad⟩ = .err e)
    (tl : Bytes) (base cap : Nat) (hbase : base % t.dict.align = 0) (hfit : ∀ m ∈ msgs, 2 * m.length ≤ cap)
    (hfitb : 2 * bad.length ≤ cap)
    (evs : List ReadEv) (hevs : Covers evs ((flat msgs).length + bad.length)) :
    recvLoop t.dict (msgs.length + 1) evs ⟨base, cap, 0, []⟩ (flat msgs ++ (bad ++ tl)) = msgs.map .msg ++ [.parse e] := by
  apply recv_delivers_then_bad t.dict bad e (isBad_of_hard t h bad e hh hbad) tl msgs evs ⟨base, cap, 0, []⟩
  · intro m hm; exact ⟨isMsg_of_valid t h hmin m (hmsgs m hm), hfit m hm⟩
  · exact hfitb
  · exact ⟨hbase, Nat.zero_mod _, by simp⟩
  · simp
  · simpa using hevs
end FV
#print axioms FV.C10_stream_goes_bad
