import FV.Bridge
import FV.IoSend
import FV.IoRecv
import FV.IoAsync
import FV.IoAsyncRecv
/-! # Formula bridge, IO layer

The decision points of `io/src/{blocking,async_}/io.rs`, `recv.rs` and the window arithmetic of `io/src/common/io.rs`, as the source
has them now (`FV/Gen/Formulas.lean`, regenerated on every run), are the ones the models `writeAll`, `apoll`, `readStep`, `recv`,
`arecv` use. The model keeps the window as (`start`, occupied bytes); `window.end` is `start + occ.length`. -/
namespace FV.Bridge
open FV

/-- the blocking `write_all`: loop test, `Ok(0)` test, and the two poisoning tests -/
theorem io_write_all_step (msg : Bytes) (ev : WriteEv) (evs : List WriteEv) (pos : Nat) (sink : Bytes) (used : Nat) :
    writeAll msg (ev :: evs) pos sink used =
      if Gen.cIoWriteLoop_cond pos msg.length then
        match ev with
        | .accept n =>
          if Gen.cIoWriteZero_cond n then ⟨.brokenPipe, Gen.cIoPoisonZero_cond pos, sink, evs, used + 1⟩
          else writeAll msg evs (pos + min n (msg.length - pos)) (sink ++ (msg.drop pos).take (min n (msg.length - pos))) (used + 1)
        | .zero => ⟨.brokenPipe, Gen.cIoPoisonZero_cond pos, sink, evs, used + 1⟩
        | .fail k => ⟨.err k, Gen.cIoPoisonErr_cond pos, sink, evs, used + 1⟩
      else ⟨.done, false, sink, ev :: evs, used⟩ := by
  conv => lhs; unfold writeAll
  simp only [Gen.cIoWriteLoop_cond, Gen.cIoWriteZero_cond, Gen.cIoPoisonZero_cond, Gen.cIoPoisonErr_cond, decide_eq_true_eq]
  by_cases h : msg.length ≤ pos
  · rw [if_pos h, if_neg (by omega)]
  · rw [if_neg h, if_pos (by omega)]
    cases ev <;> simp

/-- one poll of the async `WriteAll` while bytes remain: the same four tests -/
theorem aio_write_all_step (msg : Bytes) (ev : AEv) (evs : List AEv) (st : AState)
    (h : Gen.cAioWriteLoop_cond st.pos msg.length = true) :
    apoll msg (ev :: evs) st =
      match ev with
      | .pending => (.pending, st, evs)
      | .ok n =>
        if Gen.cAioWriteZero_cond n then (.brokenPipe, { st with poisoned := Gen.cAioPoisonZero_cond st.pos }, evs)
        else apoll msg evs { st with pos := st.pos + min n (msg.length - st.pos), sink := st.sink ++ (msg.drop st.pos).take (min n (msg.length - st.pos)) }
      | .err k => (.err k, { st with poisoned := Gen.cAioPoisonErr_cond st.pos }, evs) := by
  simp only [Gen.cAioWriteLoop_cond, decide_eq_true_eq] at h
  conv => lhs; unfold apoll
  simp only [Gen.cAioWriteZero_cond, Gen.cAioPoisonZero_cond, Gen.cAioPoisonErr_cond, decide_eq_true_eq]
  rw [if_neg (by omega)]
  cases ev <;> simp
/-- … and once all bytes are handed over the poll goes to the flush -/
theorem aio_write_all_flush (msg : Bytes) (ev : AEv) (evs : List AEv) (st : AState)
    (h : Gen.cAioWriteLoop_cond st.pos msg.length = false) :
    apoll msg (ev :: evs) st =
      match ev with
      | .pending => (.pending, st, evs)
      | .ok _ => (.done, st, evs)
      | .err k => (.flushErr k, st, evs) := by
  simp only [Gen.cAioWriteLoop_cond, decide_eq_false_iff_not] at h
  conv => lhs; unfold apoll
  rw [if_pos (by omega)]
  cases ev <;> rfl

/-- `ReadBuffer::read`: room test, compaction test, and what compaction and the pipe call do to the window -/
theorem io_read_step (b : RBuf) (ev : ReadEv) (rest : Bytes) (hw : b.start + b.occ.length ≤ b.cap) :
    readStep b ev rest =
      let wend := b.start + b.occ.length
      if Gen.cIoReadFull_cond (Gen.ioVacantLen b.cap wend) && !Gen.cIoReadCompact_cond (Gen.ioPrecedingLen b.start) then .oom
      else
        let b1 : RBuf := if Gen.cIoReadFull_cond (Gen.ioVacantLen b.cap wend) then { b with start := 0 } else b
        match ev with
        | .fail k => .err b1 k
        | .deliver c =>
          let n := min (min c (Gen.ioVacantLen b1.cap (b1.start + b1.occ.length))) rest.length
          .got { b1 with occ := b1.occ ++ rest.take n } (rest.drop n) n := by
  obtain ⟨base, cap, start, occ⟩ := b
  simp only at hw
  simp only [readStep, Gen.cIoReadFull_cond, Gen.cIoReadCompact_cond, Gen.ioVacantLen, Gen.ioPrecedingLen]
  by_cases hf : start + occ.length = cap
  · have hv : cap - (start + occ.length) = 0 := by omega
    by_cases hs : start = 0
    · subst hs
      simp only [Nat.zero_add] at hf hv ⊢
      simp [hf]
    · have hp : start > 0 := by omega
      simp only [hf, hv, hs, hp, and_false, if_false, if_true, decide_true, decide_false, Bool.not_true, Bool.and_false, Bool.false_eq_true,
        Nat.sub_self]
      cases ev <;> rfl
  · have hv : ¬ (cap - (start + occ.length) = 0) := by omega
    simp only [hf, hv, false_and, if_false, decide_false, Bool.false_and, Bool.false_eq_true]
    cases ev <;> rfl
/-- after `make_contiguous` the window is `0..occupied_len`: the model keeps the occupied bytes and sets `start := 0` -/
theorem io_make_contiguous (b : RBuf) :
    Gen.ioContiguousEnd b.start (b.start + b.occ.length) = ({ b with start := 0 } : RBuf).start + ({ b with start := 0 } : RBuf).occ.length ∧
      Gen.ioOccupiedLen b.start (b.start + b.occ.length) = b.occ.length := by
  simp [Gen.ioContiguousEnd, Gen.ioOccupiedLen]

/-- the async `poll_read` makes the same two tests -/
theorem aio_read_tests (vacant preceding : Nat) :
    Gen.cAioReadFull_cond vacant = Gen.cIoReadFull_cond vacant ∧ Gen.cAioReadCompact_cond preceding = Gen.cIoReadCompact_cond preceding := ⟨rfl, rfl⟩

/-- `recv`: a read of zero bytes is `Closed` (blocking and async) -/
theorem io_recv_closed (d : Dict) (ev : ReadEv) (evs : List ReadEv) (b b1 : RBuf) (rest rest1 : Bytes) (n : Nat) (p : Nat)
    (hv : d.validate b.slice = .err ⟨.insufficientSize, p⟩) (hs : readStep b ev rest = .got b1 rest1 n) :
    recv d (ev :: evs) b rest = if Gen.cIoRecvClosed_cond n then (.closed, b1, rest1, evs) else recv d evs b1 rest1 := by
  conv => lhs; unfold recv
  simp only [hv, hs, Gen.cIoRecvClosed_cond, decide_eq_true_eq, ne_eq, not_true_eq_false, if_false]
theorem aio_recv_closed (n : Nat) : Gen.cAioRecvClosed_cond n = Gen.cIoRecvClosed_cond n := rfl

/-- the numbering of `ErrorKind` the extractor uses for the `recv` dispatch -/
def ekindNum : EKind → Nat
  | .insufficientSize => 0 | .badAlign => 1 | .invalidEnumTag => 2 | .invalidData => 3 | .other => 4
/-- `recv`: exactly the extracted kind means "read more"; every other validation error is returned as `Parse` with nothing read -/
theorem io_recv_dispatch (d : Dict) (evs : List ReadEv) (b : RBuf) (rest : Bytes) (e : Err) (hv : d.validate b.slice = .err e) :
    (Gen.cIoRecvRetry_cond (ekindNum e.kind) = false → recv d evs b rest = (.parse e, b, rest, evs)) ∧
    (Gen.cIoRecvRetry_cond (ekindNum e.kind) = true → e.kind = .insufficientSize) := by
  constructor
  · intro h
    have hk : e.kind ≠ .insufficientSize := by
      intro hk; rw [hk] at h; simp [Gen.cIoRecvRetry_cond, ekindNum] at h
    unfold recv
    simp [hv, hk]
  · intro h
    cases hk : e.kind <;> rw [hk] at h <;> simp [Gen.cIoRecvRetry_cond, ekindNum] at h ⊢
theorem aio_recv_dispatch (k : Nat) : Gen.cAioRecvRetry_cond k = Gen.cIoRecvRetry_cond k := rfl

/-- the buffers the constructors allocate hold twice the largest message — the capacity hypothesis of `C07_receiver_delivers`
(`2 * m.length ≤ cap`) for every message of at most `max_msg_len` bytes — and are never empty for a type with `MIN_SIZE > 0` -/
theorem io_capacities (maxlen tmin : Nat) :
    Gen.ioRecvCap maxlen tmin = 2 * max maxlen tmin ∧ Gen.ioSendCap maxlen tmin = 2 * max maxlen tmin ∧
      Gen.aioRecvCap maxlen tmin = 2 * max maxlen tmin ∧ Gen.aioSendCap maxlen tmin = 2 * max maxlen tmin ∧
      (∀ m, m ≤ maxlen → 2 * m ≤ Gen.ioRecvCap maxlen tmin) ∧ (0 < tmin → 0 < Gen.ioRecvCap maxlen tmin) := by
  simp only [Gen.ioRecvCap, Gen.ioSendCap, Gen.aioRecvCap, Gen.aioSendCap, max_eq]
  refine ⟨trivial, trivial, trivial, trivial, ?_, ?_⟩
  · intro m hm; have := Nat.le_max_left maxlen tmin; omega
  · intro h; have := Nat.le_max_right maxlen tmin; omega

/-- dropping a guard is `Buffer::skip(size())`: the window assertion (evaluated after `start += count`) is the model's fault condition,
and an emptied window is reset to `0..0` (the extraction site exists only while that reset follows the assertion) -/
theorem io_skip (d : Dict) (b : RBuf) (z : Nat) (hz : d.size b.slice = .ok z) :
    dropGuard d b =
      if Gen.cIoSkipAssert_cond (b.start + z) (b.start + b.occ.length) then
        some (if (b.occ.drop z).isEmpty then { b with start := 0, occ := [] } else { b with start := b.start + z, occ := b.occ.drop z })
      else none := by
  simp only [dropGuard, hz, Gen.cIoSkipAssert_cond, decide_eq_true_eq, Nat.add_le_add_iff_left]
/-- what `Buffer::advance` asserts after a read of `n` bytes holds for the `n` the model takes: at most the vacant room -/
theorem io_advance (b : RBuf) (c : Nat) (rest : Bytes) (hw : b.start + b.occ.length ≤ b.cap) :
    Gen.cIoAdvanceAssert_cond (b.start + b.occ.length + min (min c (Gen.ioVacantLen b.cap (b.start + b.occ.length))) rest.length) b.cap = true := by
  unfold Gen.cIoAdvanceAssert_cond Gen.ioVacantLen
  apply decide_eq_true
  have h1 : min (min c (b.cap - (b.start + b.occ.length))) rest.length ≤ b.cap - (b.start + b.occ.length) :=
    Nat.le_trans (Nat.min_le_left _ _) (Nat.min_le_right _ _)
  omega

theorem io_untranslatable_none : (Gen.cIoRecvRetry_untranslatable || Gen.cAioRecvRetry_untranslatable || Gen.cIoSkipAssert_untranslatable || Gen.cIoAdvanceAssert_untranslatable || Gen.ioPrecedingLen_untranslatable || Gen.ioOccupiedLen_untranslatable || Gen.ioVacantLen_untranslatable ||
    Gen.ioContiguousEnd_untranslatable || Gen.ioSendCap_untranslatable || Gen.ioRecvCap_untranslatable || Gen.aioSendCap_untranslatable ||
    Gen.aioRecvCap_untranslatable || Gen.cIoWriteLoop_untranslatable || Gen.cIoWriteZero_untranslatable || Gen.cIoPoisonZero_untranslatable ||
    Gen.cIoPoisonErr_untranslatable || Gen.cIoReadFull_untranslatable || Gen.cIoReadCompact_untranslatable || Gen.cIoRecvClosed_untranslatable ||
    Gen.cAioWriteLoop_untranslatable || Gen.cAioWriteZero_untranslatable || Gen.cAioPoisonZero_untranslatable || Gen.cAioPoisonErr_untranslatable ||
    Gen.cAioReadFull_untranslatable || Gen.cAioReadCompact_untranslatable || Gen.cAioRecvClosed_untranslatable) = false := by decide
end FV.Bridge
