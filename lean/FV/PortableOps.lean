import FV.Portable
/-! Portable scalars as the code defines them (`portable/src/int.rs`, `float.rs`): a value *is* its `n` stored bytes;
`from_native = Int::from_bytes ∘ to_{le,be}_bytes`, `to_native = from_{le,be}_bytes ∘ to_bytes`, and every trait method is
`from_native ∘ native method ∘ to_native`. Native integer arithmetic is the checked arithmetic of a debug build
(overflow and division by zero panic); it is a *parameter* in the delegation theorem and instantiated here for the
correspondence check. -/
namespace FV

structure PTy where
  be : Bool
  n : Nat
  signed : Bool
deriving Repr, DecidableEq

namespace PTy
def lo (p : PTy) : Int := if p.signed then -((256 ^ p.n / 2 : Nat) : Int) else 0
def hi (p : PTy) : Int := if p.signed then ((256 ^ p.n / 2 : Nat) : Int) - 1 else ((256 ^ p.n : Nat) : Int) - 1
def inRange (p : PTy) (v : Int) : Bool := p.lo ≤ v && v ≤ p.hi
/-- `to_native`: the stored bytes read in the type's byte order, two's complement when signed -/
def toNative (p : PTy) (stored : Bytes) : Int :=
  let u := if p.be then beNat stored else leNat stored
  if p.signed then toSigned p.n u else (u : Int)
/-- `from_native` -/
def fromNative (p : PTy) (v : Int) : Bytes :=
  let u := if p.signed then ofSigned p.n v else v.toNat
  if p.be then toBE u p.n else toLE u p.n

/-- checked native arithmetic: `none` = panic -/
def binop (p : PTy) (op : String) (a b : Int) : Option Int :=
  let r : Option Int :=
    if op = "add" then some (a + b) else if op = "sub" then some (a - b) else if op = "mul" then some (a * b)
    else if op = "div" then (if b = 0 then none else some (Int.tdiv a b))
    else if op = "rem" then (if b = 0 then none else if p.inRange (Int.tdiv a b) then some (Int.tmod a b) else none)
    else none
  match r with
  | some v => if p.inRange v then some v else none
  | none => none

def toU64 (v : Int) : Option Int := if 0 ≤ v ∧ v ≤ 18446744073709551615 then some v else none
def toI64 (v : Int) : Option Int := if -9223372036854775808 ≤ v ∧ v ≤ 9223372036854775807 then some v else none
/-- `FromPrimitive::from_*`: the native conversion succeeds exactly when the value is representable -/
def fromPrim (p : PTy) (v : Int) : Option Bytes := if p.inRange v then some (p.fromNative v) else none
end PTy
end FV
