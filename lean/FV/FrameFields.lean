import FV.Frame
/-! Locality and prefix behaviour of the generic field-list walker. -/
namespace FV

/-- end of the used data of a valid field list (position relative to the list's position 0) -/
def extentAll : List Dict → Nat → Slice → Res Nat
  | [], pos, _ => .ok pos
  | [d], pos, data => (d.sizeV data).bind fun z => .ok (pos + z)
  | d :: d' :: ds, pos, data =>
      let next := ceilMul (pos + d.ssize) d'.align
      match data.splitAt (next - pos) with
      | .ok (_, rest) => extentAll (d' :: ds) next rest
      | .err e => .err e
      | .fault f => .fault f

theorem Insuff.offset {α} {r : Res α} (h : Insuff r) (n : Nat) : Insuff (r.offset n) := by
  obtain ⟨p, rfl⟩ := h; exact ⟨p + n, rfl⟩

/-- next position is within `minSizeL` -/
theorem next_le_minSizeL (d d' : Dict) (ds : List Dict) (pos : Nat) (hpos : ∀ x ∈ d' :: ds, 0 < x.align)
    (hcm : ceilMul pos d.align = pos) :
    ceilMul (pos + d.ssize) d'.align ≤ minSizeL (d :: d' :: ds) pos := by
  simp only [minSizeL, hcm]
  cases ds with
  | nil => simp only [minSizeL]; omega
  | cons d'' ds'' =>
    simp only [minSizeL]
    have := le_minSizeL (d'' :: ds'') (ceilMul (pos + d.ssize) d'.align + d'.ssize) (fun x hx => hpos x (by simp [hx]))
    omega

theorem minSizeL_next (d d' : Dict) (ds : List Dict) (pos : Nat) (hd' : 0 < d'.align) (hcm : ceilMul pos d.align = pos) :
    minSizeL (d' :: ds) (ceilMul (pos + d.ssize) d'.align) = minSizeL (d :: d' :: ds) pos := by
  simp only [minSizeL, hcm]
  cases ds with
  | nil => simp only [minSizeL]; rw [ceilMul_of_mod hd' (ceilMul_mod _ _)]
  | cons d'' ds'' => simp only [minSizeL]; rw [ceilMul_of_mod hd' (ceilMul_mod _ _)]

structure FieldsOk (ds : List Dict) : Prop where
  law : ∀ d ∈ ds, Law d
  frame : ∀ d ∈ ds, FrameLaw d
  sized : AllSizedButLast ds

theorem FieldsOk.tail {d : Dict} {ds : List Dict} (h : FieldsOk (d :: ds)) : FieldsOk ds :=
  ⟨fun x hx => h.law x (by simp [hx]), fun x hx => h.frame x (by simp [hx]),
   by cases ds with
      | nil => trivial
      | cons d' ds' => exact h.sized.2⟩

def HeadAligned : List Dict → Nat → Prop
  | [], _ => True
  | d :: _, pos => pos % d.align = 0

/-- alignment bookkeeping of the walk -/
structure Placed (ds : List Dict) (pos : Nat) (data : Slice) : Prop where
  base : ∀ d ∈ ds, (data.addr - pos) % d.align = 0
  le : pos ≤ data.addr
  head : HeadAligned ds pos

theorem Placed.head_addr {d : Dict} {ds : List Dict} {pos : Nat} {data : Slice} (h : Placed (d :: ds) pos data) :
    data.addr % d.align = 0 := by
  have : data.addr = (data.addr - pos) + pos := by have := h.le; omega
  rw [this]; exact add_mod_zero (h.base d (by simp)) h.head

theorem Placed.next {d d' : Dict} {ds : List Dict} {pos : Nat} {data : Slice} (h : Placed (d :: d' :: ds) pos data)
    (hge : pos ≤ ceilMul (pos + d.ssize) d'.align) :
    Placed (d' :: ds) (ceilMul (pos + d.ssize) d'.align) (data.drop (ceilMul (pos + d.ssize) d'.align - pos)) :=
  { base := by
      intro x hx
      simp only [Slice.addr_drop]
      have := h.le
      have e : data.addr + (ceilMul (pos + d.ssize) d'.align - pos) - ceilMul (pos + d.ssize) d'.align = data.addr - pos := by omega
      rw [e]; exact h.base x (by simp [hx])
    le := by simp only [Slice.addr_drop]; have := h.le; omega
    head := by simp only [HeadAligned]; exact ceilMul_mod _ _ }

theorem Placed.congr {ds : List Dict} {pos : Nat} {data data' : Slice} (h : Placed ds pos data) (ha : data'.addr = data.addr) :
    Placed ds pos data' :=
  ⟨by rw [ha]; exact h.base, by rw [ha]; exact h.le, h.head⟩

/-- **Locality of a valid field list.** -/
theorem fields_loc :
    ∀ (ds : List Dict) (pos : Nat) (data : Slice), FieldsOk ds → Placed ds pos data →
      minSizeL ds pos ≤ pos + data.len → validateAll ds pos data = .ok () →
      ∃ e, extentAll ds pos data = .ok e ∧ e ≤ pos + data.len ∧ minSizeL ds pos ≤ e ∧
        ∀ data', data'.addr = data.addr → e ≤ pos + data'.len →
          data'.bytes.take (e - pos) = data.bytes.take (e - pos) →
          validateAll ds pos data' = .ok () ∧ extentAll ds pos data' = .ok e := by
  intro ds
  induction ds with
  | nil =>
    intro pos data _ _ _ _
    exact ⟨pos, rfl, by omega, by simp [minSizeL], fun _ _ _ _ => ⟨rfl, rfl⟩⟩
  | cons d ds ih =>
    intro pos data hok hpl hmin hv
    have hL := hok.law d (by simp)
    have hF := hok.frame d (by simp)
    have haddr := hpl.head_addr
    have hcm : ceilMul pos d.align = pos := ceilMul_of_mod hL.align_pow2.pos hpl.head
    cases ds with
    | nil =>
      simp only [validateAll] at hv
      have hv' : d.validateU data = .ok () := Res.offset_eq_ok.1 hv
      have hlen : d.minSize ≤ data.len := by simp only [minSizeL, hcm] at hmin; omega
      obtain ⟨z, hz, hzle, _, hzmin⟩ := hF.size_ok data haddr hlen hv'
      refine ⟨pos + z, by simp [extentAll, hz], by omega, by simp only [minSizeL, hcm]; omega, ?_⟩
      intro data' ha hl' hb
      have e1 : pos + z - pos = z := by omega
      rw [e1] at hb
      obtain ⟨h1, h2⟩ := hF.loc data z haddr hlen hv' hz data' ha (by omega) hb
      exact ⟨by simp [validateAll, h1], by simp [extentAll, h2]⟩
    | cons d' ds' =>
      have hL' := hok.law d' (by simp)
      obtain ⟨n, hn⟩ : ∃ n, d.sized = some n := by
        have := hok.sized.1; cases h : d.sized <;> simp_all
      have hss : d.ssize = n := by simp [Dict.ssize, hn]
      have hdmin := hL.sized_min n hn
      have hnext := next_le_minSizeL d d' ds' pos (fun x hx => (hok.law x (by simp [hx])).align_pow2.pos) hcm
      have hge : pos ≤ ceilMul (pos + d.ssize) d'.align := by
        have := le_ceilMul (x := pos + d.ssize) hL'.align_pow2.pos; omega
      have hge2 : pos + n ≤ ceilMul (pos + d.ssize) d'.align := by
        have := le_ceilMul (x := pos + d.ssize) hL'.align_pow2.pos; omega
      have hsplit : ceilMul (pos + d.ssize) d'.align - pos ≤ data.len := by omega
      simp only [validateAll] at hv
      cases hvd : d.validateU data with
      | fault f => simp [hvd] at hv
      | err e => simp [hvd] at hv
      | ok u =>
        simp only [hvd, Res.offset_ok, Slice.splitAt, hsplit, if_true] at hv
        have hmin' : minSizeL (d' :: ds') (ceilMul (pos + d.ssize) d'.align) ≤
            ceilMul (pos + d.ssize) d'.align + (data.drop (ceilMul (pos + d.ssize) d'.align - pos)).len := by
          rw [minSizeL_next d d' ds' pos hL'.align_pow2.pos hcm]; simp only [Slice.len_drop]; omega
        obtain ⟨e, he, hele, hemin, hloc⟩ := ih _ _ hok.tail (hpl.next hge) hmin' hv
        rw [minSizeL_next d d' ds' pos hL'.align_pow2.pos hcm] at hemin
        simp only [Slice.len_drop] at hele
        refine ⟨e, by simp [extentAll, Slice.splitAt, hsplit, he], by omega, hemin, ?_⟩
        intro data' ha hl' hb
        have hsplit' : ceilMul (pos + d.ssize) d'.align - pos ≤ data'.len := by omega
        have hdz : d.sizeV data = .ok n := hF.sized_sizeV n hn data
        have hb1 : data'.bytes.take n = data.bytes.take n := take_take_eq hb (by omega)
        obtain ⟨h1, _⟩ := hF.loc data n haddr (by omega) hvd hdz data' ha (by omega) hb1
        have hrest := hloc (data'.drop (ceilMul (pos + d.ssize) d'.align - pos))
          (by simp [ha]) (by simp only [Slice.len_drop]; omega)
          (by
            simp only [Slice.drop]
            have hq : e - ceilMul (pos + d.ssize) d'.align + (ceilMul (pos + d.ssize) d'.align - pos) ≤ e - pos := by omega
            have := drop_take_eq (a := data'.bytes) (b := data.bytes) (n := e - pos)
              (off := ceilMul (pos + d.ssize) d'.align - pos) (k := e - ceilMul (pos + d.ssize) d'.align) hb (by omega)
            exact this)
        exact ⟨by simp [validateAll, h1, Slice.splitAt, hsplit', hrest.1],
               by simp [extentAll, Slice.splitAt, hsplit', hrest.2]⟩

theorem validate_eq_validateU {d : Dict} {s : Slice} (ha : s.addr % d.align = 0) (hl : d.minSize ≤ s.len) :
    d.validate s = d.validateU s := by
  have : checkAlignMin d.align d.minSize s = .ok () := checkAlignMin_ok.2 ⟨ha, hl⟩
  simp [Dict.validate, this]

theorem Slice.take_drop (s : Slice) (k off : Nat) (h : off ≤ k) :
    (s.take k).drop off = (s.drop off).take (k - off) := by
  simp only [Slice.take, Slice.drop, Slice.mk.injEq, true_and]
  rw [List.drop_take]

/-- **Proper prefixes of a valid field list are insufficient** (once the list's own minimum is present). -/
theorem fields_pre :
    ∀ (ds : List Dict) (pos : Nat) (data : Slice) (e : Nat), FieldsOk ds → Placed ds pos data →
      minSizeL ds pos ≤ pos + data.len → validateAll ds pos data = .ok () → extentAll ds pos data = .ok e →
      ∀ k, minSizeL ds pos ≤ pos + k → pos + k < e → k ≤ data.len →
        Insuff (validateAll ds pos (data.take k)) := by
  intro ds
  induction ds with
  | nil =>
    intro pos data e _ _ _ _ he k _ hk _
    simp [extentAll] at he; omega
  | cons d ds ih =>
    intro pos data e hok hpl hmin hv he k hkmin hk hkl
    have hL := hok.law d (by simp)
    have hF := hok.frame d (by simp)
    have haddr := hpl.head_addr
    have hcm : ceilMul pos d.align = pos := ceilMul_of_mod hL.align_pow2.pos hpl.head
    cases ds with
    | nil =>
      simp only [validateAll] at hv ⊢
      have hv' : d.validateU data = .ok () := Res.offset_eq_ok.1 hv
      have hlen : d.minSize ≤ data.len := by simp only [minSizeL, hcm] at hmin; omega
      have hkm : d.minSize ≤ k := by simp only [minSizeL, hcm] at hkmin; omega
      cases hz : d.sizeV data with
      | fault f => simp [extentAll, hz] at he
      | err e' => simp [extentAll, hz] at he
      | ok z =>
        simp [extentAll, hz] at he
        have := hF.pre data z haddr hlen hv' hz k (by omega)
        rw [validate_eq_validateU (by simpa using haddr) (by simp only [Slice.len_take]; omega)] at this
        exact this.offset pos
    | cons d' ds' =>
      have hL' := hok.law d' (by simp)
      obtain ⟨n, hn⟩ : ∃ n, d.sized = some n := by
        have := hok.sized.1; cases h : d.sized <;> simp_all
      have hss : d.ssize = n := by simp [Dict.ssize, hn]
      have hdmin := hL.sized_min n hn
      have hnext := next_le_minSizeL d d' ds' pos (fun x hx => (hok.law x (by simp [hx])).align_pow2.pos) hcm
      have hge : pos ≤ ceilMul (pos + d.ssize) d'.align := by
        have := le_ceilMul (x := pos + d.ssize) hL'.align_pow2.pos; omega
      have hge2 : pos + n ≤ ceilMul (pos + d.ssize) d'.align := by
        have := le_ceilMul (x := pos + d.ssize) hL'.align_pow2.pos; omega
      have hsplit : ceilMul (pos + d.ssize) d'.align - pos ≤ data.len := by omega
      simp only [validateAll] at hv
      cases hvd : d.validateU data with
      | fault f => simp [hvd] at hv
      | err e' => simp [hvd] at hv
      | ok u =>
        simp only [hvd, Res.offset_ok, Slice.splitAt, hsplit, if_true] at hv
        simp only [extentAll, Slice.splitAt, hsplit, if_true] at he
        have hdz : d.sizeV data = .ok n := hF.sized_sizeV n hn data
        obtain ⟨h1, _⟩ := hF.loc data n haddr (by omega) hvd hdz (data.take k) rfl
          (by simp only [Slice.len_take]; omega)
          (by simp only [Slice.take, List.take_take]; congr 1; omega)
        have hsplitk : ceilMul (pos + d.ssize) d'.align - pos ≤ (data.take k).len := by
          simp only [Slice.len_take]; omega
        simp only [validateAll, h1, Res.offset_ok, Slice.splitAt, hsplitk, if_true]
        rw [Slice.take_drop data k _ (by omega)]
        have hmin' : minSizeL (d' :: ds') (ceilMul (pos + d.ssize) d'.align) ≤
            ceilMul (pos + d.ssize) d'.align + (data.drop (ceilMul (pos + d.ssize) d'.align - pos)).len := by
          rw [minSizeL_next d d' ds' pos hL'.align_pow2.pos hcm]; simp only [Slice.len_drop]; omega
        apply ih _ _ e hok.tail (hpl.next hge) hmin' hv he
        · rw [minSizeL_next d d' ds' pos hL'.align_pow2.pos hcm]; omega
        · omega
        · simp only [Slice.len_drop]; omega
end FV
