import FV.IoAsyncRecv
/-! C09 (c): a receiver whose reads fail transiently — any number of times, at any point — and which simply calls `recv` again
still obtains every message exactly once, in order. -/
namespace FV

def isPos : ReadEv → Bool
  | .deliver c => decide (0 < c)
  | .fail _ => false

def posCount (evs : List ReadEv) : Nat := (evs.filter isPos).length

/-- at least `n` positive deliveries; everything else in the script is a failing read -/
def CoversF (evs : List ReadEv) (n : Nat) : Prop :=
  n ≤ posCount evs ∧ ∀ ev ∈ evs, (∃ k, ev = .fail k) ∨ ∃ c, ev = .deliver c ∧ 0 < c

/-- `recv`, called again after every `Err(Read(_))` (at most `fuel` times); also counts the read errors seen -/
def recvRetry (d : Dict) : Nat → List ReadEv → RBuf → Bytes → (RecvOut × RBuf × Bytes × List ReadEv) × Nat
  | 0, evs, b, rest => (recv d evs b rest, 0)
  | n+1, evs, b, rest =>
    match recv d evs b rest with
    | (.readErr _, b', rest', evs') => ((recvRetry d n evs' b' rest').1, (recvRetry d n evs' b' rest').2 + 1)
    | r => (r, 0)

theorem posCount_cons_fail (evs : List ReadEv) (k : Nat) : posCount (.fail k :: evs) = posCount evs := by simp [posCount, isPos]
theorem posCount_cons_pos (c : Nat) (hc : 0 < c) (evs : List ReadEv) : posCount (.deliver c :: evs) = posCount evs + 1 := by
  simp [posCount, isPos, hc]

theorem recvRetry_of_not_readErr (d : Dict) (n : Nat) (evs : List ReadEv) (b : RBuf) (rest : Bytes)
    (h : ∀ k, (recv d evs b rest).1 ≠ .readErr k) : (recvRetry d n evs b rest).1 = recv d evs b rest := by
  cases n with
  | zero => rfl
  | succ n =>
    simp only [recvRetry]
    split
    · rename_i b' rest' evs' heq; rw [heq] at h; exact absurd rfl (h _)
    · rfl

/-- **Head lemma with transient read errors.** -/
theorem recv_head_retry (d : Dict) (m : Bytes) (hm : IsMsg d m) :
    ∀ (evs : List ReadEv) (fuel : Nat) (b : RBuf) (rest tail : Bytes), evs.length ≤ fuel → RInv d b → 2 * m.length ≤ b.cap →
      b.occ ++ rest = m ++ tail → CoversF evs (m.length - b.occ.length) →
      ∃ b' rest' evs', (recvRetry d fuel evs b rest).1 = (.msg b'.occ, b', rest', evs') ∧ RInv d b' ∧ b'.cap = b.cap ∧ b'.base = b.base ∧
        m.length ≤ b'.occ.length ∧ b'.occ ++ rest' = m ++ tail ∧ b.occ.length ≤ b'.occ.length ∧
        posCount evs ≤ posCount evs' + (m.length - b.occ.length) ∧ (∀ e ∈ evs', e ∈ evs) := by
  intro evs
  induction evs with
  | nil =>
    intro fuel b rest tail _ hinv _ heq hcov
    have hlen : m.length ≤ b.occ.length := by have := hcov.1; simp [posCount] at this; omega
    obtain ⟨h1, _⟩ := take_append_of_le heq hlen
    have hv := (hm.whole b.slice.addr (b.occ.drop m.length) hinv.slice_al).1
    have hs : b.slice = ⟨b.slice.addr, m ++ b.occ.drop m.length⟩ := by
      simp only [RBuf.slice, Slice.mk.injEq, true_and]; exact h1
    rw [← hs] at hv
    have hr : recv d [] b rest = (.msg b.occ, b, rest, []) := by simp [recv, hv]
    refine ⟨b, rest, [], ?_, hinv, rfl, rfl, hlen, heq, Nat.le_refl _, by omega, fun e he => he⟩
    rw [recvRetry_of_not_readErr d fuel [] b rest (by rw [hr]; simp), hr]
  | cons ev evs ih =>
    intro fuel b rest tail hfuel hinv hcap heq hcov
    by_cases hlen : m.length ≤ b.occ.length
    · obtain ⟨h1, _⟩ := take_append_of_le heq hlen
      have hv := (hm.whole b.slice.addr (b.occ.drop m.length) hinv.slice_al).1
      have hs : b.slice = ⟨b.slice.addr, m ++ b.occ.drop m.length⟩ := by
        simp only [RBuf.slice, Slice.mk.injEq, true_and]; exact h1
      rw [← hs] at hv
      have hr : recv d (ev :: evs) b rest = (.msg b.occ, b, rest, ev :: evs) := by simp [recv, hv]
      refine ⟨b, rest, ev :: evs, ?_, hinv, rfl, rfl, hlen, heq, Nat.le_refl _, by omega, fun e he => he⟩
      rw [recvRetry_of_not_readErr d fuel _ b rest (by rw [hr]; simp), hr]
    · have hlt : b.occ.length < m.length := by omega
      obtain ⟨hpre, hrest⟩ := prefix_of_lt heq hlt
      obtain ⟨p, hp⟩ := hm.pre b.slice.addr b.occ.length hinv.slice_al hlt
      have hs : b.slice = ⟨b.slice.addr, m.take b.occ.length⟩ := by
        simp only [RBuf.slice, Slice.mk.injEq, true_and]; exact hpre
      rw [← hs] at hp
      have hw := hinv.within
      have hnoom : ¬ (b.start + b.occ.length = b.cap ∧ b.start = 0) := by omega
      have hb1 : ∃ b1 : RBuf, (if b.start + b.occ.length = b.cap then { b with start := 0 } else b) = b1 ∧
          b1.occ = b.occ ∧ b1.cap = b.cap ∧ b1.base = b.base ∧ b1.start % d.align = 0 ∧ b1.start + b1.occ.length < b1.cap := by
        by_cases he : b.start + b.occ.length = b.cap
        · refine ⟨{ b with start := 0 }, by simp [he], rfl, rfl, rfl, by simp, ?_⟩
          simp only; omega
        · exact ⟨b, by simp [he], rfl, rfl, rfl, hinv.start_al, by omega⟩
      obtain ⟨b1, hsel, ho, hc1, hbase1, hst1, hv1⟩ := hb1
      have hol : b1.occ.length = b.occ.length := by rw [ho]
      rcases hcov.2 ev (by simp) with hfail | ⟨c, hev, hc⟩
      · -- a failing read: `recv` returns the error, the caller calls again
        obtain ⟨k, hfail⟩ := hfail
        subst hfail
        have hr : recv d (.fail k :: evs) b rest = (.readErr k, b1, rest, evs) := by
          unfold recv
          simp only [hp, ne_eq, not_true_eq_false, if_false, readStep, hnoom, hsel]
        cases fuel with
        | zero => simp at hfuel
        | succ n =>
          have hcovn : CoversF evs (m.length - b1.occ.length) :=
            ⟨by have := hcov.1; rw [posCount_cons_fail] at this; rw [hol]; exact this, fun e he => hcov.2 e (by simp [he])⟩
          obtain ⟨b', rest', evs', hr', hinv', hcap', hbase', hl', heq', hgrow, hpc, hsub⟩ := ih n b1 rest tail
            (by simpa using hfuel) ⟨by rw [hbase1]; exact hinv.base_al, hst1, by omega⟩ (by rw [hc1]; exact hcap)
            (by rw [ho]; exact heq) hcovn
          refine ⟨b', rest', evs', ?_, hinv', by rw [hcap', hc1], by rw [hbase', hbase1], hl', heq', by omega,
            by rw [posCount_cons_fail]; omega, fun e he => by simp [hsub e he]⟩
          simp only [recvRetry, hr]; exact hr'
      · subst hev
        have hn : min (min c (b1.cap - (b1.start + b1.occ.length))) rest.length ≠ 0 := by omega
        have hr : recv d (.deliver c :: evs) b rest = recv d evs
            { b1 with occ := b1.occ ++ rest.take (min (min c (b1.cap - (b1.start + b1.occ.length))) rest.length) }
            (rest.drop (min (min c (b1.cap - (b1.start + b1.occ.length))) rest.length)) := by
          conv => lhs; unfold recv
          simp only [hp, ne_eq, not_true_eq_false, if_false, readStep, hnoom, hsel, hn]
        have hcovn : CoversF evs (m.length - (b1.occ ++ rest.take (min (min c (b1.cap - (b1.start + b1.occ.length))) rest.length)).length) := by
          refine ⟨?_, fun e he => hcov.2 e (by simp [he])⟩
          have := hcov.1
          rw [posCount_cons_pos c hc] at this
          simp only [List.length_append, List.length_take]; omega
        obtain ⟨b', rest', evs', hr', hinv', hcap', hbase', hl', heq', hgrow, hpc, hsub⟩ := ih fuel
          { b1 with occ := b1.occ ++ rest.take (min (min c (b1.cap - (b1.start + b1.occ.length))) rest.length) }
          (rest.drop (min (min c (b1.cap - (b1.start + b1.occ.length))) rest.length)) tail
          (by simp only [List.length_cons] at hfuel; omega)
          ⟨by simpa [hbase1] using hinv.base_al, hst1, by simp only [List.length_append, List.length_take]; omega⟩
          (by simpa [hc1] using hcap)
          (by simp only [ho]; rw [List.append_assoc, List.take_append_drop]; exact heq) hcovn
        refine ⟨b', rest', evs', ?_, hinv', by simpa [hc1] using hcap', by simpa [hbase1] using hbase', hl', heq', ?_, ?_,
          fun e he => by simp [hsub e he]⟩
        · -- `recvRetry` only looks at the result of `recv`, which is the same for both scripts
          have key : ∀ n, recvRetry d n (.deliver c :: evs) b rest = recvRetry d n evs
              { b1 with occ := b1.occ ++ rest.take (min (min c (b1.cap - (b1.start + b1.occ.length))) rest.length) }
              (rest.drop (min (min c (b1.cap - (b1.start + b1.occ.length))) rest.length)) := by
            intro n; cases n <;> simp only [recvRetry, hr]
          rw [key]; exact hr'
        · simp only [List.length_append] at hgrow; omega
        · rw [posCount_cons_pos c hc]
          simp only [List.length_append, List.length_take] at hpc
          omega

/-- receive (retrying after read errors), look at the message through the guard, drop the guard; repeat -/
def recvLoopRetry (d : Dict) : Nat → List ReadEv → RBuf → Bytes → List RecvOut
  | 0, _, _, _ => []
  | n+1, evs, b, rest =>
    match (recvRetry d evs.length evs b rest).1 with
    | (.msg occ, b', rest', evs') =>
      match d.size b'.slice, dropGuard d b' with
      | .ok z, some b'' => .msg (occ.take z) :: recvLoopRetry d n evs' b'' rest'
      | _, _ => [.fault]
    | (o, _, _, _) => [o]

/-- an exhausted stream is reported as `Closed` — after any number of failing reads -/
theorem recvRetry_closed (d : Dict) (hmin : 0 < d.minSize) :
    ∀ (evs : List ReadEv) (fuel : Nat) (b : RBuf), evs.length ≤ fuel → RInv d b → 0 < b.cap → b.occ = [] → CoversF evs 1 →
      (recvRetry d fuel evs b []).1.1 = .closed := by
  intro evs
  induction evs with
  | nil => intro fuel b _ _ _ _ hcov; have := hcov.1; simp [posCount] at this
  | cons ev evs ih =>
    intro fuel b hfuel hinv hcap ho hcov
    have hshort : Insuff (d.validate b.slice) := by
      apply validate_short hinv.slice_al
      simp [RBuf.slice, Slice.len, ho]; exact hmin
    obtain ⟨p, hp⟩ := hshort
    have hw := hinv.within
    have hnoom : ¬ (b.start + b.occ.length = b.cap ∧ b.start = 0) := by simp [ho]; omega
    rcases hcov.2 ev (by simp) with hfail | ⟨c, hev, hc⟩
    · obtain ⟨k, hfail⟩ := hfail
      subst hfail
      have hr : recv d (.fail k :: evs) b [] = (.readErr k, compactB b, [], evs) := by
        unfold recv compactB
        simp only [hp, ne_eq, not_true_eq_false, if_false, readStep, hnoom]
      cases fuel with
      | zero => simp at hfuel
      | succ n =>
        have hb1 : (compactB b).occ = [] := by unfold compactB; split <;> simp [ho]
        have hinv1 : RInv d (compactB b) := by
          unfold compactB
          split
          · exact ⟨hinv.base_al, Nat.zero_mod _, by simp [ho]⟩
          · exact hinv
        have := ih n (compactB b) (by simpa using hfuel) hinv1 (by unfold compactB; split <;> exact hcap) hb1
          ⟨by have := hcov.1; rw [posCount_cons_fail] at this; exact this, fun e he => hcov.2 e (by simp [he])⟩
        simp only [recvRetry, hr]; exact this
    · subst hev
      have hr : (recv d (.deliver c :: evs) b []).1 = .closed := by
        unfold recv
        simp [hp, readStep, hnoom]
      rw [recvRetry_of_not_readErr d fuel _ b [] (by rw [hr]; simp)]
      exact hr

/-- **C09 (c) / C07 with transient read errors.** Whatever the read sizes and wherever read errors occur — the caller calls `recv`
again after each — the receiver yields exactly the sent messages, each once, in order, then `Closed`; no fault, no `OutOfMemory`. -/
theorem recv_delivers_retry (d : Dict) (hmin : 0 < d.minSize) :
    ∀ (msgs : List Bytes) (evs : List ReadEv) (b : RBuf) (rest : Bytes),
      (∀ m ∈ msgs, IsMsg d m ∧ 2 * m.length ≤ b.cap) → 0 < b.cap → RInv d b →
      b.occ ++ rest = flat msgs → CoversF evs ((flat msgs).length - b.occ.length + 1) →
      recvLoopRetry d (msgs.length + 1) evs b rest = msgs.map .msg ++ [.closed] := by
  intro msgs
  induction msgs with
  | nil =>
    intro evs b rest _ hcap hinv heq hcov
    simp only [flat, List.foldr_nil, List.append_eq_nil_iff] at heq
    obtain ⟨ho, hr⟩ := heq
    subst hr
    have hc := recvRetry_closed d hmin evs evs.length b (Nat.le_refl _) hinv hcap ho
      ⟨by have := hcov.1; simp only [flat, List.foldr_nil, List.length_nil] at this; omega, hcov.2⟩
    simp only [recvLoopRetry, List.length_nil, Nat.zero_add, List.map_nil, List.nil_append]
    cases hres : (recvRetry d evs.length evs b []).1 with
    | mk o r =>
      rw [hres] at hc
      simp only at hc
      subst hc
      rfl
  | cons m ms ih =>
    intro evs b rest hms hcap hinv heq hcov
    obtain ⟨hm, hmcap⟩ := hms m (by simp)
    rw [flat_cons] at heq
    obtain ⟨b', rest', evs', hr, hinv', hcap', hbase', hl', heq', hgrow, hpc, hsub⟩ := recv_head_retry d m hm evs evs.length b rest (flat ms)
      (Nat.le_refl _) hinv hmcap heq
      ⟨by have := hcov.1; simp only [flat_cons, List.length_append] at this; omega, hcov.2⟩
    obtain ⟨h1, h2⟩ := take_append_of_le heq' hl'
    have hsz := (hm.whole b'.slice.addr (b'.occ.drop m.length) hinv'.slice_al).2
    have hs : b'.slice = ⟨b'.slice.addr, m ++ b'.occ.drop m.length⟩ := by
      simp only [RBuf.slice, Slice.mk.injEq, true_and]; exact h1
    rw [← hs] at hsz
    have htake : b'.occ.take m.length = m := by rw [h1]; simp
    have hlenflat : (b'.occ.drop m.length).length + rest'.length = (flat ms).length := by
      rw [← h2]; simp
    have hlen0 : b.occ.length + rest.length = m.length + (flat ms).length := by
      have : (b.occ ++ rest).length = (m ++ flat ms).length := by rw [heq]
      simpa using this
    have hlen1 : b'.occ.length + rest'.length = m.length + (flat ms).length := by
      have : (b'.occ ++ rest').length = (m ++ flat ms).length := by rw [heq']
      simpa using this
    have hcov' : ∀ n, n ≤ (flat ms).length - (b'.occ.length - m.length) + 1 → CoversF evs' n := by
      intro n hn
      refine ⟨?_, fun e he => hcov.2 e (hsub e he)⟩
      have := hcov.1
      simp only [flat_cons, List.length_append] at this
      omega
    simp only [recvLoopRetry, hr, hsz, dropGuard, hl', if_true, List.map_cons, List.cons_append, htake]
    congr 1
    split
    · rename_i hemp
      have hd0 : b'.occ.drop m.length = [] := by simpa using hemp
      have hd1 : b'.occ.length ≤ m.length := List.drop_eq_nil_iff.1 hd0
      rw [hd0] at h2 hlenflat
      apply ih
      · intro x hx; simpa [hcap'] using hms x (by simp [hx])
      · simpa [hcap'] using hcap
      · exact ⟨hinv'.base_al, Nat.zero_mod _, by simp only [List.length_nil]; omega⟩
      · simpa using h2
      · apply hcov'
        simp only [List.length_nil]; omega
    · apply ih
      · intro x hx; simpa [hcap'] using hms x (by simp [hx])
      · simpa [hcap'] using hcap
      · refine ⟨hinv'.base_al, add_mod_zero hinv'.start_al hm.mult, ?_⟩
        have := hinv'.within
        simp only [List.length_drop]; omega
      · exact h2
      · apply hcov'
        simp only [List.length_drop]; omega
end FV
