import FV.EmplaceContent
/-! Emplace content, FlexVec: the chain built by `flex::FromIterator` reads back as the contents of the items, in order. -/
namespace FV

/-- the items of the chain starting at `data` read (capacities aside) as `cs` -/
def FlexReads (d : Dict) (l : LenTy) (os : Nat) (data : Slice) (cs : List Val) : Prop :=
  ∃ fw vs, walkFlex d l os fw data = .ok vs ∧ stripL vs = cs

theorem walkFlex_fuel (d : Dict) (l : LenTy) (os : Nat) :
    ∀ (fw : Nat) (data : Slice) (vs : List Val), walkFlex d l os fw data = .ok vs → ∀ F, data.len < F → walkFlex d l os F data = .ok vs := by
  intro fw
  induction fw with
  | zero => intro data vs h; simp [walkFlex] at h
  | succ fw ih =>
    intro data vs h F hF
    cases F with
    | zero => omega
    | succ F =>
      simp only [walkFlex] at h ⊢
      cases hr : l.readU data with
      | ok next =>
        simp only [hr, Res.bind_ok] at h ⊢
        by_cases h0 : next = 0
        · simp only [h0, if_true] at h ⊢; exact h
        · simp only [h0, if_false] at h ⊢
          by_cases hm : next = l.max
          · simp only [hm, if_true] at h ⊢; exact h
          · simp only [hm, if_false] at h ⊢
            simp only [Slice.splitAt] at h ⊢
            by_cases h1 : next ≤ data.len
            · simp only [h1, if_true] at h ⊢
              by_cases h2 : os ≤ (data.take next).len
              · simp only [h2, if_true] at h ⊢
                cases hw : d.walk ((data.take next).drop os) with
                | ok v =>
                  simp only [hw, Res.bind_ok] at h ⊢
                  cases hrest : walkFlex d l os fw (data.drop next) with
                  | ok ws =>
                    rw [hrest] at h
                    rw [ih (data.drop next) ws hrest F (by simp only [Slice.len_drop]; omega)]
                    exact h
                  | err e => rw [hrest] at h; cases h
                  | fault f => rw [hrest] at h; cases h
                | err e => rw [hw] at h; cases h
                | fault f => rw [hw] at h; cases h
              · simp only [h2, if_false] at h; cases h
            · simp only [h1, if_false] at h; cases h
      | err e => rw [hr] at h; cases h
      | fault f => rw [hr] at h; cases h

theorem FlexReads.final {d : Dict} {l : LenTy} {os : Nat} {data : Slice} {cs : List Val} (h : FlexReads d l os data cs) :
    ∃ vs, walkFlex d l os (data.len + 1) data = .ok vs ∧ stripL vs = cs := by
  obtain ⟨fw, vs, h1, h2⟩ := h
  exact ⟨vs, walkFlex_fuel d l os fw data vs h1 _ (Nat.lt_succ_self _), h2⟩

theorem FlexReads.term {d : Dict} {l : LenTy} {os : Nat} {data : Slice} (hr : l.readU data = .ok 0) : FlexReads d l os data [] :=
  ⟨1, [], by simp [walkFlex, hr], rfl⟩

theorem FlexReads.last {d : Dict} {l : LenTy} {os : Nat} {data : Slice} {c : Val} (hr : l.readU data = .ok l.max) (hn : l.max ≠ 0)
    (h2 : os ≤ data.len) (hc : (d.walk (data.drop os)).map Val.strip = .ok c) : FlexReads d l os data [c] := by
  cases hw : d.walk (data.drop os) with
  | ok w =>
    rw [hw] at hc; simp only [Res.map_ok, Res.ok.injEq] at hc
    exact ⟨1, [w], by simp [walkFlex, hr, hn, Slice.splitAt, h2, hw], by simp [stripL, hc]⟩
  | err e => rw [hw] at hc; cases hc
  | fault f => rw [hw] at hc; cases hc

theorem FlexReads.item {d : Dict} {l : LenTy} {os : Nat} {data : Slice} {c : Val} {cs : List Val} (next : Nat)
    (hr : l.readU data = .ok next) (hn : next ≠ 0) (hmax : next ≠ l.max) (h1 : os ≤ next) (h2 : next ≤ data.len)
    (hc : (d.walk ((data.take next).drop os)).map Val.strip = .ok c) (hrest : FlexReads d l os (data.drop next) cs) :
    FlexReads d l os data (c :: cs) := by
  obtain ⟨fw, vs, hv, hs⟩ := hrest
  cases hw : d.walk ((data.take next).drop os) with
  | ok w =>
    rw [hw] at hc; simp only [Res.map_ok, Res.ok.injEq] at hc
    have h3 : os ≤ (data.take next).len := by simp only [Slice.len_take]; omega
    exact ⟨fw + 1, w :: vs, by simp [walkFlex, hr, hn, hmax, Slice.splitAt, h2, h1, hw, hv], by simp [stripL, hc, hs]⟩
  | err e => rw [hw] at hc; cases hc
  | fault f => rw [hw] at hc; cases hc

/-- content side of `Settled`: the items before slot `q` read as `pre`, the item at `q` as `cq` -/
structure SettledC (d : Dict) (l : LenTy) (base q pos : Nat) (whole : Bytes) (pre : List Val) (cq : Val) : Prop where
  chainC : ∀ (whole' : Bytes) (tail : List Val), whole'.length = whole.length → whole'.take q = whole.take q →
      FlexReads d l (max l.size d.align) ⟨base + q, whole'.drop q⟩ tail → FlexReads d l (max l.size d.align) ⟨base, whole'⟩ (pre ++ tail)
  itemC : (d.walk (((⟨base + q, whole.drop q⟩ : Slice).take (pos - q)).drop (max l.size d.align))).map Val.strip = .ok cq

def FillInvC (d : Dict) (l : LenTy) (base pos : Nat) (lastSlot : Option Nat) (whole : Bytes) (cs : List Val) : Prop :=
  match lastSlot with
  | none => cs = []
  | some q => ∃ pre cq, cs = pre ++ [cq] ∧ SettledC d l base q pos whole pre cq

section
variable (d : Dict) (l : LenTy) (hd : Law d) (hfd : FrameLaw d) (hwd : WalkLaw d) (hl : l.Law) (base : Nat)
  (hbase : base % max l.align d.align = 0)
include hd hfd hwd hl hbase

/-- closing the chain, content side -/
theorem flexFinish_content (pos : Nat) (lastSlot : Option Nat) (whole b b' : Bytes) (res : Except Err Unit) (cs : List Val)
    (hinv : FillInv d l base pos lastSlot whole) (hinvC : FillInvC d l base pos lastSlot whole cs)
    (hbl : b.length = whole.length) (hbp : b.take pos = whole.take pos)
    (hposle : pos ≤ whole.length) (hN : max l.size d.align ≤ whole.length)
    (hfin : flexFinish l lastSlot res b = .ok ⟨b', res⟩) :
    FlexReads d l (max l.size d.align) ⟨base, b'⟩ cs := by
  have hls : l.size ≤ max l.size d.align := Nat.le_max_left _ _
  have hpa := hd.align_pow2
  cases lastSlot with
  | none =>
    have hcs : cs = [] := hinvC
    subst hcs
    simp only [flexFinish] at hfin
    cases hw : writeAt b 0 (encLenTy l 0) with
    | ok b'' =>
      rw [hw, Res.bind_ok] at hfin
      simp only [Res.ok.injEq, EO.mk.injEq, and_true] at hfin
      subst hfin
      have hread := writeAt_read hw
      simp only [List.drop_zero, encLenTy_length] at hread
      exact FlexReads.term (readU_of_take l ⟨base, b''⟩ 0 (Nat.pow_pos (by decide))
        (mod_trans hbase (Pow2.max_mod_left hl.align_pow2 hpa)) hread)
    | err e => rw [hw] at hfin; cases hfin
    | fault f => rw [hw] at hfin; cases hfin
  | some q =>
    have hs : Settled d l base q pos whole := hinv
    obtain ⟨pre, cq, hcs, hsC⟩ := hinvC
    subst hcs
    have hroom := hs.room
    have hsmall := hs.small
    have hospos : 0 < max l.size d.align := Nat.lt_of_lt_of_le hl.size_pow2.pos hls
    simp only [flexFinish] at hfin
    cases hw : writeAt b q (encLenTy l l.max) with
    | ok b'' =>
      rw [hw, Res.bind_ok] at hfin
      simp only [Res.ok.injEq, EO.mk.injEq, and_true] at hfin
      subst hfin
      have hb'l := writeAt_length hw
      have hqal : (base + q) % max l.align d.align = 0 := add_mod_zero hbase hs.qal
      apply hsC.chainC b'' [cq] (by omega)
      · have := writeAt_frame hw 0 q (Or.inl (by omega))
        simp only [List.drop_zero] at this
        rw [this]; exact take_take_eq hbp (by omega)
      · have hread := writeAt_read hw
        rw [encLenTy_length] at hread
        obtain ⟨hia, himin, hiv⟩ := validate_ok_iff.1 hs.item
        obtain ⟨z, hz, hzle, _, hzmin⟩ := hfd.size_ok _ hia himin hiv
        simp only [Slice.len, Slice.take, Slice.drop, List.length_drop, List.length_take] at hzle himin
        have hloc := walk_loc d hfd hwd _ z hia (by simpa [Slice.len, Slice.take, Slice.drop] using himin) hiv hz
          ⟨base + q + max l.size d.align, b''.drop (q + max l.size d.align)⟩ rfl
          (by simp only [Slice.len, List.length_drop]; omega)
          (by
            show (b''.drop (q + max l.size d.align)).take z = (((whole.drop q).take (pos - q)).drop (max l.size d.align)).take z
            rw [writeAt_frame hw _ _ (Or.inr (by rw [encLenTy_length]; omega)), take_drop_take_eq _ _ _ _ (by omega),
              List.drop_drop]
            exact drop_take_eq hbp (by omega))
        apply FlexReads.last (readU_of_take l ⟨base + q, b''.drop q⟩ l.max (lmax_lt l)
          (mod_trans hqal (Pow2.max_mod_left hl.align_pow2 hpa)) hread) (by omega)
          (by simp only [Slice.len, List.length_drop]; omega)
        show (d.walk ⟨base + q + max l.size d.align, (b''.drop q).drop (max l.size d.align)⟩).map Val.strip = .ok cq
        rw [List.drop_drop, hloc]
        exact hsC.itemC
    | err e => rw [hw] at hfin; cases hfin
    | fault f => rw [hw] at hfin; cases hfin

/-- a freshly written item becomes the settled last item, content side -/
theorem settled_newC (pos : Nat) (lastSlot : Option Nat) (whole b2 : Bytes) (off : Nat) (cs : List Val) (cnew : Val)
    (hinv : FillInv d l base pos lastSlot whole) (hinvC : FillInvC d l base pos lastSlot whole cs)
    (hbl : b2.length = whole.length) (hbp : b2.take pos = whole.take pos) (hfit : pos + off ≤ whole.length)
    (hitemC : (d.walk (((⟨base + pos, b2.drop pos⟩ : Slice).take off).drop (max l.size d.align))).map Val.strip = .ok cnew) :
    SettledC d l base pos (pos + off) b2 cs cnew := by
  have hls : l.size ≤ max l.size d.align := Nat.le_max_left _ _
  have e1 : pos + off - pos = off := by omega
  refine ⟨?_, by rw [e1]; exact hitemC⟩
  intro whole' tail hlen htake hok
  cases lastSlot with
  | none =>
    have hp : pos = 0 := hinv
    have hcs : cs = [] := hinvC
    subst hp hcs
    simpa using hok
  | some q =>
    have hs : Settled d l base q pos whole := hinv
    obtain ⟨pre, cq, hcs, hsC⟩ := hinvC
    subst hcs
    have hroom := hs.room
    have hsmall := hs.small
    have hospos : 0 < max l.size d.align := Nat.lt_of_lt_of_le hl.size_pow2.pos hls
    have htake' : whole'.take pos = whole.take pos := by rw [htake, hbp]
    have hbytes : (whole'.drop q).take (pos - q) = (whole.drop q).take (pos - q) := drop_take_eq htake' (by omega)
    have := hsC.chainC whole' (cq :: tail) (by omega) (take_take_eq htake' (by omega))
      (by
        apply FlexReads.item (pos - q)
        · rw [← hs.slot]
          exact readU_congr l ⟨base + q, whole.drop q⟩ ⟨base + q, whole'.drop q⟩ rfl (by simp only [Slice.len, List.length_drop]; omega)
            (by simp only [Slice.len, List.length_drop]; omega) (drop_take_eq htake' (by omega))
        · omega
        · omega
        · omega
        · simp only [Slice.len, List.length_drop]; omega
        · have := hsC.itemC
          simp only [Slice.take, Slice.drop] at this ⊢
          rw [hbytes]; exact this
        · have e2 : q + (pos - q) = pos := by omega
          simp only [Slice.drop, List.drop_drop, e2, Nat.add_assoc]
          exact hok)
    simpa [List.append_assoc] using this
end

theorem flexFinish_res {l : LenTy} {ls : Option Nat} {res : Except Err Unit} {b : Bytes} {o : EO}
    (h : flexFinish l ls res b = .ok o) : o.res = res := by
  cases ls with
  | none =>
    simp only [flexFinish] at h
    cases hw : writeAt b 0 (encLenTy l 0) with
    | ok b' => rw [hw, Res.bind_ok] at h; cases h; rfl
    | err e => rw [hw] at h; cases h
    | fault f => rw [hw] at h; cases h
  | some q =>
    simp only [flexFinish] at h
    cases hw : writeAt b q (encLenTy l l.max) with
    | ok b' => rw [hw, Res.bind_ok] at h; cases h; rfl
    | err e => rw [hw] at h; cases h
    | fault f => rw [hw] at h; cases h

/-- **`flex::FromIterator`, content**: when the fill reports `Ok`, the chain reads back as the already settled items followed
by what each remaining initialiser specifies, in order. -/
theorem flexFill_content (it : Ty) (hwf : it.WF) (l : LenTy) (hl : l.Law) (base : Nat)
    (hbase : base % max l.align it.dict.align = 0) (N : Nat) (hNal : N % max l.align it.dict.align = 0)
    (hN : max l.size it.dict.align ≤ N) :
    ∀ (items : List Init), (∀ i ∈ items, EmpSpecC it i) → ∀ (pos : Nat) (lastSlot : Option Nat) (whole : Bytes) (cs : List Val),
      whole.length = N → pos % max l.align it.dict.align = 0 → pos ≤ N → FillInv it.dict l base pos lastSlot whole →
      FillInvC it.dict l base pos lastSlot whole cs →
      ∀ o, flexFill it l items pos lastSlot whole base = .ok o → o.res = .ok () →
        ∃ specs, specItemsV it items = .ok specs ∧ FlexReads it.dict l (max l.size it.dict.align) ⟨base, o.bytes⟩ (cs ++ specs) := by
  have hd := Ty.law it hwf
  have hfd := Ty.frameLaw it hwf
  have hwd := Ty.walkLaw it hwf
  have hls : l.size ≤ max l.size it.dict.align := Nat.le_max_left _ _
  have hpa := hd.align_pow2
  have hapos := (Pow2.of_max hl.align_pow2 hpa).pos
  have hosal := dataOffset_mod l hl it.dict.align hpa
  intro items
  induction items with
  | nil =>
    intro _ pos lastSlot whole cs hwl hposal hposle hinv hinvC o ho hres
    rw [flexFill_nil] at ho
    obtain ⟨b', hb', _, _⟩ := flexFinish_spec it.dict l hd hfd hl base hbase pos lastSlot whole whole (.ok ()) hinv rfl rfl (by omega) (by omega)
    rw [hb'] at ho; cases ho
    refine ⟨[], rfl, ?_⟩
    rw [List.append_nil]
    exact flexFinish_content it.dict l hd hfd hwd hl base hbase pos lastSlot whole whole b' (.ok ()) cs hinv hinvC rfl rfl (by omega) (by omega) hb'
  | cons i is ih =>
    intro hrec pos lastSlot whole cs hwl hposal hposle hinv hinvC o ho hres
    rw [flexFill_cons] at ho
    by_cases hsmall : whole.length - pos < max l.size it.dict.align
    · simp only [hsmall, if_true] at ho
      have := flexFinish_res ho; rw [hres] at this; cases this
    · simp only [hsmall, if_false] at ho
      cases hck : checkAlignMin it.dict.align it.dict.minSize ⟨base + pos + max l.size it.dict.align, whole.drop (pos + max l.size it.dict.align)⟩ with
      | fault f => simp only [hck] at ho; cases ho
      | err e => simp only [hck] at ho; have := flexFinish_res ho; rw [hres] at this; cases this
      | ok u =>
        simp only [hck] at ho
        obtain ⟨hpal, hpmin⟩ := checkAlignMin_ok.1 hck
        obtain ⟨oi, hoi, hoki, hci⟩ := hrec i (by simp) _ hpal hpmin
        simp only [hoi, Res.bind_ok] at ho
        have hol : oi.bytes.length = N - (pos + max l.size it.dict.align) := by
          have := hoki.len; simpa [Slice.len, hwl] using this
        have hb1l : (whole.take (pos + max l.size it.dict.align) ++ oi.bytes).length = whole.length := by
          simp only [List.length_append, List.length_take, hol]; omega
        have hb1p : (whole.take (pos + max l.size it.dict.align) ++ oi.bytes).take pos = whole.take pos := by
          rw [List.take_append_of_le_length (by simp only [List.length_take]; omega), List.take_take, Nat.min_eq_left (by omega)]
        cases hresi : oi.res with
        | error e => simp only [hresi] at ho; have := flexFinish_res ho; rw [hres] at this; cases this
        | ok u =>
          simp only [hresi] at ho
          have hv := hoki.valid hresi
          obtain ⟨ci, hspeci, hwalki⟩ := spec_ok_of_content it hwf i _ oi hpal hpmin hoki hci hresi
          simp only [Slice.len, List.length_drop] at hpmin
          obtain ⟨z, hz, hzle, hzal, hzmin⟩ := hfd.size_ok ⟨base + pos + max l.size it.dict.align, oi.bytes⟩ hpal (by simp only [Slice.len, hol]; omega) hv
          have hz' : it.dict.size ⟨base + pos + max l.size it.dict.align, oi.bytes⟩ = .ok z := hz
          simp only [Slice.len] at hzle
          simp only [hz', Res.bind_ok] at ho
          by_cases hlt : max l.size it.dict.align + ceilMul z (max l.align it.dict.align) < l.max
          · simp only [hlt, if_true] at ho
            obtain ⟨b2, hb2, hb2l⟩ := writeAt_ok (bs := whole.take (pos + max l.size it.dict.align) ++ oi.bytes)
              (x := encLenTy l (max l.size it.dict.align + ceilMul z (max l.align it.dict.align))) (off := pos)
              (by rw [encLenTy_length, hb1l]; omega)
            simp only [hb2, Res.bind_ok] at ho
            have hposos : (pos + max l.size it.dict.align) % max l.align it.dict.align = 0 := add_mod_zero hposal hosal
            have hrem : (N - (pos + max l.size it.dict.align)) % max l.align it.dict.align = 0 :=
              Nat.sub_mod_eq_zero_of_mod_eq (by rw [hNal, hposos])
            have hceil : ceilMul z (max l.align it.dict.align) ≤ N - (pos + max l.size it.dict.align) :=
              ceilMul_least hapos hrem (by omega)
            have hzc := le_ceilMul (x := z) hapos
            have hb2p : b2.take pos = whole.take pos := by
              have := writeAt_frame hb2 0 pos (Or.inl (by omega))
              simp only [List.drop_zero] at this
              rw [this, hb1p]
            have hread := writeAt_read hb2
            rw [encLenTy_length] at hread
            have hposa : (base + pos) % max l.align it.dict.align = 0 := add_mod_zero hbase hposal
            have hbytes : ((((b2.drop pos).take (max l.size it.dict.align + ceilMul z (max l.align it.dict.align))).drop (max l.size it.dict.align))).take z = oi.bytes.take z := by
              rw [take_drop_take_eq _ _ _ _ (by omega), List.drop_drop,
                writeAt_frame hb2 _ _ (Or.inr (by rw [encLenTy_length]; omega)),
                List.drop_left' (by simp only [List.length_take]; omega)]
            have hloc := hfd.loc ⟨base + pos + max l.size it.dict.align, oi.bytes⟩ z hpal (by simp only [Slice.len, hol]; omega) hv hz
              ⟨base + pos + max l.size it.dict.align,
                ((b2.drop pos).take (max l.size it.dict.align + ceilMul z (max l.align it.dict.align))).drop (max l.size it.dict.align)⟩ rfl
              (by simp only [Slice.len, List.length_drop, List.length_take, hb2l, hb1l]; omega) hbytes
            have hwloc := walk_loc it.dict hfd hwd ⟨base + pos + max l.size it.dict.align, oi.bytes⟩ z hpal (by simp only [Slice.len, hol]; omega) hv hz
              ⟨base + pos + max l.size it.dict.align,
                ((b2.drop pos).take (max l.size it.dict.align + ceilMul z (max l.align it.dict.align))).drop (max l.size it.dict.align)⟩ rfl
              (by simp only [Slice.len, List.length_drop, List.length_take, hb2l, hb1l]; omega) hbytes
            have hset : Settled it.dict l base pos (pos + (max l.size it.dict.align + ceilMul z (max l.align it.dict.align))) b2 := by
              apply settled_new it.dict l hd hfd hl base hbase pos lastSlot whole b2 _ hinv hposal (by omega) hb2p (by omega) hlt (by omega)
                (readU_of_take l _ _ (Nat.lt_trans hlt (lmax_lt l)) (mod_trans hposa (Pow2.max_mod_left hl.align_pow2 hpa)) hread)
              exact validate_ok_iff.2 ⟨hpal, by simp only [Slice.len, Slice.take, Slice.drop, List.length_drop, List.length_take, hb2l, hb1l]; omega, hloc.1⟩
            have hsetC : SettledC it.dict l base pos (pos + (max l.size it.dict.align + ceilMul z (max l.align it.dict.align))) b2 cs ci := by
              apply settled_newC it.dict l hd hfd hwd hl base hbase pos lastSlot whole b2 _ cs ci hinv hinvC (by omega) hb2p (by omega)
              show (it.dict.walk ⟨base + pos + max l.size it.dict.align,
                ((b2.drop pos).take (max l.size it.dict.align + ceilMul z (max l.align it.dict.align))).drop (max l.size it.dict.align)⟩).map Val.strip = .ok ci
              rw [hwloc]; exact hwalki
            obtain ⟨specs, hspecs, hreads⟩ := ih (fun j hj => hrec j (by simp [hj])) _ (some pos) b2 (cs ++ [ci]) (by omega)
              (add_mod_zero hposal (add_mod_zero hosal (ceilMul_mod _ _))) (by omega) hset ⟨cs, ci, rfl, hsetC⟩ o ho hres
            refine ⟨ci :: specs, by simp only [specItemsV, hspeci, Res.bind_ok, hspecs], ?_⟩
            simpa [List.append_assoc] using hreads
          · simp only [hlt, if_false] at ho
            have := flexFinish_res ho; rw [hres] at this; cases this

theorem content_flexIter (it : Ty) (hwf : it.WF) (l : LenTy) (hl : l.Law) (items : List Init)
    (hrec : ∀ i ∈ items, EmpSpecC it i) : EmpSpecC (.flex it l) (.flexIter items) := by
  have hd := Ty.law it hwf
  have hfd := Ty.frameLaw it hwf
  intro s hal hlen
  obtain ⟨o, ho, hok, _⟩ := emplace_flexIter_spec it hd hfd l hl items (fun i hi => (hrec i hi).spec) s hal hlen
  refine ⟨o, ho, hok, ?_⟩
  intro hres
  obtain ⟨addr, bytes⟩ := s
  simp only [Ty.dict, flexD, Slice.len] at hal hlen
  have hpa := hd.align_pow2
  have hapos := (Pow2.of_max hl.align_pow2 hpa).pos
  have hn := floorMul_greatest hapos (dataOffset_mod l hl it.dict.align hpa) hlen
  have hfl := floorMul_le bytes.length (max l.align it.dict.align)
  have hnl : (bytes.take (floorMul bytes.length (max l.align it.dict.align))).length = floorMul bytes.length (max l.align it.dict.align) := by
    simp only [List.length_take]; omega
  simp only [emplaceU, Slice.len] at ho
  cases hf : flexFill it l items 0 none (bytes.take (floorMul bytes.length (max l.align it.dict.align))) addr with
  | ok o' =>
    rw [hf, Res.bind_ok] at ho
    simp only [Res.ok.injEq] at ho
    rw [← ho] at hres ⊢
    have hres' : o'.res = .ok () := hres
    obtain ⟨o2, ho2, hol, _, _⟩ := flexFill_spec it hd hfd l hl addr hal (floorMul bytes.length (max l.align it.dict.align))
      (floorMul_mod _ _) hn items (fun i hi => (hrec i hi).spec) 0 none _ hnl (Nat.zero_mod _) (Nat.zero_le _) rfl
    rw [hf] at ho2; cases ho2
    obtain ⟨specs, hspecs, hreads⟩ := flexFill_content it hwf l hl addr hal (floorMul bytes.length (max l.align it.dict.align))
      (floorMul_mod _ _) hn items hrec 0 none _ [] hnl (Nat.zero_mod _) (Nat.zero_le _) rfl rfl o' hf hres'
    obtain ⟨fw, vs, hvs, hst⟩ := hreads
    have hlenR : (o'.bytes ++ bytes.drop (floorMul bytes.length (max l.align it.dict.align))).length = bytes.length := by
      simp only [List.length_append, List.length_drop, hol]; omega
    show ((flexD it.dict l).walk ⟨addr, o'.bytes ++ bytes.drop (floorMul bytes.length (max l.align it.dict.align))⟩).map Val.strip = _
    simp only [flexD, Slice.len, Slice.take, hlenR]
    rw [List.take_left' hol, walkFlex_fuel it.dict l _ fw ⟨addr, o'.bytes⟩ vs hvs _ (by simp only [Slice.len, hol]; omega)]
    simp only [Res.bind_ok, Res.map_ok, Val.strip, specV, hspecs, hst, List.nil_append]
  | err e => rw [hf] at ho; cases ho
  | fault f => rw [hf] at ho; cases ho

/-! ### assembled -/
mutual
/-- **Emplace, then read back (C03).** For every well-formed type and every well-typed initialiser, on every aligned slot of at
least `MIN_SIZE` bytes: the emplacer never faults, keeps the slot length, and when it reports `Ok` the bytes validate **and
their deep read is exactly the content the initialiser specifies**. -/
theorem emplaceU_content : ∀ (i : Init) (t : Ty), t.WF → InitWT t i → EmpSpecC t i
  | .raw v, t, h, hw => by
      simp only [InitWT] at hw
      intro s hal hlen
      obtain ⟨o, ho, hok⟩ := emplace_raw_spec t (Ty.law t h) (Ty.frameLaw t h) v hw s hal hlen
      exact ⟨o, ho, hok, content_raw t h v hw s hal o ho⟩
  | .vecEmpty, t, h, hw => by
      cases t <;> simp only [InitWT] at hw
      rename_i et l
      simp only [Ty.WF] at h
      obtain ⟨sz, hsz⟩ := sized_some et h.2.1
      intro s hal hlen
      obtain ⟨o, ho, hok⟩ := emplace_vecEmpty_spec et (Ty.law et h.1) sz hsz l h.2.2 s hal hlen
      exact ⟨o, ho, hok, content_vecEmpty et (Ty.law et h.1) l h.2.2 s hal hlen o ho⟩
  | .vecArr xs, t, h, hw => by
      cases t <;> simp only [InitWT] at hw
      rename_i et l
      simp only [Ty.WF] at h
      obtain ⟨sz, hsz⟩ := sized_some et h.2.1
      intro s hal hlen
      obtain ⟨o, ho, hok⟩ := emplace_vecArr_spec et (Ty.law et h.1) sz hsz l h.2.2 xs hw s hal hlen
      exact ⟨o, ho, hok, content_vecArr et h.1 sz hsz l h.2.2 xs hw s hal hlen o ho⟩
  | .vecIter xs, t, h, hw => by
      cases t <;> simp only [InitWT] at hw
      rename_i et l
      simp only [Ty.WF] at h
      obtain ⟨sz, hsz⟩ := sized_some et h.2.1
      intro s hal hlen
      obtain ⟨o, ho, hok⟩ := emplace_vecIter_spec et (Ty.law et h.1) sz hsz l h.2.2 xs hw s hal hlen
      exact ⟨o, ho, hok, content_vecIter et h.1 sz hsz l h.2.2 xs hw s hal hlen o ho⟩
  | .strEmpty, t, h, hw => by
      cases t <;> simp only [InitWT] at hw
      rename_i l
      simp only [Ty.WF] at h
      intro s hal hlen
      obtain ⟨o, ho, hok⟩ := emplace_strEmpty_spec l h s hal hlen
      exact ⟨o, ho, hok, content_strEmpty l h s hal hlen o ho⟩
  | .strFrom v, t, h, hw => by
      cases t <;> simp only [InitWT] at hw
      rename_i l
      simp only [Ty.WF] at h
      intro s hal hlen
      obtain ⟨o, ho, hok⟩ := emplace_strFrom_spec l h v hw s hal hlen
      exact ⟨o, ho, hok, content_strFrom l h v s hal hlen o ho⟩
  | .flexEmpty, t, h, hw => by
      cases t <;> simp only [InitWT] at hw
      rename_i it l
      simp only [Ty.WF] at h
      intro s hal hlen
      obtain ⟨o, ho, hok⟩ := emplace_flexEmpty_spec it (Ty.law it h.1) l h.2 s hal hlen
      exact ⟨o, ho, hok, content_flexEmpty it (Ty.law it h.1) l h.2 s hal hlen o ho⟩
  | .flexIter items, t, h, hw => by
      cases t <;> simp only [InitWT] at hw
      rename_i it l
      simp only [Ty.WF] at h
      exact content_flexIter it h.1 l h.2 items (emplaceU_contentL items it h.1 hw)
  | .ustruct vals li, t, h, hw => by
      cases t <;> simp only [InitWT] at hw
      rename_i fs last
      simp only [Ty.WF] at h
      exact content_ustruct fs last h.1 h.2.1 h.2.2.1 vals li hw.1 (emplaceU_content li last h.2.2.1 hw.2)
  | .uenum idx vals none, t, h, hw => by
      cases t <;> simp only [InitWT] at hw
      rename_i tag vs
      simp only [Ty.WF] at h
      exact content_uenum_none tag h.1 vs h.2.1 idx hw.1 hw.2.1 vals hw.2.2.1 hw.2.2.2
  | .uenum idx vals (some li), t, h, hw => by
      cases t <;> simp only [InitWT] at hw
      rename_i tag vs
      simp only [Ty.WF] at h
      obtain ⟨hidx, hrep, pre, lt, hvar, hv, hwl⟩ := hw
      have hwf := wfLL_getD vs idx h.2.1
      rw [hvar] at hwf
      exact content_uenum_some tag h.1 vs h.2.1 h.2.2 idx hidx hrep vals pre lt hvar hv li
        (emplaceU_content li lt (wfL_concat pre lt hwf).2 hwl)
theorem emplaceU_contentL : ∀ (items : List Init) (t : Ty), t.WF → InitWTL t items → ∀ i ∈ items, EmpSpecC t i
  | [], _, _, _ => by intro i hi; cases hi
  | j :: js, t, h, hw => by
      intro i hi
      simp only [InitWTL] at hw
      rcases List.mem_cons.1 hi with heq | hm
      · rw [heq]; exact emplaceU_content j t h hw.1
      · exact emplaceU_contentL js t h hw.2 i hm
end
end FV
