import FV.IoRecv
/-! Blocking sender (`io/src/blocking/io.rs` `write_all`, repaired: a write error always ends the call) over a
scripted sink. C07 (a) and C09. -/
namespace FV

/-- outcome of one `pipe.write(buf)` call: `accept n` = `Ok(n)` with `n ≥ 1` (clamped to what was offered),
`zero` = `Ok(0)`, `fail k` = `Err(e)` with `e.kind()` the `k`-th `io::ErrorKind` (the code never looks at it) -/
inductive WriteEv | accept (n : Nat) | zero | fail (k : Nat)
deriving Repr, DecidableEq

inductive SendOut | done | brokenPipe | err (k : Nat) | blocked
deriving Repr, DecidableEq

structure SendRes where
  out : SendOut
  poisoned : Bool
  sink : Bytes
  evs : List WriteEv
  used : Nat        -- pipe calls made

/-- `write_all(count)` with `msg` = the first `count` occupied bytes; `pos` bytes already accepted -/
def writeAll (msg : Bytes) : List WriteEv → Nat → Bytes → Nat → SendRes
  | evs, pos, sink, used =>
    if msg.length ≤ pos then ⟨.done, false, sink, evs, used⟩
    else match evs with
      | [] => ⟨.blocked, false, sink, [], used⟩
      | .accept n :: evs' =>
        if n = 0 then ⟨.brokenPipe, pos ≠ 0, sink, evs', used + 1⟩
        else
          let k := min n (msg.length - pos)
          writeAll msg evs' (pos + k) (sink ++ (msg.drop pos).take k) (used + 1)
      | .zero :: evs' => ⟨.brokenPipe, pos ≠ 0, sink, evs', used + 1⟩
      | .fail k :: evs' => ⟨.err k, pos ≠ 0, sink, evs', used + 1⟩

/-- invariant of a send in progress: the sink holds what it held plus the first `pos` bytes of the message -/
theorem writeAll_spec (msg : Bytes) :
    ∀ (evs : List WriteEv) (pos : Nat) (sink0 : Bytes) (used : Nat), pos ≤ msg.length →
      let r := writeAll msg evs pos (sink0 ++ msg.take pos) used
      ∃ j, pos ≤ j ∧ j ≤ msg.length ∧ r.sink = sink0 ++ msg.take j ∧
        (r.out = .done → j = msg.length ∧ r.poisoned = false) ∧
        (r.out = .brokenPipe ∨ (∃ k, r.out = .err k) → (r.poisoned = true ↔ j ≠ 0) ∧ j < msg.length) ∧
        r.used ≤ used + (j - pos) + 1 ∧
        (r.out = .blocked → r.evs = []) := by
  intro evs
  induction evs with
  | nil =>
    intro pos sink0 used hpos
    unfold writeAll
    split
    · exact ⟨pos, by omega, by omega, rfl, fun _ => ⟨by omega, rfl⟩, fun h => by simp at h, by simp, fun h => by simp at h⟩
    · exact ⟨pos, by omega, by omega, rfl, fun h => by simp at h, fun h => by simp at h, by simp, fun _ => rfl⟩
  | cons ev evs ih =>
    intro pos sink0 used hpos
    unfold writeAll
    split
    · exact ⟨pos, by omega, by omega, rfl, fun _ => ⟨by omega, rfl⟩, fun h => by simp at h, by simp, fun h => by simp at h⟩
    · rename_i hlt
      cases ev with
      | zero =>
        exact ⟨pos, by omega, by omega, rfl, fun h => by simp at h, fun _ => ⟨by simp, by omega⟩, by simp, fun h => by simp at h⟩
      | fail k =>
        exact ⟨pos, by omega, by omega, rfl, fun h => by simp at h, fun _ => ⟨by simp, by omega⟩, by simp, fun h => by simp at h⟩
      | accept n =>
        simp only
        split
        · exact ⟨pos, by omega, by omega, rfl, fun h => by simp at h, fun _ => ⟨by simp, by omega⟩, by simp, fun h => by simp at h⟩
        · rename_i hn
          have hk : 0 < min n (msg.length - pos) := by omega
          have hsink : sink0 ++ msg.take pos ++ (msg.drop pos).take (min n (msg.length - pos))
              = sink0 ++ msg.take (pos + min n (msg.length - pos)) := by
            rw [List.append_assoc]; congr 1
            rw [List.take_add]
          rw [hsink]
          obtain ⟨j, hj1, hj2, hs, hd, hf, hu, hb⟩ := ih (pos + min n (msg.length - pos)) sink0 (used + 1) (by omega)
          exact ⟨j, by omega, hj2, hs, hd, hf, by omega, hb⟩

/-- **C07 (a).** Whatever the partial write sizes the sink accepts, a send hands over exactly the message bytes. -/
theorem send_delivers (msg : Bytes) (evs : List WriteEv) (sink0 : Bytes)
    (hall : ∀ ev ∈ evs, ∃ n, ev = .accept n ∧ 0 < n) (hlen : msg.length ≤ evs.length) :
    (writeAll msg evs 0 sink0 0).out = .done ∧ (writeAll msg evs 0 sink0 0).sink = sink0 ++ msg ∧
      (writeAll msg evs 0 sink0 0).poisoned = false := by
  have key : ∀ (evs : List WriteEv) (pos : Nat) (sink : Bytes) (used : Nat), pos ≤ msg.length →
      (∀ ev ∈ evs, ∃ n, ev = .accept n ∧ 0 < n) → msg.length - pos ≤ evs.length →
      (writeAll msg evs pos sink used).out = .done := by
    intro evs
    induction evs with
    | nil => intro pos sink used hp _ hl; unfold writeAll; simp at hl; simp [show msg.length ≤ pos by omega]
    | cons ev evs ih =>
      intro pos sink used hp hall hl
      unfold writeAll
      split
      · rfl
      · obtain ⟨n, rfl, hn⟩ := hall ev (by simp)
        have : n ≠ 0 := by omega
        simp only [this, if_false]
        apply ih _ _ _ (by omega) (fun e he => hall e (by simp [he]))
        simp at hl; omega
  have hdone := key evs 0 sink0 0 (by omega) hall (by omega)
  have := writeAll_spec msg evs 0 sink0 0 (by omega)
  simp only [List.take_zero, List.append_nil] at this
  obtain ⟨j, _, _, hs, hd, _, _, _⟩ := this
  obtain ⟨hj, hp⟩ := hd hdone
  subst hj
  exact ⟨hdone, by simpa using hs, hp⟩

/-- **C09 (a, b) for one send.** A failing outcome (`Ok(0)` or `Err`) at any position ends the call: the number of
pipe calls is at most the bytes accepted plus one; the sink has gained a (possibly empty) proper prefix of the message;
the buffer is poisoned exactly when that prefix is non-empty. -/
theorem C09_send_fault (msg : Bytes) (evs : List WriteEv) (sink0 : Bytes) :
    let r := writeAll msg evs 0 sink0 0
    ∃ j, j ≤ msg.length ∧ r.sink = sink0 ++ msg.take j ∧ r.used ≤ j + 1 ∧
      (r.out = .done → j = msg.length) ∧
      (r.out = .brokenPipe ∨ (∃ k, r.out = .err k) → j < msg.length ∧ (r.poisoned = true ↔ j ≠ 0)) := by
  have := writeAll_spec msg evs 0 sink0 0 (by omega)
  simp only [List.take_zero, List.append_nil] at this
  obtain ⟨j, _, hj, hs, hd, hf, hu, _⟩ := this
  exact ⟨j, hj, hs, by omega, fun h => (hd h).1, fun h => ⟨(hf h).2, (hf h).1⟩⟩
end FV
#print axioms FV.send_delivers
#print axioms FV.C09_send_fault
