import FV.EmplaceAccFlex
/-! Acceptance pass, assembled: for every well-formed type and every well-typed initialiser, the emplacer succeeds exactly
when the content is representable and its specified size fits the slot; on success `size()` is the specified size. -/
namespace FV

theorem sizeItems_mod (it : Ty) (l : LenTy) (hl : l.Law) (hpa : Pow2 it.dict.align) :
    ∀ items : List Init, sizeItems it l items % max l.align it.dict.align = 0 := by
  intro items
  induction items with
  | nil => simp [sizeItems]
  | cons i is ih =>
    simp only [sizeItems]
    exact add_mod_zero (add_mod_zero (dataOffset_mod l hl it.dict.align hpa) (ceilMul_mod _ _)) ih

theorem acc_flexIter (it : Ty) (hd : Law it.dict) (hfd : FrameLaw it.dict) (l : LenTy) (hl : l.Law)
    (items : List Init) (hrec : ∀ i ∈ items, ItemAcc it i) : EmpAcc (.flex it l) (.flexIter items) := by
  intro s hal hlen o ho
  obtain ⟨addr, bytes⟩ := s
  simp only [Ty.dict, flexD, Slice.len] at hal hlen
  have hpa := hd.align_pow2
  have hapos := (Pow2.of_max hl.align_pow2 hpa).pos
  have hn := floorMul_greatest hapos (dataOffset_mod l hl it.dict.align hpa) hlen
  have hfl := floorMul_le bytes.length (max l.align it.dict.align)
  have hnl : (bytes.take (floorMul bytes.length (max l.align it.dict.align))).length = floorMul bytes.length (max l.align it.dict.align) := by
    simp only [List.length_take]; omega
  obtain ⟨o1, ho1, hol, _, _⟩ := flexFill_spec it hd hfd l hl addr hal (floorMul bytes.length (max l.align it.dict.align))
    (floorMul_mod _ _) hn items (fun i hi => (hrec i hi).spec) 0 none _ hnl (Nat.zero_mod _) (Nat.zero_le _) rfl
  obtain ⟨hiff, hsize⟩ := flexFill_acc it hd hfd l hl addr hal (floorMul bytes.length (max l.align it.dict.align))
    (floorMul_mod _ _) hn items hrec 0 none _ hnl (Nat.zero_mod _) (Nat.zero_le _) rfl o1 ho1
  simp only [emplaceU, Slice.len, ho1, Res.bind_ok, Res.ok.injEq] at ho
  subst ho
  simp only [Nat.zero_add] at hiff hsize
  have hsm := sizeItems_mod it l hl hpa items
  have hkey : sizeItems it l items ≤ floorMul bytes.length (max l.align it.dict.align) ↔ sizeItems it l items ≤ bytes.length := by
    constructor
    · intro h; omega
    · intro h; exact floorMul_greatest hapos hsm h
  have hspec : sizeSpec (.flex it l) (.flexIter items) = fillEnd (max l.size it.dict.align) (sizeItems it l items) none items := by
    cases items <;> simp [sizeSpec, fillEnd]
  refine ⟨?_, fun hres => ?_⟩
  · show o1.res = .ok () ↔ _
    rw [hiff, hkey]
    simp only [Rep, Slice.len]
    cases items with
    | nil => simp only [sizeSpec, sizeItems, RepL, true_and]; constructor <;> intro _ <;> omega
    | cons i is => simp only [sizeSpec]
  · have hlenR : (o1.bytes ++ bytes.drop (floorMul bytes.length (max l.align it.dict.align))).length = bytes.length := by
      simp only [List.length_append, List.length_drop, hol]; omega
    show (flexD it.dict l).size ⟨addr, o1.bytes ++ bytes.drop _⟩ = _
    simp only [flexD, Slice.len, Slice.take, hlenR]
    rw [List.take_left' hol, hspec]
    exact hsize hres _ (by omega)

theorem minSize_uenum_le (tag : LenTy) (dvs : List (List Dict)) (idx : Nat) (hidx : idx < dvs.length) (x : Nat)
    (hx : varMinSize (dvs.getD idx []) ≤ x) :
    (uenumD tag dvs).minSize ≤ ceilMul (ceilMul tag.size (max tag.align (alignLL dvs)) + x) (max tag.align (alignLL dvs)) := by
  simp only [uenumD]
  apply ceilMul_mono
  have := minList_le_mem (dvs.map varMinSize) _ (List.mem_map.2 ⟨_, getD_mem dvs idx [] hidx, rfl⟩)
  omega

mutual
/-- **Acceptance is exact, and the size is the specified size, for every emplacer.** For every well-formed type and every
well-typed initialiser, on every slot that is aligned and at least `MIN_SIZE` long: `emplace_unchecked` returns `Ok` **iff** the
content is representable (`Rep`) and its specified size (`sizeSpec`) is at most the slot length; and then `size()` of the result
is `sizeSpec`. The specified size is never below `MIN_SIZE`. -/
theorem emplaceU_acc : ∀ (i : Init) (t : Ty), t.WF → InitWT t i → EmpAcc t i ∧ t.dict.minSize ≤ sizeSpec t i
  | .raw v, t, h, hw => by
      simp only [InitWT] at hw
      refine ⟨acc_raw t (Ty.law t h) (Ty.frameLaw t h) v hw, ?_⟩
      obtain ⟨sz, hsz, _, _⟩ := hw
      have := (Ty.law t h).sized_min sz hsz
      have hss : t.dict.ssize = sz := by simp [Dict.ssize, hsz]
      have hspec : sizeSpec t (.raw v) = sz := by cases t <;> simp only [sizeSpec, hss]
      omega
  | .vecEmpty, t, h, hw => by
      cases t <;> simp only [InitWT] at hw
      rename_i et l
      simp only [Ty.WF] at h
      refine ⟨acc_vecEmpty et (Ty.law et h.1) l h.2.2, ?_⟩
      simp only [Ty.dict, vecD, sizeSpec]
      have := le_ceilMul (x := max l.size et.dict.align + et.dict.ssize * 0) (Pow2.of_max h.2.2.align_pow2 (Ty.law et h.1).align_pow2).pos
      omega
  | .vecArr xs, t, h, hw => by
      cases t <;> simp only [InitWT] at hw
      rename_i et l
      simp only [Ty.WF] at h
      refine ⟨acc_vecArr et (Ty.law et h.1) l h.2.2 xs, ?_⟩
      simp only [Ty.dict, vecD, sizeSpec]
      have := le_ceilMul (x := max l.size et.dict.align + et.dict.ssize * xs.length) (Pow2.of_max h.2.2.align_pow2 (Ty.law et h.1).align_pow2).pos
      omega
  | .vecIter xs, t, h, hw => by
      cases t <;> simp only [InitWT] at hw
      rename_i et l
      simp only [Ty.WF] at h
      refine ⟨acc_vecIter et (Ty.law et h.1) l h.2.2 xs, ?_⟩
      simp only [Ty.dict, vecD, sizeSpec]
      have := le_ceilMul (x := max l.size et.dict.align + et.dict.ssize * xs.length) (Pow2.of_max h.2.2.align_pow2 (Ty.law et h.1).align_pow2).pos
      omega
  | .strEmpty, t, h, hw => by
      cases t <;> simp only [InitWT] at hw
      rename_i l
      simp only [Ty.WF] at h
      refine ⟨acc_strEmpty l h, ?_⟩
      simp only [Ty.dict, strD, sizeSpec]
      have := le_ceilMul (x := l.size + 0) h.align_pow2.pos
      omega
  | .strFrom v, t, h, hw => by
      cases t <;> simp only [InitWT] at hw
      rename_i l
      simp only [Ty.WF] at h
      refine ⟨acc_strFrom l h v, ?_⟩
      simp only [Ty.dict, strD, sizeSpec]
      have := le_ceilMul (x := l.size + v.length) h.align_pow2.pos
      omega
  | .flexEmpty, t, h, hw => by
      cases t <;> simp only [InitWT] at hw
      rename_i it l
      simp only [Ty.WF] at h
      exact ⟨acc_flexEmpty it (Ty.law it h.1) l h.2, by simp only [Ty.dict, flexD, sizeSpec]; omega⟩
  | .flexIter items, t, h, hw => by
      cases t <;> simp only [InitWT] at hw
      rename_i it l
      simp only [Ty.WF] at h
      refine ⟨acc_flexIter it (Ty.law it h.1) (Ty.frameLaw it h.1) l h.2 items (emplaceU_accL items it h.1 hw), ?_⟩
      cases items with
      | nil => simp only [Ty.dict, flexD, sizeSpec]; omega
      | cons i is => simp only [Ty.dict, flexD, sizeSpec, sizeItems]; omega
  | .ustruct vals li, t, h, hw => by
      cases t <;> simp only [InitWT] at hw
      rename_i fs last
      simp only [Ty.WF] at h
      obtain ⟨hacc, hge⟩ := emplaceU_acc li last h.2.2.1 hw.2
      refine ⟨acc_ustruct fs last vals li (lawL fs h.1) (sizedL_allSized fs h.2.1) (Ty.law last h.2.2.1) hw.1
        (emplaceU_ok li last h.2.2.1 hw.2) hacc, ?_⟩
      simp only [Ty.dict, ustructD, sizeSpec]
      apply ceilMul_mono
      rw [minSizeL_append (dictL fs) last.dict (lawL fs h.1) (sizedL_allSized fs h.2.1) 0]
      omega
  | .uenum idx vals none, t, h, hw => by
      cases t <;> simp only [InitWT] at hw
      rename_i tag vs
      simp only [Ty.WF] at h
      have hs := sizedL_allSized _ hw.2.2.1
      refine ⟨acc_uenum_none tag h.1 vs (lawLL vs h.2.1) (frameLL vs h.2.1) idx hw.1 hw.2.1 vals hs hw.2.2.2, ?_⟩
      have hidx' : idx < (dictLL vs).length := by rw [dictLL_length]; exact hw.1
      have hmem : (dictLL vs).getD idx [] ∈ dictLL vs := getD_mem _ _ _ hidx'
      simp only [Ty.dict, sizeSpec]
      apply minSize_uenum_le tag (dictLL vs) idx hidx'
      rw [dictLL_getD] at hmem ⊢
      simp only [varMinSize]
      split
      · omega
      · rw [minSizeL_eq_foldSize _ (lawLL vs h.2.1 _ hmem) hs 0]; omega
  | .uenum idx vals (some li), t, h, hw => by
      cases t <;> simp only [InitWT] at hw
      rename_i tag vs
      simp only [Ty.WF] at h
      obtain ⟨hidx, hrep, pre, lt, hvar, hv, hwl⟩ := hw
      have hwf := wfLL_getD vs idx h.2.1
      have hbl := butLastLL_getD vs idx h.2.2
      rw [hvar] at hwf hbl
      have hspre := sizedL_allSized _ (butLastL_concat pre lt hbl)
      obtain ⟨hacc, hge⟩ := emplaceU_acc li lt (wfL_concat pre lt hwf).2 hwl
      refine ⟨acc_uenum_some tag h.1 vs (lawLL vs h.2.1) idx hidx hrep vals pre lt hvar hspre hv li
        (emplaceU_ok li lt (wfL_concat pre lt hwf).2 hwl) hacc hge, ?_⟩
      have hidx' : idx < (dictLL vs).length := by rw [dictLL_length]; exact hidx
      have hmem : (dictLL vs).getD idx [] ∈ dictLL vs := getD_mem _ _ _ hidx'
      simp only [Ty.dict, sizeSpec, hvar, List.getLast?_concat]
      apply minSize_uenum_le tag (dictLL vs) idx hidx'
      rw [dictLL_getD, hvar, dictL_append] at hmem ⊢
      simp only [dictL] at hmem ⊢
      have hlv := lawLL vs h.2.1 _ hmem
      have hlpre : ∀ d ∈ dictL pre, Law d := fun d hd => hlv d (by simp [hd])
      have hposv : ∀ x ∈ dictL pre ++ [lt.dict], 0 < x.align := fun x hx => (hlv x hx).align_pow2.pos
      have hne : (dictL pre ++ [lt.dict]).isEmpty = false := by cases dictL pre <;> rfl
      simp only [varMinSize, hne, Bool.false_eq_true, if_false]
      rw [minSizeL_append (dictL pre) lt.dict hlpre hspre 0, lastPos_append (dictL pre) lt.dict 0 hposv (headAligned_zero _)]
      omega
theorem emplaceU_accL : ∀ (items : List Init) (t : Ty), t.WF → InitWTL t items → ∀ i ∈ items, ItemAcc t i
  | [], _, _, _ => by intro i hi; cases hi
  | j :: js, t, h, hw => by
      intro i hi
      simp only [InitWTL] at hw
      rcases List.mem_cons.1 hi with heq | hm
      · rw [heq]
        obtain ⟨hacc, hge⟩ := emplaceU_acc j t h hw.1
        exact ⟨emplaceU_ok j t h hw.1, hacc, hge⟩
      · exact emplaceU_accL js t h hw.2 i hm
end
end FV
#print axioms FV.emplaceU_acc
