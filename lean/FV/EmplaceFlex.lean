import FV.EmplaceSimple
import FV.FrameFlex
/-! Emplace theorems, part 6: `flex::FromIterator` — the offset chain built item by item validates. -/
namespace FV

section
variable (d : Dict) (l : LenTy)

/-- the validating walk succeeds from this slot on, with some fuel -/
def FlexOK (os pos : Nat) (data : Slice) : Prop := ∃ f, flexValidate d l os f pos data = .ok ()

theorem flexValidate_any_fuel (hl : l.Law) (hd : Pow2 d.align) (os : Nat) (hos : 0 < os) :
    ∀ f pos data, flexValidate d l os f pos data = .ok () → ∀ F, data.len < F → flexValidate d l os F pos data = .ok () := by
  intro f
  induction f with
  | zero => intro pos data h; simp [flexValidate] at h
  | succ f ih =>
    intro pos data h F hF
    obtain ⟨hal, hlen, step⟩ := flexValidate_inv d l os f pos data h
    have hla : data.addr % l.align = 0 := mod_trans hal (Pow2.max_mod_left hl.align_pow2 hd)
    cases F with
    | zero => omega
    | succ F =>
      cases step with
      | term hr => exact flexValidate_term d l os F pos data hal hla hlen hr
      | last next hr hn hmax h2 hv => exact flexValidate_last d l os F pos next data hal hla hlen hr hn hmax h2 hv
      | item next hr hn hmax h1 h2 hv hrest =>
        exact flexValidate_item d l os F pos next data hal hla hlen hr hn hmax h1 h2 hv
          (ih (pos + next) (data.drop next) hrest F (by simp only [Slice.len_drop]; omega))

theorem FlexOK.final (hl : l.Law) (hd : Pow2 d.align) (os : Nat) (hos : 0 < os) (pos : Nat) (data : Slice)
    (h : FlexOK d l os pos data) : flexValidate d l os (data.len + 1) pos data = .ok () := by
  obtain ⟨f, hf⟩ := h
  exact flexValidate_any_fuel d l hl hd os hos f pos data hf _ (Nat.lt_succ_self _)

theorem FlexOK.term (hl : l.Law) (hd : Pow2 d.align) (os pos : Nat) (data : Slice) (hal : data.addr % max l.align d.align = 0)
    (hlen : l.size ≤ data.len) (hr : l.readU data = .ok 0) : FlexOK d l os pos data :=
  ⟨1, flexValidate_term d l os 0 pos data hal (mod_trans hal (Pow2.max_mod_left hl.align_pow2 hd)) hlen hr⟩

theorem FlexOK.last (hl : l.Law) (hd : Pow2 d.align) (os pos : Nat) (data : Slice) (hal : data.addr % max l.align d.align = 0)
    (hlen : l.size ≤ data.len) (hr : l.readU data = .ok l.max) (hn : l.max ≠ 0) (h2 : os ≤ data.len)
    (hv : d.validate (data.drop os) = .ok ()) : FlexOK d l os pos data :=
  ⟨1, flexValidate_last d l os 0 pos l.max data hal (mod_trans hal (Pow2.max_mod_left hl.align_pow2 hd)) hlen hr hn rfl h2 hv⟩

theorem FlexOK.item (hl : l.Law) (hd : Pow2 d.align) (os pos next : Nat) (data : Slice) (hal : data.addr % max l.align d.align = 0)
    (hlen : l.size ≤ data.len) (hr : l.readU data = .ok next) (hn : next ≠ 0) (hmax : next ≠ l.max) (h1 : os ≤ next)
    (h2 : next ≤ data.len) (hv : d.validate ((data.take next).drop os) = .ok ())
    (hrest : FlexOK d l os (pos + next) (data.drop next)) : FlexOK d l os pos data := by
  obtain ⟨f, hf⟩ := hrest
  exact ⟨f + 1, flexValidate_item d l os f pos next data hal (mod_trans hal (Pow2.max_mod_left hl.align_pow2 hd)) hlen hr hn hmax h1 h2 hv hf⟩
end

theorem emplace_flexEmpty_spec (it : Ty) (hL : Law it.dict) (l : LenTy) (hl : l.Law) : EmpSpec (.flex it l) .flexEmpty := by
  intro s hal hlen
  obtain ⟨addr, bytes⟩ := s
  simp only [Ty.dict, flexD, Slice.len] at hal hlen
  have hls : l.size ≤ max l.size it.dict.align := Nat.le_max_left _ _
  have hla : addr % l.align = 0 := mod_trans hal (Pow2.max_mod_left hl.align_pow2 hL.align_pow2)
  have hapos := (Pow2.of_max hl.align_pow2 hL.align_pow2).pos
  obtain ⟨b0, hb0, hb0l, _, _⟩ := header_written l hl 0 (Nat.pow_pos (by decide)) ⟨addr, bytes⟩ hla (by simp only [Slice.len]; omega)
  simp only [Slice.len] at hb0l
  refine ⟨EO.ok b0, by simp [emplaceU, hb0], hb0l, ?_, by intro e he; cases he⟩
  intro _
  show (flexD it.dict l).validateU ⟨addr, b0⟩ = .ok ()
  have hn := floorMul_greatest hapos (dataOffset_mod l hl it.dict.align hL.align_pow2) hlen
  have hfl := floorMul_le bytes.length (max l.align it.dict.align)
  have hread := writeAt_read hb0
  simp only [List.drop_zero, encLenTy_length] at hread
  simp only [flexD, Slice.len, Slice.take, hb0l]
  refine flexValidate_term it.dict l _ _ 0 ⟨addr, b0.take (floorMul bytes.length (max l.align it.dict.align))⟩ hal hla ?_ ?_
  · simp only [Slice.len, List.length_take, hb0l]; omega
  · apply readU_of_take l ⟨addr, _⟩ 0 (Nat.pow_pos (by decide)) hla
    show (b0.take _).take l.size = _
    rw [List.take_take, Nat.min_eq_left (by omega), hread]

/-! ### the chain under construction -/
theorem take_drop_take_eq {α} (X : List α) (n a k : Nat) (h : a + k ≤ n) : ((X.take n).drop a).take k = (X.drop a).take k :=
  drop_take_eq (a := X.take n) (b := X) (n := n) (by rw [List.take_take, Nat.min_self]) h

/-- slot `q` holds a complete, valid item that ends at `pos`, and everything before `q` is a valid chain prefix -/
structure Settled (d : Dict) (l : LenTy) (base q pos : Nat) (whole : Bytes) : Prop where
  qal : q % max l.align d.align = 0
  room : q + max l.size d.align ≤ pos
  small : pos - q < l.max
  chain : ∀ whole' : Bytes, whole'.length = whole.length → whole'.take q = whole.take q →
      FlexOK d l (max l.size d.align) q ⟨base + q, whole'.drop q⟩ → FlexOK d l (max l.size d.align) 0 ⟨base, whole'⟩
  slot : l.readU ⟨base + q, whole.drop q⟩ = .ok (pos - q)
  item : d.validate (((⟨base + q, whole.drop q⟩ : Slice).take (pos - q)).drop (max l.size d.align)) = .ok ()

def FillInv (d : Dict) (l : LenTy) (base pos : Nat) (lastSlot : Option Nat) (whole : Bytes) : Prop :=
  match lastSlot with
  | none => pos = 0
  | some q => Settled d l base q pos whole

def flexFinish (l : LenTy) (lastSlot : Option Nat) (res : Except Err Unit) (b : Bytes) : Res EO :=
  match lastSlot with
  | some q => (writeAt b q (encLenTy l l.max)).bind fun b' => .ok ⟨b', res⟩
  | none => (writeAt b 0 (encLenTy l 0)).bind fun b' => .ok ⟨b', res⟩

theorem lmax_lt (l : LenTy) : l.max < 256 ^ l.size := by
  have hp : 0 < 256 ^ l.size := Nat.pow_pos (by omega)
  have : l.max = 256 ^ l.size - 1 := rfl
  omega

section
variable (d : Dict) (l : LenTy) (hd : Law d) (hfd : FrameLaw d) (hl : l.Law) (base : Nat)
  (hbase : base % max l.align d.align = 0)
include hd hfd hl hbase

/-- closing the chain: the last settled item gets the `MAX` marker (or the empty vector its terminator) -/
theorem flexFinish_spec (pos : Nat) (lastSlot : Option Nat) (whole b : Bytes) (res : Except Err Unit)
    (hinv : FillInv d l base pos lastSlot whole) (hbl : b.length = whole.length) (hbp : b.take pos = whole.take pos)
    (hposle : pos ≤ whole.length) (hN : max l.size d.align ≤ whole.length) :
    ∃ b', flexFinish l lastSlot res b = .ok ⟨b', res⟩ ∧ b'.length = whole.length ∧
      FlexOK d l (max l.size d.align) 0 ⟨base, b'⟩ := by
  have hls : l.size ≤ max l.size d.align := Nat.le_max_left _ _
  have hpa := hd.align_pow2
  cases lastSlot with
  | none =>
    obtain ⟨b', hb', hb'l⟩ := writeAt_ok (bs := b) (x := encLenTy l 0) (off := 0) (by rw [encLenTy_length]; omega)
    refine ⟨b', by simp [flexFinish, hb'], by omega, ?_⟩
    have hread := writeAt_read hb'
    simp only [List.drop_zero, encLenTy_length] at hread
    exact FlexOK.term d l hl hpa _ 0 ⟨base, b'⟩ hbase (by simp only [Slice.len]; omega)
      (readU_of_take l ⟨base, b'⟩ 0 (Nat.pow_pos (by decide)) (mod_trans hbase (Pow2.max_mod_left hl.align_pow2 hpa)) hread)
  | some q =>
    have hs : Settled d l base q pos whole := hinv
    have hroom := hs.room
    have hsmall := hs.small
    have hospos : 0 < max l.size d.align := Nat.lt_of_lt_of_le hl.size_pow2.pos hls
    obtain ⟨b', hb', hb'l⟩ := writeAt_ok (bs := b) (x := encLenTy l l.max) (off := q) (by rw [encLenTy_length]; omega)
    refine ⟨b', by simp [flexFinish, hb'], by omega, ?_⟩
    have hqal : (base + q) % max l.align d.align = 0 := add_mod_zero hbase hs.qal
    apply hs.chain b' (by omega)
    · have := writeAt_frame hb' 0 q (Or.inl (by omega))
      simp only [List.drop_zero] at this
      rw [this]; exact take_take_eq hbp (by omega)
    · have hread := writeAt_read hb'
      rw [encLenTy_length] at hread
      -- the item, as seen in the original image
      obtain ⟨hia, himin, hiv⟩ := validate_ok_iff.1 hs.item
      obtain ⟨z, hz, hzle, _, hzmin⟩ := hfd.size_ok _ hia himin hiv
      simp only [Slice.len, Slice.take, Slice.drop, List.length_drop, List.length_take] at hzle himin
      have hloc := hfd.loc _ z hia (by simpa [Slice.len, Slice.take, Slice.drop] using himin) hiv hz
        ⟨base + q + max l.size d.align, b'.drop (q + max l.size d.align)⟩ rfl
        (by simp only [Slice.len, List.length_drop]; omega)
        (by
          show (b'.drop (q + max l.size d.align)).take z = (((whole.drop q).take (pos - q)).drop (max l.size d.align)).take z
          rw [writeAt_frame hb' _ _ (Or.inr (by rw [encLenTy_length]; omega)), take_drop_take_eq _ _ _ _ (by omega),
            List.drop_drop]
          exact drop_take_eq hbp (by omega))
      apply FlexOK.last d l hl hpa _ q ⟨base + q, b'.drop q⟩ hqal (by simp only [Slice.len, List.length_drop]; omega)
        (readU_of_take l _ l.max (lmax_lt l) (mod_trans hqal (Pow2.max_mod_left hl.align_pow2 hpa)) hread)
        (by omega) (by simp only [Slice.len, List.length_drop]; omega)
      show d.validate ⟨base + q + max l.size d.align, (b'.drop q).drop (max l.size d.align)⟩ = .ok ()
      rw [List.drop_drop]
      exact validate_ok_iff.2 ⟨hia, by simp only [Slice.len, List.length_drop]; omega, hloc.1⟩

/-- a freshly written item at `pos` with real offset `off` becomes the settled last item -/
theorem settled_new (pos : Nat) (lastSlot : Option Nat) (whole b2 : Bytes) (off : Nat)
    (hinv : FillInv d l base pos lastSlot whole) (hposal : pos % max l.align d.align = 0)
    (hbl : b2.length = whole.length) (hbp : b2.take pos = whole.take pos)
    (hoff1 : max l.size d.align ≤ off) (hoff2 : off < l.max) (hfit : pos + off ≤ whole.length)
    (hslot : l.readU ⟨base + pos, b2.drop pos⟩ = .ok off)
    (hitem : d.validate (((⟨base + pos, b2.drop pos⟩ : Slice).take off).drop (max l.size d.align)) = .ok ()) :
    Settled d l base pos (pos + off) b2 := by
  have hls : l.size ≤ max l.size d.align := Nat.le_max_left _ _
  have hpa := hd.align_pow2
  have hospos : 0 < max l.size d.align := Nat.lt_of_lt_of_le hl.size_pow2.pos hls
  have e1 : pos + off - pos = off := by omega
  refine ⟨hposal, by omega, by omega, ?_, by rw [e1]; exact hslot, by rw [e1]; exact hitem⟩
  intro whole' hlen htake hok
  cases lastSlot with
  | none =>
    have hp : pos = 0 := hinv
    subst hp
    simpa using hok
  | some q =>
    have hs : Settled d l base q pos whole := hinv
    have hroom := hs.room
    have hsmall := hs.small
    have htake' : whole'.take pos = whole.take pos := by rw [htake, hbp]
    have hqal : (base + q) % max l.align d.align = 0 := add_mod_zero hbase hs.qal
    apply hs.chain whole' (by omega) (take_take_eq htake' (by omega))
    have hbytes : (whole'.drop q).take (pos - q) = (whole.drop q).take (pos - q) := drop_take_eq htake' (by omega)
    apply FlexOK.item d l hl hpa _ q (pos - q) ⟨base + q, whole'.drop q⟩ hqal (by simp only [Slice.len, List.length_drop]; omega)
    · rw [← hs.slot]
      exact readU_congr l ⟨base + q, whole.drop q⟩ ⟨base + q, whole'.drop q⟩ rfl (by simp only [Slice.len, List.length_drop]; omega)
        (by simp only [Slice.len, List.length_drop]; omega) (drop_take_eq htake' (by omega))
    · omega
    · omega
    · omega
    · simp only [Slice.len, List.length_drop]; omega
    · have := hs.item
      simp only [Slice.take, Slice.drop] at this ⊢
      rw [hbytes]; exact this
    · have e2 : q + (pos - q) = pos := by omega
      simp only [Slice.drop, List.drop_drop, e2, Nat.add_assoc]
      exact hok
end

/-! ### `flexFill`, unfolded -/
theorem flexFill_nil (it : Ty) (l : LenTy) (pos : Nat) (lastSlot : Option Nat) (whole : Bytes) (base : Nat) :
    flexFill it l [] pos lastSlot whole base = flexFinish l lastSlot (.ok ()) whole := by
  cases lastSlot <;> simp [flexFill, flexFinish, EO.ok]

theorem flexFill_cons (it : Ty) (l : LenTy) (i : Init) (is : List Init) (pos : Nat) (lastSlot : Option Nat) (whole : Bytes) (base : Nat) :
    flexFill it l (i :: is) pos lastSlot whole base =
      if whole.length - pos < max l.size it.dict.align then flexFinish l lastSlot (.error ⟨.insufficientSize, pos⟩) whole
      else match checkAlignMin it.dict.align it.dict.minSize ⟨base + pos + max l.size it.dict.align, whole.drop (pos + max l.size it.dict.align)⟩ with
        | .fault f => .fault f
        | .err e => flexFinish l lastSlot (.error { e with pos := e.pos + pos + max l.size it.dict.align }) whole
        | .ok () =>
          (emplaceU it i ⟨base + pos + max l.size it.dict.align, whole.drop (pos + max l.size it.dict.align)⟩).bind fun o =>
            match o.res with
            | .error e => flexFinish l lastSlot (.error { e with pos := e.pos + pos + max l.size it.dict.align })
                (whole.take (pos + max l.size it.dict.align) ++ o.bytes)
            | .ok () =>
              (it.dict.size ⟨base + pos + max l.size it.dict.align, o.bytes⟩).bind fun z =>
                if max l.size it.dict.align + ceilMul z (max l.align it.dict.align) < l.max then
                  (writeAt (whole.take (pos + max l.size it.dict.align) ++ o.bytes) pos
                      (encLenTy l (max l.size it.dict.align + ceilMul z (max l.align it.dict.align)))).bind fun b2 =>
                    flexFill it l is (pos + (max l.size it.dict.align + ceilMul z (max l.align it.dict.align))) (some pos) b2 base
                else flexFinish l lastSlot (.error ⟨.insufficientSize, pos⟩) (whole.take (pos + max l.size it.dict.align) ++ o.bytes) := by
  rw [flexFill]
  cases lastSlot <;> rfl

/-- **`flex::FromIterator`, item by item**: from any state of the fill that satisfies the invariant, the loop never faults,
keeps the length, ends in a chain that validates (whether or not all items fitted), and fails only for lack of room. -/
theorem flexFill_spec (it : Ty) (hd : Law it.dict) (hfd : FrameLaw it.dict) (l : LenTy) (hl : l.Law) (base : Nat)
    (hbase : base % max l.align it.dict.align = 0) (N : Nat) (hNal : N % max l.align it.dict.align = 0)
    (hN : max l.size it.dict.align ≤ N) :
    ∀ (items : List Init), (∀ i ∈ items, EmpSpec it i) → ∀ (pos : Nat) (lastSlot : Option Nat) (whole : Bytes),
      whole.length = N → pos % max l.align it.dict.align = 0 → pos ≤ N → FillInv it.dict l base pos lastSlot whole →
      ∃ o, flexFill it l items pos lastSlot whole base = .ok o ∧ o.bytes.length = N ∧
        FlexOK it.dict l (max l.size it.dict.align) 0 ⟨base, o.bytes⟩ ∧
        (∀ e, o.res = .error e → e.kind = .insufficientSize ∨ e.kind = .badAlign) := by
  have hls : l.size ≤ max l.size it.dict.align := Nat.le_max_left _ _
  have hpa := hd.align_pow2
  have hapos := (Pow2.of_max hl.align_pow2 hpa).pos
  have hosal := dataOffset_mod l hl it.dict.align hpa
  intro items
  induction items with
  | nil =>
    intro _ pos lastSlot whole hwl hposal hposle hinv
    obtain ⟨b', hb', hb'l, hok⟩ := flexFinish_spec it.dict l hd hfd hl base hbase pos lastSlot whole whole (.ok ()) hinv rfl rfl (by omega) (by omega)
    exact ⟨_, by rw [flexFill_nil]; exact hb', by show b'.length = N; omega, hok, by intro e he; cases he⟩
  | cons i is ih =>
    intro hrec pos lastSlot whole hwl hposal hposle hinv
    have finish : ∀ (b : Bytes) (res : Except Err Unit), b.length = whole.length → b.take pos = whole.take pos →
        (∀ e, res = .error e → e.kind = .insufficientSize ∨ e.kind = .badAlign) →
        ∃ o, flexFinish l lastSlot res b = .ok o ∧ o.bytes.length = N ∧
          FlexOK it.dict l (max l.size it.dict.align) 0 ⟨base, o.bytes⟩ ∧
          (∀ e, o.res = .error e → e.kind = .insufficientSize ∨ e.kind = .badAlign) := by
      intro b res hbl hbp hk
      obtain ⟨b', hb', hb'l, hok⟩ := flexFinish_spec it.dict l hd hfd hl base hbase pos lastSlot whole b res hinv hbl hbp (by omega) (by omega)
      exact ⟨_, hb', by show b'.length = N; omega, hok, hk⟩
    rw [flexFill_cons]
    by_cases hsmall : whole.length - pos < max l.size it.dict.align
    · simp only [hsmall, if_true]
      exact finish whole _ rfl rfl (by intro e he; simp only [Except.error.injEq] at he; rw [← he]; exact Or.inl rfl)
    · simp only [hsmall, if_false]
      cases hck : checkAlignMin it.dict.align it.dict.minSize ⟨base + pos + max l.size it.dict.align, whole.drop (pos + max l.size it.dict.align)⟩ with
      | fault f =>
        have := checkAlignMin_noFault it.dict.align it.dict.minSize ⟨base + pos + max l.size it.dict.align, whole.drop (pos + max l.size it.dict.align)⟩
        rw [hck] at this; exact absurd this (by simp)
      | err e =>
        simp only []
        exact finish whole _ rfl rfl (by intro e' he; simp only [Except.error.injEq] at he; rw [← he]; exact checkAlignMin_err_kind (e := e) hck)
      | ok u =>
        simp only []
        obtain ⟨hpal, hpmin⟩ := checkAlignMin_ok.1 hck
        obtain ⟨o, ho, hok⟩ := hrec i (by simp) _ hpal hpmin
        simp only [ho, Res.bind_ok]
        have hol : o.bytes.length = N - (pos + max l.size it.dict.align) := by
          have := hok.len; simpa [Slice.len, hwl] using this
        have hb1l : (whole.take (pos + max l.size it.dict.align) ++ o.bytes).length = whole.length := by
          simp only [List.length_append, List.length_take, hol]; omega
        have hb1p : (whole.take (pos + max l.size it.dict.align) ++ o.bytes).take pos = whole.take pos := by
          rw [List.take_append_of_le_length (by simp only [List.length_take]; omega), List.take_take, Nat.min_eq_left (by omega)]
        cases hres : o.res with
        | error e =>
          simp only []
          exact finish _ _ hb1l hb1p (by intro e' he; simp only [Except.error.injEq] at he; rw [← he]; exact hok.kinds e hres)
        | ok u =>
          simp only []
          have hv := hok.valid hres
          simp only [Slice.len, List.length_drop] at hpmin
          obtain ⟨z, hz, hzle, hzal, hzmin⟩ := hfd.size_ok ⟨base + pos + max l.size it.dict.align, o.bytes⟩ hpal (by simp only [Slice.len, hol]; omega) hv
          have hz' : it.dict.size ⟨base + pos + max l.size it.dict.align, o.bytes⟩ = .ok z := hz
          simp only [Slice.len] at hzle
          simp only [hz', Res.bind_ok]
          by_cases hlt : max l.size it.dict.align + ceilMul z (max l.align it.dict.align) < l.max
          · simp only [hlt, if_true]
            obtain ⟨b2, hb2, hb2l⟩ := writeAt_ok (bs := whole.take (pos + max l.size it.dict.align) ++ o.bytes)
              (x := encLenTy l (max l.size it.dict.align + ceilMul z (max l.align it.dict.align))) (off := pos)
              (by rw [encLenTy_length, hb1l]; omega)
            simp only [hb2, Res.bind_ok]
            have hposos : (pos + max l.size it.dict.align) % max l.align it.dict.align = 0 := add_mod_zero hposal hosal
            have hrem : (N - (pos + max l.size it.dict.align)) % max l.align it.dict.align = 0 :=
              Nat.sub_mod_eq_zero_of_mod_eq (by rw [hNal, hposos])
            have hceil : ceilMul z (max l.align it.dict.align) ≤ N - (pos + max l.size it.dict.align) :=
              ceilMul_least hapos hrem (by omega)
            have hzc := le_ceilMul (x := z) hapos
            have hb2p : b2.take pos = whole.take pos := by
              have := writeAt_frame hb2 0 pos (Or.inl (by omega))
              simp only [List.drop_zero] at this
              rw [this, hb1p]
            have hread := writeAt_read hb2
            rw [encLenTy_length] at hread
            have hposa : (base + pos) % max l.align it.dict.align = 0 := add_mod_zero hbase hposal
            apply ih (fun j hj => hrec j (by simp [hj])) _ (some pos) b2 (by omega)
              (add_mod_zero hposal (add_mod_zero hosal (ceilMul_mod _ _))) (by omega)
            show Settled it.dict l base pos (pos + (max l.size it.dict.align + ceilMul z (max l.align it.dict.align))) b2
            apply settled_new it.dict l hd hfd hl base hbase pos lastSlot whole b2 _ hinv hposal (by omega) hb2p (by omega) hlt (by omega)
              (readU_of_take l _ _ (Nat.lt_trans hlt (lmax_lt l)) (mod_trans hposa (Pow2.max_mod_left hl.align_pow2 hpa)) hread)
            -- the item as the validator will see it
            have hloc := hfd.loc ⟨base + pos + max l.size it.dict.align, o.bytes⟩ z hpal (by simp only [Slice.len, hol]; omega) hv hz
              ⟨base + pos + max l.size it.dict.align,
                ((b2.drop pos).take (max l.size it.dict.align + ceilMul z (max l.align it.dict.align))).drop (max l.size it.dict.align)⟩ rfl
              (by simp only [Slice.len, List.length_drop, List.length_take, hb2l, hb1l]; omega)
              (by
                show ((((b2.drop pos).take (max l.size it.dict.align + ceilMul z (max l.align it.dict.align))).drop (max l.size it.dict.align))).take z = o.bytes.take z
                rw [take_drop_take_eq _ _ _ _ (by omega), List.drop_drop,
                  writeAt_frame hb2 _ _ (Or.inr (by rw [encLenTy_length]; omega)),
                  List.drop_left' (by simp only [List.length_take]; omega)])
            exact validate_ok_iff.2 ⟨hpal, by simp only [Slice.len, Slice.take, Slice.drop, List.length_drop, List.length_take, hb2l, hb1l]; omega, hloc.1⟩
          · simp only [hlt, if_false]
            exact finish _ _ hb1l hb1p (by intro e' he; simp only [Except.error.injEq] at he; rw [← he]; exact Or.inl rfl)
end FV
