import FV.IoRecv
/-! C08 (receiver half): the async `Receiver::recv` as a resumable state machine — `poll_read` may return `Pending` any number of
times, the future is re-polled, `poll_read` runs again from its top — refines the blocking `recv` on the script with the
`Pending` outcomes erased: same outcome, same bytes left in the stream, same buffer, same remaining script. -/
namespace FV

/-- outcome of one `AsyncRead::poll_read` of the pipe -/
inductive AREv | pending | deliver (n : Nat) | fail (k : Nat)
deriving Repr, DecidableEq

def eraseP : List AREv → List ReadEv
  | [] => []
  | .pending :: r => eraseP r
  | .deliver n :: r => .deliver n :: eraseP r
  | .fail k :: r => .fail k :: eraseP r

theorem eraseP_length_le : ∀ evs : List AREv, (eraseP evs).length ≤ evs.length := by
  intro evs; induction evs with
  | nil => simp [eraseP]
  | cons e r ih => cases e <;> simp [eraseP] <;> omega

/-- the async receiver. `awaiting = true`: the future is suspended in `self.buffer.read().await` (validation already said
`InsufficientSize`), so the next poll goes straight to `poll_read`; `awaiting = false`: at the top of the loop. -/
def arecv (d : Dict) : Bool → List AREv → RBuf → Bytes → RecvOut × RBuf × Bytes × List AREv
  | false, evs, b, rest =>
    match d.validate b.slice with
    | .ok () => (.msg b.occ, b, rest, evs)
    | .fault _ => (.fault, b, rest, evs)
    | .err e =>
      if e.kind ≠ .insufficientSize then (.parse e, b, rest, evs)
      else arecv d true evs b rest
  | true, [], b, rest => (.blocked, b, rest, [])
  | true, ev :: evs', b, rest =>
    -- `IoBuffer::poll_read`: room check / compaction / OutOfMemory first, then the pipe
    if b.start + b.occ.length = b.cap ∧ b.start = 0 then (.oom, b, rest, ev :: evs')
    else
      let b1 := if b.start + b.occ.length = b.cap then { b with start := 0 } else b
      match ev with
      | .pending => arecv d true evs' b1 rest          -- `ready!` returns Pending; on wake-up `poll_read` starts over
      | .fail k => (.readErr k, b1, rest, evs')
      | .deliver c =>
        let n := min (min c (b1.cap - (b1.start + b1.occ.length))) rest.length
        if n = 0 then (.closed, { b1 with occ := b1.occ ++ rest.take n }, rest.drop n, evs')
        else arecv d false evs' { b1 with occ := b1.occ ++ rest.take n } (rest.drop n)
termination_by mode evs => (evs.length, if mode then 0 else 1)

/-- the read part of the blocking `recv` (after validation said `InsufficientSize`) -/
def recvRead (d : Dict) : List ReadEv → RBuf → Bytes → RecvOut × RBuf × Bytes × List ReadEv
  | [], b, rest => (.blocked, b, rest, [])
  | ev :: evs', b, rest =>
    match readStep b ev rest with
    | .oom => (.oom, b, rest, ev :: evs')
    | .err b1 k => (.readErr k, b1, rest, evs')
    | .got b1 rest1 n => if n = 0 then (.closed, b1, rest1, evs') else recv d evs' b1 rest1

theorem recv_unfold (d : Dict) (evs : List ReadEv) (b : RBuf) (rest : Bytes) :
    recv d evs b rest =
      match d.validate b.slice with
      | .ok () => (.msg b.occ, b, rest, evs)
      | .fault _ => (.fault, b, rest, evs)
      | .err e => if e.kind ≠ .insufficientSize then (.parse e, b, rest, evs) else recvRead d evs b rest := by
  rw [recv.eq_def]
  cases hv : d.validate b.slice with
  | ok u => simp only [hv]
  | fault f => simp only [hv]
  | err e =>
    simp only [hv]
    split
    · rfl
    · cases evs <;> rfl

/-- what `poll_read` does to the buffer before it polls the pipe -/
def compactB (b : RBuf) : RBuf := if b.start + b.occ.length = b.cap then { b with start := 0 } else b

theorem readStep_compact (b : RBuf) (ev : ReadEv) (rest : Bytes) (h : ¬ (b.start + b.occ.length = b.cap ∧ b.start = 0)) :
    readStep (compactB b) ev rest = readStep b ev rest := by
  unfold compactB
  by_cases hfull : b.start + b.occ.length = b.cap
  · have hs : b.start ≠ 0 := fun h0 => h ⟨hfull, h0⟩
    have hlt : ¬ (0 + b.occ.length = b.cap ∧ (0 : Nat) = 0) := by omega
    have hlt2 : ¬ (0 + b.occ.length = b.cap) := by omega
    rw [if_pos hfull]
    unfold readStep
    rw [if_neg hlt, if_neg h]
    simp only [hlt2, if_false, hfull, if_true]
  · rw [if_neg hfull]

/-- the blocking run decided (did not run out of script), and the other run agrees with it in everything -/
def Agrees {E : Type} (erase : List E → List ReadEv) (x : RecvOut × RBuf × Bytes × List E) (y : RecvOut × RBuf × Bytes × List ReadEv) : Prop :=
  y.1 = .blocked ∨ (x.1 = y.1 ∧ x.2.1 = y.2.1 ∧ x.2.2.1 = y.2.2.1 ∧ erase x.2.2.2 = y.2.2.2)

theorem recvRead_compact (d : Dict) (evs : List ReadEv) (b : RBuf) (rest : Bytes)
    (h : ¬ (b.start + b.occ.length = b.cap ∧ b.start = 0)) :
    Agrees id (recvRead d evs (compactB b) rest) (recvRead d evs b rest) := by
  cases evs with
  | nil => exact Or.inl rfl
  | cons ev evs' =>
    right
    have hne : readStep b ev rest ≠ .oom := by
      unfold readStep
      rw [if_neg h]
      cases ev <;> simp
    simp only [recvRead, readStep_compact b ev rest h]
    cases hr : readStep b ev rest with
    | oom => exact absurd hr hne
    | err b1 k => exact ⟨rfl, rfl, rfl, rfl⟩
    | got b1 rest1 k => exact ⟨rfl, rfl, rfl, rfl⟩

theorem agrees_mk {E : Type} (erase : List E → List ReadEv) (o : RecvOut) (b : RBuf) (r : Bytes) (es : List E) :
    Agrees erase (o, b, r, es) (o, b, r, erase es) := Or.inr ⟨rfl, rfl, rfl, rfl⟩

theorem Agrees.trans {x : RecvOut × RBuf × Bytes × List AREv} {y z : RecvOut × RBuf × Bytes × List ReadEv}
    (h1 : Agrees eraseP x y) (h2 : Agrees id y z) : Agrees eraseP x z := by
  rcases h2 with h2 | h2
  · exact Or.inl h2
  · rcases h1 with h1 | h1
    · exact Or.inl (by rw [← h2.1]; exact h1)
    · exact Or.inr ⟨h1.1.trans h2.1, h1.2.1.trans h2.2.1, h1.2.2.1.trans h2.2.2.1, h1.2.2.2.trans h2.2.2.2⟩

/-- **Stuttering refinement, receiver.** For every message type, every script of pipe outcomes with `Pending` anywhere, every
buffer state and stream: whenever the blocking `recv` on the script without the `Pending`s reaches an outcome (message, parse
error, read error, OutOfMemory, Closed — i.e. the script was long enough), the async `recv`, re-polled after every `Pending`,
reaches the same outcome with the same buffer, the same position in the stream and the same remaining script. -/
theorem arecv_refines (d : Dict) : ∀ (n : Nat) (evs : List AREv) (b : RBuf) (rest : Bytes), evs.length ≤ n →
    Agrees eraseP (arecv d false evs b rest) (recv d (eraseP evs) b rest) ∧
    Agrees eraseP (arecv d true evs b rest) (recvRead d (eraseP evs) b rest) := by
  have top : ∀ (evs : List AREv) (b : RBuf) (rest : Bytes),
      Agrees eraseP (arecv d true evs b rest) (recvRead d (eraseP evs) b rest) →
      Agrees eraseP (arecv d false evs b rest) (recv d (eraseP evs) b rest) := by
    intro evs b rest hT
    rw [arecv, recv_unfold]
    cases d.validate b.slice with
    | ok u => exact Or.inr ⟨rfl, rfl, rfl, rfl⟩
    | fault f => exact Or.inr ⟨rfl, rfl, rfl, rfl⟩
    | err e =>
      simp only
      split
      · exact Or.inr ⟨rfl, rfl, rfl, rfl⟩
      · exact hT
  intro n
  induction n with
  | zero =>
    intro evs b rest hn
    have : evs = [] := List.eq_nil_of_length_eq_zero (by omega)
    subst this
    have hT : Agrees eraseP (arecv d true [] b rest) (recvRead d (eraseP []) b rest) := Or.inl rfl
    exact ⟨top [] b rest hT, hT⟩
  | succ n ih =>
    intro evs b rest hn
    have hT : Agrees eraseP (arecv d true evs b rest) (recvRead d (eraseP evs) b rest) := by
      cases evs with
      | nil => exact Or.inl rfl
      | cons ev evs' =>
        have hn' : evs'.length ≤ n := by simp only [List.length_cons] at hn; omega
        rw [arecv]
        by_cases hoom : b.start + b.occ.length = b.cap ∧ b.start = 0
        · rw [if_pos hoom]
          -- the blocking receiver reports OutOfMemory at its next real read (with only `Pending`s left it is undecided)
          have hall : ∀ (es : List AREv), Agrees eraseP (RecvOut.oom, b, rest, ev :: evs') (recvRead d (eraseP es) b rest) ∨ True := fun _ => Or.inr trivial
          have key : ∀ (es : List AREv), eraseP es = [] ∨ ∃ e r, eraseP es = e :: r := by
            intro es; cases eraseP es with
            | nil => exact Or.inl rfl
            | cons e r => exact Or.inr ⟨e, r, rfl⟩
          rcases key (ev :: evs') with hnil | ⟨e, r, her⟩
          · rw [hnil]; exact Or.inl rfl
          · rw [her]
            right
            have : readStep b e rest = .oom := by unfold readStep; rw [if_pos hoom]
            have e2 : recvRead d (e :: r) b rest = (.oom, b, rest, e :: r) := by simp only [recvRead, this]
            rw [e2, ← her]
            exact ⟨rfl, rfl, rfl, rfl⟩
        · rw [if_neg hoom]
          cases ev with
          | pending =>
            simp only [eraseP]
            have := (ih evs' (compactB b) rest hn').2
            exact Agrees.trans (by simpa [compactB] using this) (recvRead_compact d (eraseP evs') b rest hoom)
          | fail k =>
            have : readStep b (.fail k) rest = .err (compactB b) k := by unfold readStep compactB; rw [if_neg hoom]
            have e2 : recvRead d (eraseP (.fail k :: evs')) b rest = (.readErr k, compactB b, rest, eraseP evs') := by
              simp only [eraseP, recvRead, this]
            rw [e2]
            exact agrees_mk eraseP _ _ _ _
          | deliver c =>
            have : readStep b (.deliver c) rest = .got { compactB b with occ := (compactB b).occ ++ rest.take (min (min c ((compactB b).cap - ((compactB b).start + (compactB b).occ.length))) rest.length) }
                (rest.drop (min (min c ((compactB b).cap - ((compactB b).start + (compactB b).occ.length))) rest.length))
                (min (min c ((compactB b).cap - ((compactB b).start + (compactB b).occ.length))) rest.length) := by
              unfold readStep compactB; rw [if_neg hoom]
            have e2 : recvRead d (eraseP (.deliver c :: evs')) b rest =
                if min (min c ((compactB b).cap - ((compactB b).start + (compactB b).occ.length))) rest.length = 0 then
                  (.closed, { compactB b with occ := (compactB b).occ ++ rest.take (min (min c ((compactB b).cap - ((compactB b).start + (compactB b).occ.length))) rest.length) },
                    rest.drop (min (min c ((compactB b).cap - ((compactB b).start + (compactB b).occ.length))) rest.length), eraseP evs')
                else recv d (eraseP evs') { compactB b with occ := (compactB b).occ ++ rest.take (min (min c ((compactB b).cap - ((compactB b).start + (compactB b).occ.length))) rest.length) }
                    (rest.drop (min (min c ((compactB b).cap - ((compactB b).start + (compactB b).occ.length))) rest.length)) := by
              simp only [eraseP, recvRead, this]
            rw [e2]
            show Agrees eraseP (if min (min c ((compactB b).cap - ((compactB b).start + (compactB b).occ.length))) rest.length = 0 then _ else _) _
            by_cases hz : min (min c ((compactB b).cap - ((compactB b).start + (compactB b).occ.length))) rest.length = 0
            · rw [if_pos hz, if_pos hz]
              exact agrees_mk eraseP _ _ _ _
            · rw [if_neg hz, if_neg hz]
              exact (ih evs' _ _ hn').1
    exact ⟨top evs b rest hT, hT⟩

/-! ### the bounded in-memory pipe between the two tasks -/
/-- one scheduling step: the sending task is polled and may hand over at most `k` bytes (`Pending` when the pipe is full), or the
receiving task is polled and may take at most `k` bytes (`Pending` when the pipe is empty) -/
inductive Sched | w (k : Nat) | r (k : Nat)

structure PipeSt where
  toSend : Bytes      -- bytes the sender has not yet handed to the pipe
  q : Bytes           -- bytes in the pipe (at most `cap`)
  got : Bytes         -- bytes the receiver has taken so far

def pipeStep (cap : Nat) (st : PipeSt) : Sched → PipeSt
  | .w k =>
    let n := min (min k (cap - st.q.length)) st.toSend.length
    { st with toSend := st.toSend.drop n, q := st.q ++ st.toSend.take n }
  | .r k =>
    let n := min k st.q.length
    { st with q := st.q.drop n, got := st.got ++ st.q.take n }

/-- **No interleaving loses, duplicates or reorders a byte**, for every capacity and every chunk limit: at every moment, what
the receiver has taken, then what is in the pipe, then what the sender still holds, is the stream. So the receiver's view is a
script of deliveries of consecutive pieces of the stream (with `Pending` while the pipe is empty) and the sender's view a script
of acceptances (with `Pending` while it is full) — the scripts the two refinement theorems and C07 quantify over. -/
theorem pipe_fifo (cap : Nat) : ∀ (sched : List Sched) (st : PipeSt),
    (sched.foldl (pipeStep cap) st).got ++ (sched.foldl (pipeStep cap) st).q ++ (sched.foldl (pipeStep cap) st).toSend
      = st.got ++ st.q ++ st.toSend ∧
    (st.q.length ≤ cap → (sched.foldl (pipeStep cap) st).q.length ≤ cap) := by
  intro sched
  induction sched with
  | nil => intro st; exact ⟨rfl, fun h => h⟩
  | cons s rest ih =>
    intro st
    simp only [List.foldl_cons]
    obtain ⟨h1, h2⟩ := ih (pipeStep cap st s)
    refine ⟨?_, ?_⟩
    · rw [h1]
      cases s with
      | w k => simp only [pipeStep, List.append_assoc, List.take_append_drop]
      | r k =>
        simp only [pipeStep, List.append_assoc]
        rw [← List.append_assoc (st.q.take _), List.take_append_drop]
    · intro hc
      apply h2
      cases s with
      | w k => simp only [pipeStep, List.length_append, List.length_take]; omega
      | r k => simp only [pipeStep, List.length_drop]; omega
end FV
