import FV.EmplaceFlex
import FV.FlexOps
/-! FlexVec as a sequence: the offset chain of a valid FlexVec *is* a list of items (slot position, item image), and
`truncate` / `pop` / `clear` / `push` act on that list as on a sequence. -/
namespace FV

theorem readU_lt (l : LenTy) (s : Slice) (n : Nat) (h : l.readU s = .ok n) : n < 256 ^ l.size := by
  unfold LenTy.readU at h
  split at h
  · cases h
  · rename_i hlen
    split at h
    · cases h
    · simp only [Res.ok.injEq] at h
      have hl : (s.bytes.take l.size).length = l.size := by simp only [List.length_take, Slice.len] at hlen ⊢; omega
      rw [← h]
      split
      · have := leNat_lt (s.bytes.take l.size).reverse; simpa [hl] using this
      · have := leNat_lt (s.bytes.take l.size); simpa [hl] using this

/-- the chain that starts at slot offset `pos` (whose bytes are `data`) consists of exactly these items, each given by the
offset of its slot and the image of the item (its first `size()` bytes) -/
inductive Chain (d : Dict) (l : LenTy) (os : Nat) : Nat → Slice → List (Nat × Bytes) → Prop
  | term {pos : Nat} {data : Slice} (hal : data.addr % max l.align d.align = 0) (hlen : l.size ≤ data.len)
      (hr : l.readU data = .ok 0) : Chain d l os pos data []
  | last {pos : Nat} {data : Slice} {z : Nat} (hal : data.addr % max l.align d.align = 0) (hlen : l.size ≤ data.len)
      (hr : l.readU data = .ok l.max) (hn : l.max ≠ 0) (h2 : os ≤ data.len)
      (hv : d.validate (data.drop os) = .ok ()) (hz : d.sizeV (data.drop os) = .ok z) :
      Chain d l os pos data [(pos, (data.bytes.drop os).take z)]
  | item {pos : Nat} {data : Slice} {next z : Nat} {rest : List (Nat × Bytes)}
      (hal : data.addr % max l.align d.align = 0) (hlen : l.size ≤ data.len)
      (hr : l.readU data = .ok next) (hn : next ≠ 0) (hmax : next ≠ l.max) (h1 : os ≤ next) (h2 : next ≤ data.len)
      (hv : d.validate ((data.take next).drop os) = .ok ()) (hz : d.sizeV ((data.take next).drop os) = .ok z)
      (hrest : Chain d l os (pos + next) (data.drop next) rest) :
      Chain d l os pos data ((pos, (data.bytes.drop os).take z) :: rest)

section
variable (d : Dict) (l : LenTy) (hd : Law d) (hfd : FrameLaw d) (hl : l.Law)
include hd hfd hl

theorem Chain.flexOK {os pos : Nat} {data : Slice} {items : List (Nat × Bytes)} (h : Chain d l os pos data items) :
    FlexOK d l os pos data := by
  induction h with
  | term hal hlen hr => exact FlexOK.term d l hl hd.align_pow2 _ _ _ hal hlen hr
  | last hal hlen hr hn h2 hv _ => exact FlexOK.last d l hl hd.align_pow2 _ _ _ hal hlen hr hn h2 hv
  | item hal hlen hr hn hmax h1 h2 hv _ _ ih => exact FlexOK.item d l hl hd.align_pow2 _ _ _ _ hal hlen hr hn hmax h1 h2 hv ih

/-- a chain that validates is a list of items -/
theorem Chain.of_valid (os : Nat) : ∀ f pos data, flexValidate d l os f pos data = .ok () → ∃ items, Chain d l os pos data items := by
  intro f
  induction f with
  | zero => intro pos data h; simp [flexValidate] at h
  | succ f ih =>
    intro pos data h
    obtain ⟨hal, hlen, step⟩ := flexValidate_inv d l os f pos data h
    cases step with
    | term hr => exact ⟨[], .term hal hlen hr⟩
    | last next hr hn hmax h2 hv =>
      subst hmax
      obtain ⟨ha, hm, hvu⟩ := validate_ok_iff.1 hv
      obtain ⟨z, hz, _⟩ := hfd.size_ok _ ha hm hvu
      exact ⟨_, .last hal hlen hr hn h2 hv hz⟩
    | item next hr hn hmax h1 h2 hv hrest =>
      obtain ⟨ha, hm, hvu⟩ := validate_ok_iff.1 hv
      obtain ⟨z, hz, _⟩ := hfd.size_ok _ ha hm hvu
      obtain ⟨rest, hc⟩ := ih _ _ hrest
      exact ⟨_, .item hal hlen hr hn hmax h1 h2 hv hz hc⟩
end

/-- `flexSlots` (the walk `truncate` / `pop` use) returns the slot offsets of the items -/
theorem Chain.slots (it : Ty) (d : Dict) (l : LenTy) (os : Nat) (hos : 0 < os) {pos : Nat} {data : Slice} {items : List (Nat × Bytes)}
    (h : Chain d l os pos data items) : ∀ fuel, data.len < fuel → flexSlots it l fuel pos data = .ok (items.map (·.1)) := by
  induction h with
  | term hal hlen hr =>
    intro fuel hf
    cases fuel with
    | zero => omega
    | succ k => simp [flexSlots, hr]
  | last hal hlen hr hn h2 hv _ =>
    intro fuel hf
    cases fuel with
    | zero => omega
    | succ k => simp [flexSlots, hr, hn]
  | @item pos data next z rest hal hlen hr hn hmax h1 h2 hv _ _ ih =>
    intro fuel hf
    cases fuel with
    | zero => omega
    | succ k =>
      have := ih k (by simp only [Slice.len_drop]; omega)
      simp [flexSlots, hr, hn, hmax, Slice.splitAt, h2, this]

theorem writeAt_split {bs x b' : Bytes} {off : Nat} (h : writeAt bs off x = .ok b') (n : Nat) (hn : n ≤ off) :
    b'.take n = bs.take n ∧ writeAt (bs.drop n) (off - n) x = .ok (b'.drop n) := by
  unfold writeAt at h
  split at h
  · rename_i hle
    simp only [Res.ok.injEq] at h
    subst h
    have hl : (bs.take off).length = off := by simp only [List.length_take]; omega
    constructor
    · rw [List.append_assoc, List.take_append_of_le_length (by omega), List.take_take, Nat.min_eq_left hn]
    · have hd1 : (bs.drop n).take (off - n) = (bs.take off).drop n := by rw [List.drop_take]
      have hd2 : (bs.drop n).drop (off - n + x.length) = bs.drop (off + x.length) := by
        rw [List.drop_drop]; congr 1; omega
      have hle2 : off - n + x.length ≤ (bs.drop n).length := by simp only [List.length_drop]; omega
      simp only [writeAt, hle2, if_true, Res.ok.injEq, hd1, hd2]
      rw [List.append_assoc, List.append_assoc, List.drop_append_of_le_length (by omega)]
  · cases h

section
variable (d : Dict) (l : LenTy) (hd : Law d) (hfd : FrameLaw d) (hl : l.Law)
include hd hfd hl

/-- **cutting the chain after item `n`** (`0 < n < len`): the slot of item `n-1` gets the `MAX` marker, and what remains is
exactly the first `n` items — same slots, same images. -/
theorem Chain.cut {pos : Nat} {data : Slice} {items : List (Nat × Bytes)}
    (h : Chain d l (max l.size d.align) pos data items) :
    ∀ n, 0 < n → n < items.length → ∃ q img, items[n - 1]? = some (q, img) ∧ pos ≤ q ∧ q - pos + l.size ≤ data.len ∧
      ∀ b', writeAt data.bytes (q - pos) (encLenTy l l.max) = .ok b' →
        Chain d l (max l.size d.align) pos ⟨data.addr, b'⟩ (items.take n) := by
  have hls : l.size ≤ max l.size d.align := Nat.le_max_left _ _
  induction h with
  | term hal hlen hr => intro n h0 hn; simp at hn
  | last hal hlen hr hn h2 hv _ => intro n h0 hn; simp at hn; omega
  | @item pos data next z rest hal hlen hr hn hmax h1 h2 hv hz hrest ih =>
    intro n h0 hnlt
    cases n with
    | zero => omega
    | succ k =>
      cases k with
      | zero =>
        -- this item becomes the last one
        refine ⟨pos, _, rfl, Nat.le_refl _, by omega, ?_⟩
        intro b' hb'
        rw [Nat.sub_self] at hb'
        have hb'l := writeAt_length hb'
        have hread := writeAt_read hb'
        simp only [List.drop_zero, encLenTy_length] at hread
        have hnlt' := readU_lt l data next hr
        have hmaxeq : l.max = 256 ^ l.size - 1 := rfl
        have hla : data.addr % l.align = 0 := mod_trans hal (Pow2.max_mod_left hl.align_pow2 hd.align_pow2)
        obtain ⟨hia, himin, hiv⟩ := validate_ok_iff.1 hv
        have hzle : z ≤ next - max l.size d.align := by
          obtain ⟨z', hz', hzle', _⟩ := hfd.size_ok _ hia himin hiv
          rw [hz] at hz'; cases hz'
          have h2' : next ≤ data.bytes.length := h2
          simpa [Slice.len, Slice.take, Slice.drop, Nat.min_eq_left h2'] using hzle'
        simp only [Slice.len] at h2 hlen
        have hloc := hfd.loc _ z hia himin hiv hz ⟨data.addr + max l.size d.align, b'.drop (max l.size d.align)⟩ rfl
          (by simp only [Slice.len, List.length_drop, hb'l]; omega)
          (by
            show (b'.drop (max l.size d.align)).take z = ((data.bytes.take next).drop (max l.size d.align)).take z
            rw [take_drop_take_eq _ _ _ _ (by omega)]
            exact writeAt_frame hb' _ _ (Or.inr (by rw [encLenTy_length]; omega)))
        have himg : (data.bytes.drop (max l.size d.align)).take z = (b'.drop (max l.size d.align)).take z :=
          (writeAt_frame hb' _ _ (Or.inr (by rw [encLenTy_length]; omega))).symm
        simp only [List.take_succ_cons, List.take_zero]
        rw [himg]
        exact Chain.last (z := z) hal (by simp only [Slice.len, hb'l]; omega)
          (readU_of_take l ⟨data.addr, b'⟩ l.max (lmax_lt l) hla hread) (by omega)
          (by simp only [Slice.len, hb'l]; omega)
          (validate_ok_iff.2 ⟨hia, by simp only [Slice.len, Slice.drop, List.length_drop, hb'l]; simp only [Slice.len, Slice.take, Slice.drop, List.length_drop, List.length_take] at himin; omega, hloc.1⟩)
          hloc.2
      | succ j =>
        obtain ⟨q, img, hq, hqge, hqlen, hcut⟩ := ih (j + 1) (by omega) (by simpa using hnlt)
        simp only [Slice.len_drop] at hqlen
        refine ⟨q, img, by simpa using hq, by omega, by omega, ?_⟩
        intro b' hb'
        have hb'l := writeAt_length hb'
        obtain ⟨htk, hdr⟩ := writeAt_split hb' next (by omega)
        have e : q - pos - next = q - (pos + next) := by omega
        rw [e] at hdr
        have hrest' := hcut _ hdr
        simp only [List.take_succ_cons]
        have himg : (data.bytes.drop (max l.size d.align)).take z = (b'.drop (max l.size d.align)).take z := by
          have hzle : z ≤ next - max l.size d.align := by
            obtain ⟨hia, himin, hiv⟩ := validate_ok_iff.1 hv
            obtain ⟨z', hz', hzle', _⟩ := hfd.size_ok _ hia himin hiv
            rw [hz] at hz'; cases hz'
            have h2' : next ≤ data.bytes.length := h2
            simpa [Slice.len, Slice.take, Slice.drop, Nat.min_eq_left h2'] using hzle'
          exact (drop_take_eq htk (by omega)).symm
        rw [himg]
        have htake : (⟨data.addr, b'⟩ : Slice).take next = data.take next := by
          simp only [Slice.take, htk]
        exact Chain.item (z := z) hal (by simp only [Slice.len, hb'l]; exact hlen)
          (by rw [← hr]; exact readU_congr l data ⟨data.addr, b'⟩ rfl hlen (by simp only [Slice.len, hb'l]; exact hlen)
                (take_take_eq htk (by omega)))
          hn hmax h1 (by simp only [Slice.len, hb'l]; exact h2)
          (by rw [htake]; exact hv) (by rw [htake]; exact hz) hrest'

/-- every chain starts with a readable slot -/
theorem Chain.slot_len {os pos : Nat} {data : Slice} {items : List (Nat × Bytes)} (h : Chain d l os pos data items) :
    l.size ≤ data.len ∧ data.addr % max l.align d.align = 0 := by
  cases h with
  | term hal hlen _ => exact ⟨hlen, hal⟩
  | last hal hlen _ _ _ _ _ => exact ⟨hlen, hal⟩
  | item hal hlen _ _ _ _ _ _ _ _ => exact ⟨hlen, hal⟩

/-- **`FlexVec::truncate(n)` keeps exactly the first `min(n, len)` items** (same slots, same item images), never faults,
and the result is again a chain — so it validates and re-maps to that sequence. `clear()` is `truncate(0)`. -/
theorem flexTruncate_spec (it : Ty) (n : Nat) (data : Slice) (items : List (Nat × Bytes))
    (h : Chain d l (max l.size d.align) 0 data items) :
    ∃ b', flexTruncate it l n data = .ok b' ∧ b'.length = data.len ∧
      Chain d l (max l.size d.align) 0 ⟨data.addr, b'⟩ (items.take n) := by
  have hls : l.size ≤ max l.size d.align := Nat.le_max_left _ _
  have hospos : 0 < max l.size d.align := Nat.lt_of_lt_of_le hl.size_pow2.pos hls
  have hslots := Chain.slots it d l _ hospos h (data.len + 1) (Nat.lt_succ_self _)
  obtain ⟨hlen, hal⟩ := Chain.slot_len d l hd hfd hl h
  simp only [flexTruncate, hslots, Res.bind_ok, List.length_map]
  by_cases hge : n ≥ items.length
  · simp only [hge, if_true]
    exact ⟨_, rfl, rfl, by rw [List.take_of_length_le hge]; exact h⟩
  · simp only [hge, if_false]
    by_cases hz : n = 0
    · subst hz
      simp only [if_true]
      obtain ⟨b', hb', hb'l⟩ := writeAt_ok (bs := data.bytes) (x := encLenTy l 0) (off := 0) (by rw [encLenTy_length]; simp only [Slice.len] at hlen; omega)
      have hread := writeAt_read hb'
      simp only [List.drop_zero, encLenTy_length] at hread
      refine ⟨b', hb', hb'l, ?_⟩
      exact Chain.term hal (by simp only [Slice.len, hb'l]; exact hlen)
        (readU_of_take l ⟨data.addr, b'⟩ 0 (Nat.pow_pos (by decide))
          (mod_trans hal (Pow2.max_mod_left hl.align_pow2 hd.align_pow2)) hread)
    · simp only [hz, if_false]
      obtain ⟨q, img, hq, _, hqlen, hcut⟩ := Chain.cut d l hd hfd hl h n (by omega) (by omega)
      have : (items.map (·.1))[n - 1]? = some q := by simp [List.getElem?_map, hq]
      simp only [this]
      obtain ⟨b', hb', hb'l⟩ := writeAt_ok (bs := data.bytes) (x := encLenTy l l.max) (off := q)
        (by rw [encLenTy_length]; simp only [Nat.sub_zero] at hqlen; exact hqlen)
      exact ⟨b', hb', hb'l, hcut b' (by rw [Nat.sub_zero]; exact hb')⟩

/-- **`FlexVec::pop()` removes exactly the last item**, or reports `Empty` on an empty vector and changes nothing. -/
theorem flexPop_spec (it : Ty) (data : Slice) (items : List (Nat × Bytes))
    (h : Chain d l (max l.size d.align) 0 data items) :
    ∃ b', flexPop it l data = .ok (b', !items.isEmpty) ∧ b'.length = data.len ∧
      Chain d l (max l.size d.align) 0 ⟨data.addr, b'⟩ items.dropLast := by
  have hls : l.size ≤ max l.size d.align := Nat.le_max_left _ _
  have hospos : 0 < max l.size d.align := Nat.lt_of_lt_of_le hl.size_pow2.pos hls
  have hslots := Chain.slots it d l _ hospos h (data.len + 1) (Nat.lt_succ_self _)
  simp only [flexPop, hslots, Res.bind_ok, List.length_map]
  cases items with
  | nil => exact ⟨data.bytes, by simp, rfl, h⟩
  | cons x xs =>
    obtain ⟨b', hb', hb'l, hc⟩ := flexTruncate_spec d l hd hfd hl it (xs.length) data (x :: xs) h
    refine ⟨b', by simp [hb'], hb'l, ?_⟩
    rw [List.dropLast_eq_take]
    simpa using hc
end

/-! ### `push` -/
theorem writeAt_drop_after {bs x b' : Bytes} {off : Nat} (h : writeAt bs off x = .ok b') (n : Nat) (hn : off + x.length ≤ n) :
    b'.drop n = bs.drop n := by
  unfold writeAt at h
  split at h
  · rename_i hle
    simp only [Res.ok.injEq] at h
    subst h
    have hl : (bs.take off ++ x).length = off + x.length := by simp only [List.length_append, List.length_take]; omega
    rw [List.drop_append, List.drop_of_length_le (by omega), List.nil_append, hl, List.drop_drop]
    congr 1; omega
  · cases h

theorem writeAt_take {bs x b' : Bytes} {off : Nat} (h : writeAt bs off x = .ok b') (n : Nat) (hn : off + x.length ≤ n) :
    writeAt (bs.take n) off x = .ok (b'.take n) := by
  unfold writeAt at h
  split at h
  · rename_i hle
    simp only [Res.ok.injEq] at h
    subst h
    have hl : (bs.take off ++ x).length = off + x.length := by simp only [List.length_append, List.length_take]; omega
    have hle2 : off + x.length ≤ (bs.take n).length := by simp only [List.length_take]; omega
    have e1 : (bs.take n).take off = bs.take off := by rw [List.take_take, Nat.min_eq_left (by omega)]
    have e2 : (bs.take n).drop (off + x.length) = (bs.drop (off + x.length)).take (n - (off + x.length)) := by rw [List.drop_take]
    have e3 : (bs.take off ++ x ++ bs.drop (off + x.length)).take n =
        bs.take off ++ x ++ (bs.drop (off + x.length)).take (n - (off + x.length)) := by
      have hn' : n = (bs.take off ++ x).length + (n - (off + x.length)) := by rw [hl]; omega
      conv => lhs; rw [hn']
      rw [List.take_append, List.take_of_length_le (Nat.le_add_right _ _), Nat.add_sub_cancel_left]
    simp only [writeAt, hle2, if_true, Res.ok.injEq, e1, e2, e3]
  · cases h

theorem writeAt_congr_take {a b x a' b' : Bytes} {off : Nat} (ha : writeAt a off x = .ok a') (hb : writeAt b off x = .ok b')
    (n : Nat) (hn : off + x.length ≤ n) (hab : a.take n = b.take n) : a'.take n = b'.take n := by
  have h1 := writeAt_take ha n hn
  have h2 := writeAt_take hb n hn
  rw [hab, h2] at h1
  simpa using h1.symm

theorem mod_of_add_mod {a n m : Nat} (h1 : (a + n) % m = 0) (h2 : a % m = 0) : n % m = 0 := by
  have := Nat.sub_mod_eq_zero_of_mod_eq (m := a + n) (n := a) (k := m) (by rw [h1, h2])
  simpa using this

/-- where the chain ends: after the terminating slot, or at the new slot when the last item carries the `MAX` marker -/
def PushWalk.endPos (os : Nat) (w : PushWalk) : Nat :=
  match w.sealing with
  | none => w.pos + os
  | some _ => w.pos

/-- what `FlexVec::push`'s walk finds at the end of a chain: where the new slot goes (and how the current last item will
be sealed), how any chain written there extends the sequence, and that bytes from the new slot's payload on do not matter -/
structure PushEnd (d : Dict) (l : LenTy) (os pos : Nat) (data : Slice) (items : List (Nat × Bytes)) (w : PushWalk) : Prop where
  ge : pos ≤ w.pos
  al : (w.pos - pos) % max l.align d.align = 0
  le : w.pos - pos ≤ data.len
  sealOk : match w.sealing with
    | none => True
    | some (q, _) => pos ≤ q ∧ q - pos + l.size ≤ w.pos - pos
  ext : ∀ (b' : Bytes) (tail : List (Nat × Bytes)), b'.length = data.len →
      (match w.sealing with
        | none => b'.take (w.pos - pos) = data.bytes.take (w.pos - pos)
        | some (q, lo) => ∃ bq, writeAt data.bytes (q - pos) (encLenTy l lo) = .ok bq ∧ b'.take (w.pos - pos) = bq.take (w.pos - pos)) →
      Chain d l os w.pos ⟨data.addr + (w.pos - pos), b'.drop (w.pos - pos)⟩ tail →
      Chain d l os pos ⟨data.addr, b'⟩ (items ++ tail)
  keep : ∀ (b' : Bytes), b'.length = data.len → w.pos - pos + os ≤ data.len →
      b'.take (w.pos - pos + os) = data.bytes.take (w.pos - pos + os) → Chain d l os pos ⟨data.addr, b'⟩ items
  /-- `size()` of the vector is where the walk ended -/
  size : ∀ f, data.len < f → flexSize d l os (max l.align d.align) f pos data = .ok (w.endPos os)

theorem pushWalk_spec (it : Ty) (l : LenTy) (hd : Law it.dict) (hfd : FrameLaw it.dict) (hl : l.Law)
    {pos : Nat} {data : Slice} {items : List (Nat × Bytes)}
    (h : Chain it.dict l (max l.size it.dict.align) pos data items) :
    (data.addr + data.len) % max l.align it.dict.align = 0 →
    ∀ fuel, data.len < fuel → ∃ r, pushWalk it l fuel pos data = .ok r ∧
      match r with
      | .error e => e.kind = .insufficientSize
      | .ok w => PushEnd it.dict l (max l.size it.dict.align) pos data items w := by
  have hls : l.size ≤ max l.size it.dict.align := Nat.le_max_left _ _
  have hpa := hd.align_pow2
  have hapos := (Pow2.of_max hl.align_pow2 hpa).pos
  have hosal := dataOffset_mod l hl it.dict.align hpa
  have hospos : 0 < max l.size it.dict.align := Nat.lt_of_lt_of_le hl.size_pow2.pos hls
  induction h with
  | @term pos data hal hlen hr =>
    intro hend fuel hf
    cases fuel with
    | zero => omega
    | succ k =>
      have hla : data.addr % l.align = 0 := mod_trans hal (Pow2.max_mod_left hl.align_pow2 hpa)
      have hck : checkAlignMin l.align l.size data = .ok () := checkAlignMin_ok.2 ⟨hla, hlen⟩
      refine ⟨.ok ⟨pos, none⟩, by simp [pushWalk, readSlot, hck, hr], ?_⟩
      exact {
        ge := Nat.le_refl _
        al := by simp
        le := by simp
        sealOk := trivial
        ext := by
          intro b' tail _ _ htail
          simpa [Nat.sub_self] using htail
        keep := by
          intro b' hbl _ htk
          simp only [Nat.sub_self, Nat.zero_add] at htk
          exact Chain.term hal (by simp only [Slice.len, hbl]; exact hlen)
            (by rw [← hr]; exact readU_congr l data ⟨data.addr, b'⟩ rfl hlen (by simp only [Slice.len, hbl]; exact hlen)
                  (take_take_eq htk hls))
        size := by
          intro f hf
          obtain ⟨g, rfl⟩ : ∃ g, f = g + 1 := ⟨f - 1, by omega⟩
          rw [flexSize_term it.dict l _ _ g pos data hr]; rfl }
  | @last pos data z hal hlen hr hn h2 hv hz =>
    intro hend fuel hf
    cases fuel with
    | zero => omega
    | succ k =>
      have hla : data.addr % l.align = 0 := mod_trans hal (Pow2.max_mod_left hl.align_pow2 hpa)
      have hck : checkAlignMin l.align l.size data = .ok () := checkAlignMin_ok.2 ⟨hla, hlen⟩
      obtain ⟨hia, himin, hiv⟩ := validate_ok_iff.1 hv
      obtain ⟨z', hz', hzle, _, hzmin⟩ := hfd.size_ok _ hia himin hiv
      rw [hz] at hz'; cases hz'
      have hz2 : it.dict.size (data.drop (max l.size it.dict.align)) = .ok z := hz
      simp only [Slice.len_drop] at hzle
      have hrem : (data.len - max l.size it.dict.align) % max l.align it.dict.align = 0 := by
        have : (data.addr + max l.size it.dict.align + (data.len - max l.size it.dict.align)) % max l.align it.dict.align = 0 := by
          have e : data.addr + max l.size it.dict.align + (data.len - max l.size it.dict.align) = data.addr + data.len := by omega
          rw [e]; exact hend
        exact mod_of_add_mod this (add_mod_zero hal hosal)
      have hceil := ceilMul_least hapos hrem hzle
      have hzc := le_ceilMul (x := z) hapos
      by_cases hlo : max l.size it.dict.align + ceilMul z (max l.align it.dict.align) < l.max
      · refine ⟨.ok ⟨pos + (max l.size it.dict.align + ceilMul z (max l.align it.dict.align)), some (pos, max l.size it.dict.align + ceilMul z (max l.align it.dict.align))⟩,
          by simp [pushWalk, readSlot, hck, hr, hn, Slice.splitAt, h2, hv, hz2, hlo], ?_⟩
        show PushEnd _ _ _ _ _ _ _
        generalize hlodef : max l.size it.dict.align + ceilMul z (max l.align it.dict.align) = lo at *
        have e0 : pos + lo - pos = lo := by omega
        have hdl : data.len = data.bytes.length := rfl
        exact {
          ge := by simp
          al := by simp only [e0]; rw [← hlodef]; exact add_mod_zero hosal (ceilMul_mod _ _)
          le := by simp only [e0, Slice.len]; omega
          sealOk := by simp only [e0, Nat.sub_self]; exact ⟨Nat.le_refl _, by omega⟩
          ext := by
            intro b' tail hbl hcond htail
            simp only [e0, Nat.sub_self] at hcond htail
            obtain ⟨bq, hbq, hbtk⟩ := hcond
            have hread := writeAt_read hbq
            simp only [List.drop_zero, encLenTy_length] at hread
            have himgeq : (b'.drop (max l.size it.dict.align)).take z = (data.bytes.drop (max l.size it.dict.align)).take z := by
              rw [drop_take_eq hbtk (by omega)]
              exact writeAt_frame hbq _ _ (Or.inr (by rw [encLenTy_length]; omega))
            have hloc := hfd.loc _ z hia himin hiv hz
              ⟨data.addr + max l.size it.dict.align, (b'.take lo).drop (max l.size it.dict.align)⟩ rfl
              (by simp only [Slice.len, List.length_drop, List.length_take, hbl]; omega)
              (by
                show ((b'.take lo).drop (max l.size it.dict.align)).take z = (data.bytes.drop (max l.size it.dict.align)).take z
                rw [take_drop_take_eq _ _ _ _ (by omega)]; exact himgeq)
            show Chain _ _ _ pos ⟨data.addr, b'⟩ ((pos, (data.bytes.drop (max l.size it.dict.align)).take z) :: tail)
            rw [← himgeq]
            exact Chain.item (z := z) (next := lo) hal (by simp only [Slice.len, hbl]; omega)
              (readU_of_take l ⟨data.addr, b'⟩ lo (Nat.lt_trans hlo (lmax_lt l)) hla
                (by show b'.take l.size = _; rw [take_take_eq hbtk (by omega), take_take_eq (a := bq) (b := bq) rfl (Nat.le_refl _)]; exact hread))
              (by omega) (by omega) (by omega) (by simp only [Slice.len, hbl]; omega)
              (validate_ok_iff.2 ⟨hia, by simp only [Slice.len, Slice.take, Slice.drop, List.length_drop, List.length_take, hbl]; omega, hloc.1⟩)
              hloc.2 htail
          keep := by
            intro b' hbl hroom htk
            simp only [e0] at hroom htk
            have hloc := hfd.loc _ z hia himin hiv hz
              ⟨data.addr + max l.size it.dict.align, b'.drop (max l.size it.dict.align)⟩ rfl
              (by simp only [Slice.len, List.length_drop, hbl]; omega)
              (by
                show (b'.drop (max l.size it.dict.align)).take z = (data.bytes.drop (max l.size it.dict.align)).take z
                exact drop_take_eq htk (by omega))
            have himgeq : (b'.drop (max l.size it.dict.align)).take z = (data.bytes.drop (max l.size it.dict.align)).take z :=
              drop_take_eq htk (by omega)
            rw [← himgeq]
            exact Chain.last (z := z) hal (by simp only [Slice.len, hbl]; omega)
              (by rw [← hr]; exact readU_congr l data ⟨data.addr, b'⟩ rfl hlen (by simp only [Slice.len, hbl]; omega) (take_take_eq htk (by omega)))
              hn (by simp only [Slice.len, hbl]; omega)
              (validate_ok_iff.2 ⟨hia, by simp only [Slice.len, Slice.drop, List.length_drop, hbl]; omega, hloc.1⟩) hloc.2
          size := by
            intro f hf
            obtain ⟨g, rfl⟩ : ∃ g, f = g + 1 := ⟨f - 1, by omega⟩
            rw [flexSize_last it.dict l _ _ g pos l.max data hr hn rfl h2 z hz2, ← hlodef]
            simp only [PushWalk.endPos, Nat.add_assoc] }
      · exact ⟨.error ⟨.insufficientSize, pos + (max l.size it.dict.align + ceilMul z (max l.align it.dict.align))⟩,
          by simp [pushWalk, readSlot, hck, hr, hn, Slice.splitAt, h2, hv, hz2, hlo], rfl⟩
  | @item pos data next z rest hal hlen hr hn hmax h1 h2 hv hz hrest ih =>
    intro hend fuel hf
    cases fuel with
    | zero => omega
    | succ k =>
      have hla : data.addr % l.align = 0 := mod_trans hal (Pow2.max_mod_left hl.align_pow2 hpa)
      have hck : checkAlignMin l.align l.size data = .ok () := checkAlignMin_ok.2 ⟨hla, hlen⟩
      have hdl : data.len = data.bytes.length := rfl
      have hnal : next % max l.align it.dict.align = 0 := by
        have := (Chain.slot_len it.dict l hd hfd hl hrest).2
        exact mod_of_add_mod this hal
      obtain ⟨r, hr', hspec⟩ := ih (by
        simp only [Slice.addr_drop, Slice.len_drop]
        have e : data.addr + next + (data.len - next) = data.addr + data.len := by omega
        rw [e]; exact hend) k (by simp only [Slice.len_drop]; omega)
      have hwalk : pushWalk it l (k + 1) pos data = .ok r := by
        simp [pushWalk, readSlot, hck, hr, hn, hmax, Slice.splitAt, h2, hr']
      refine ⟨r, hwalk, ?_⟩
      cases r with
      | error e => exact hspec
      | ok w =>
        have hp : PushEnd it.dict l (max l.size it.dict.align) (pos + next) (data.drop next) rest w := hspec
        show PushEnd _ _ _ _ _ _ _
        have hge := hp.ge
        have hle := hp.le
        simp only [Slice.len_drop] at hle
        have ek : w.pos - pos = next + (w.pos - (pos + next)) := by omega
        have hzle : z ≤ next - max l.size it.dict.align := by
          obtain ⟨hia, himin, hiv⟩ := validate_ok_iff.1 hv
          obtain ⟨z', hz', hzle', _⟩ := hfd.size_ok _ hia himin hiv
          rw [hz] at hz'; cases hz'
          have h2' : next ≤ data.bytes.length := h2
          simpa [Slice.len, Slice.take, Slice.drop, Nat.min_eq_left h2'] using hzle'
        -- rebuilding this item on a buffer that agrees with `data` below `next`
        have rebuild : ∀ (b' : Bytes) (tl : List (Nat × Bytes)), b'.length = data.len → b'.take next = data.bytes.take next →
            Chain it.dict l (max l.size it.dict.align) (pos + next) ⟨data.addr + next, b'.drop next⟩ tl →
            Chain it.dict l (max l.size it.dict.align) pos ⟨data.addr, b'⟩
              ((pos, (data.bytes.drop (max l.size it.dict.align)).take z) :: tl) := by
          intro b' tl hbl htk htl
          have himg : (data.bytes.drop (max l.size it.dict.align)).take z = (b'.drop (max l.size it.dict.align)).take z :=
            (drop_take_eq htk (by omega)).symm
          rw [himg]
          have htake : (⟨data.addr, b'⟩ : Slice).take next = data.take next := by simp only [Slice.take, htk]
          exact Chain.item (z := z) hal (by simp only [Slice.len, hbl]; exact hlen)
            (by rw [← hr]; exact readU_congr l data ⟨data.addr, b'⟩ rfl hlen (by simp only [Slice.len, hbl]; exact hlen)
                  (take_take_eq htk (by omega)))
            hn hmax h1 (by simp only [Slice.len, hbl]; exact h2)
            (by rw [htake]; exact hv) (by rw [htake]; exact hz) htl
        exact {
          ge := by omega
          al := by rw [ek]; exact add_mod_zero hnal hp.al
          le := by omega
          sealOk := by
            have := hp.sealOk
            cases hs : w.sealing with
            | none => trivial
            | some ql =>
              obtain ⟨q, lo⟩ := ql
              simp only [hs] at this ⊢
              omega
          ext := by
            intro b' tail hbl hcond htail
            have hcond' : (match w.sealing with
                | none => (b'.drop next).take (w.pos - (pos + next)) = (data.drop next).bytes.take (w.pos - (pos + next))
                | some (q, lo) => ∃ bq, writeAt (data.drop next).bytes (q - (pos + next)) (encLenTy l lo) = .ok bq ∧
                    (b'.drop next).take (w.pos - (pos + next)) = bq.take (w.pos - (pos + next))) ∧ b'.take next = data.bytes.take next := by
              have hso := hp.sealOk
              cases hs : w.sealing with
              | none =>
                simp only [hs] at hcond ⊢
                exact ⟨drop_take_eq hcond (by omega), take_take_eq hcond (by omega)⟩
              | some ql =>
                obtain ⟨q, lo⟩ := ql
                simp only [hs] at hcond hso ⊢
                obtain ⟨bq, hbq, hbtk⟩ := hcond
                obtain ⟨hq1, hq2⟩ := writeAt_split hbq next (by omega)
                have e : q - pos - next = q - (pos + next) := by omega
                rw [e] at hq2
                refine ⟨⟨bq.drop next, hq2, drop_take_eq hbtk (by omega)⟩, ?_⟩
                rw [take_take_eq hbtk (by omega : next ≤ w.pos - pos)]; exact hq1
            obtain ⟨hc1, hc2⟩ := hcond'
            have htail' : Chain it.dict l (max l.size it.dict.align) w.pos
                ⟨(data.drop next).addr + (w.pos - (pos + next)), (b'.drop next).drop (w.pos - (pos + next))⟩ tail := by
              have e1 : (data.drop next).addr + (w.pos - (pos + next)) = data.addr + (w.pos - pos) := by
                simp only [Slice.addr_drop]; omega
              have e2 : (b'.drop next).drop (w.pos - (pos + next)) = b'.drop (w.pos - pos) := by
                rw [List.drop_drop]; congr 1; omega
              rw [e1, e2]; exact htail
            have := hp.ext (b'.drop next) tail (by simp only [List.length_drop, Slice.len_drop, hbl]) hc1 htail'
            exact rebuild b' (rest ++ tail) hbl hc2 this
          keep := by
            intro b' hbl hroom htk
            have hk := hp.keep (b'.drop next) (by simp only [List.length_drop, Slice.len_drop, hbl])
              (by simp only [Slice.len_drop]; omega)
              (by
                show (b'.drop next).take _ = (data.bytes.drop next).take _
                exact drop_take_eq htk (by omega))
            exact rebuild b' rest hbl (take_take_eq htk (by omega)) hk
          size := by
            intro f hf
            obtain ⟨g, rfl⟩ : ∃ g, f = g + 1 := ⟨f - 1, by omega⟩
            rw [flexSize_item it.dict l _ _ g pos next data hr hn hmax h2]
            exact hp.size g (by simp only [Slice.len_drop]; omega) }

theorem lmax_ne_zero (l : LenTy) (hl : l.Law) : l.max ≠ 0 := by
  have hp := hl.size_pow2.pos
  have : 256 ^ 1 ≤ 256 ^ l.size := Nat.pow_le_pow_right (by decide) hp
  have : l.max = 256 ^ l.size - 1 := rfl
  omega

/-- what `push` needs from the item emplacer: the checked entry point's contract (`C15_emplace_total`) -/
def EmplaceSpec (t : Ty) (i : Init) : Prop :=
  ∀ s : Slice, ∃ o, emplace t i s = .ok o ∧ o.bytes.length = s.len ∧
    (o.res = .ok () → t.dict.validate ⟨s.addr, o.bytes⟩ = .ok ())

/-- **`FlexVec::push`**: never faults and keeps the length; on `Ok` the sequence is the old one with exactly one new item
appended (earlier slots and item images unchanged, the previous last item sealed with its real extent); on **any**
refusal — no room for a slot, no room for the item, the item's emplacer fails, the sealing offset is not representable —
the sequence is exactly the old one (C13): every observable derived from the chain is as before. -/
theorem flexPush_spec (it : Ty) (l : LenTy) (hd : Law it.dict) (hfd : FrameLaw it.dict) (hl : l.Law)
    (i : Init) (hemp : EmplaceSpec it i) (data : Slice) (items : List (Nat × Bytes))
    (h : Chain it.dict l (max l.size it.dict.align) 0 data items)
    (hend : data.len % max l.align it.dict.align = 0) :
    ∃ o, flexPush it l i data = .ok o ∧ o.bytes.length = data.len ∧
      (o.res = .ok () → ∃ p ob z,
        emplace it i ⟨data.addr + p + max l.size it.dict.align, data.bytes.drop (p + max l.size it.dict.align)⟩ = .ok ⟨ob, .ok ()⟩ ∧
        it.dict.sizeV ⟨data.addr + p + max l.size it.dict.align, ob⟩ = .ok z ∧
        Chain it.dict l (max l.size it.dict.align) 0 ⟨data.addr, o.bytes⟩ (items ++ [(p, ob.take z)])) ∧
      (∀ e, o.res = .error e → Chain it.dict l (max l.size it.dict.align) 0 ⟨data.addr, o.bytes⟩ items) := by
  have hls : l.size ≤ max l.size it.dict.align := Nat.le_max_left _ _
  have hpa := hd.align_pow2
  have hdl : data.len = data.bytes.length := rfl
  obtain ⟨_, hal⟩ := Chain.slot_len it.dict l hd hfd hl h
  have hself : Chain it.dict l (max l.size it.dict.align) 0 ⟨data.addr, data.bytes⟩ items := h
  obtain ⟨r, hr, hspec⟩ := pushWalk_spec it l hd hfd hl h (add_mod_zero hal hend) (data.len + 1) (Nat.lt_succ_self _)
  simp only [flexPush, hr, Res.bind_ok]
  cases r with
  | error e => exact ⟨_, rfl, rfl, (by intro hh; cases hh), fun _ _ => hself⟩
  | ok w =>
    have hp : PushEnd it.dict l (max l.size it.dict.align) 0 data items w := hspec
    have hle := hp.le
    have hwal := hp.al
    simp only [Nat.sub_zero] at hle hwal
    have hnl : ¬ data.len < w.pos := by omega
    simp only [hnl, if_false]
    by_cases hroom : data.len - w.pos < max l.size it.dict.align
    · simp only [hroom, if_true]
      exact ⟨_, rfl, rfl, (by intro hh; cases hh), fun _ _ => hself⟩
    · simp only [hroom, if_false]
      obtain ⟨o, ho, hol, hov⟩ := hemp ⟨data.addr + w.pos + max l.size it.dict.align, data.bytes.drop (w.pos + max l.size it.dict.align)⟩
      simp only [Slice.len, List.length_drop] at hol
      simp only [ho, Res.bind_ok]
      have hb1l : (data.bytes.take (w.pos + max l.size it.dict.align) ++ o.bytes).length = data.len := by
        simp only [List.length_append, List.length_take, hol]; omega
      have hb1t : (data.bytes.take (w.pos + max l.size it.dict.align) ++ o.bytes).take (w.pos + max l.size it.dict.align)
          = data.bytes.take (w.pos + max l.size it.dict.align) := by
        rw [List.take_left' (by simp only [List.length_take]; omega)]
      cases hres : o.res with
      | error e =>
        simp only []
        refine ⟨_, rfl, hb1l, (by intro hh; cases hh), fun _ _ => ?_⟩
        exact hp.keep _ hb1l (by simp only [Nat.sub_zero]; omega) (by simp only [Nat.sub_zero]; exact hb1t)
      | ok u =>
        simp only []
        have hval := hov hres
        obtain ⟨b2, hb2, hb2l⟩ := writeAt_ok (bs := data.bytes.take (w.pos + max l.size it.dict.align) ++ o.bytes)
          (x := encLenTy l l.max) (off := w.pos) (by rw [encLenTy_length, hb1l]; omega)
        rw [hb1l] at hb2l
        simp only [hb2, Res.bind_ok]
        have hb2t : b2.take w.pos = data.bytes.take w.pos := by
          have := writeAt_frame hb2 0 w.pos (Or.inl (by omega))
          simp only [List.drop_zero] at this
          rw [this]; exact take_take_eq hb1t (by omega)
        have hb2d : b2.drop (w.pos + max l.size it.dict.align) = o.bytes := by
          rw [writeAt_drop_after hb2 _ (by rw [encLenTy_length]; omega), List.drop_left' (by simp only [List.length_take]; omega)]
        -- the new item as a one-item chain at the new slot
        have newChain : ∀ b3 : Bytes, b3.length = data.len → b3.drop w.pos = b2.drop w.pos →
            ∃ z, it.dict.sizeV ⟨data.addr + w.pos + max l.size it.dict.align, o.bytes⟩ = .ok z ∧
              Chain it.dict l (max l.size it.dict.align) w.pos ⟨data.addr + (w.pos - 0), b3.drop (w.pos - 0)⟩ [(w.pos, o.bytes.take z)] := by
          intro b3 hb3l hb3d
          simp only [Nat.sub_zero]
          rw [hb3d]
          have hread := writeAt_read hb2
          rw [encLenTy_length] at hread
          have hwa : (data.addr + w.pos) % max l.align it.dict.align = 0 := add_mod_zero hal hwal
          have hvs : it.dict.validate ((⟨data.addr + w.pos, b2.drop w.pos⟩ : Slice).drop (max l.size it.dict.align)) = .ok () := by
            simp only [Slice.drop, List.drop_drop, hb2d]; exact hval
          obtain ⟨hia, himin, hiv⟩ := validate_ok_iff.1 hvs
          obtain ⟨z, hz, _⟩ := hfd.size_ok _ hia himin hiv
          have himg : ((b2.drop w.pos).drop (max l.size it.dict.align)).take z = o.bytes.take z := by rw [List.drop_drop, hb2d]
          have hz' : it.dict.sizeV ⟨data.addr + w.pos + max l.size it.dict.align, o.bytes⟩ = .ok z := by
            have := hz; simp only [Slice.drop, List.drop_drop, hb2d] at this; exact this
          refine ⟨z, hz', ?_⟩
          rw [← himg]
          exact Chain.last (z := z) hwa (by simp only [Slice.len, List.length_drop, hb2l]; omega)
            (readU_of_take l _ l.max (lmax_lt l) (mod_trans hwa (Pow2.max_mod_left hl.align_pow2 hpa)) hread)
            (lmax_ne_zero l hl) (by simp only [Slice.len, List.length_drop, hb2l]; omega) hvs hz
        have hso := hp.sealOk
        cases hs : w.sealing with
        | none =>
          simp only []
          obtain ⟨z, hz, hc⟩ := newChain b2 hb2l rfl
          have hemq : emplace it i ⟨data.addr + w.pos + max l.size it.dict.align, data.bytes.drop (w.pos + max l.size it.dict.align)⟩ = .ok ⟨o.bytes, .ok ()⟩ := by
            rw [ho]; cases o; simp only at hres; subst hres; rfl
          refine ⟨_, rfl, hb2l, fun _ => ⟨w.pos, o.bytes, z, hemq, hz, ?_⟩, (by intro e he; cases he)⟩
          exact hp.ext b2 _ hb2l (by simp only [hs, Nat.sub_zero]; exact hb2t) hc
        | some ql =>
          obtain ⟨q, lo⟩ := ql
          simp only [hs, Nat.sub_zero] at hso
          simp only []
          obtain ⟨b3, hb3, hb3l⟩ := writeAt_ok (bs := b2) (x := encLenTy l lo) (off := q) (by rw [encLenTy_length, hb2l]; omega)
          rw [hb2l] at hb3l
          simp only [hb3, Res.bind_ok]
          obtain ⟨bq, hbq, _⟩ := writeAt_ok (bs := data.bytes) (x := encLenTy l lo) (off := q) (by rw [encLenTy_length]; omega)
          obtain ⟨z, hz, hc⟩ := newChain b3 hb3l (writeAt_drop_after hb3 _ (by rw [encLenTy_length]; omega))
          have hemq : emplace it i ⟨data.addr + w.pos + max l.size it.dict.align, data.bytes.drop (w.pos + max l.size it.dict.align)⟩ = .ok ⟨o.bytes, .ok ()⟩ := by
            rw [ho]; cases o; simp only at hres; subst hres; rfl
          refine ⟨_, rfl, hb3l, fun _ => ⟨w.pos, o.bytes, z, hemq, hz, ?_⟩, (by intro e he; cases he)⟩
          exact hp.ext b3 _ hb3l (by
            simp only [hs, Nat.sub_zero]
            exact ⟨bq, hbq, writeAt_congr_take hb3 hbq w.pos (by rw [encLenTy_length]; omega) hb2t⟩) hc

/-- **a refused `push` leaves `size()` as it was** (whatever it scribbled into the spare room behind the chain) -/
theorem flexPush_refused_size (it : Ty) (l : LenTy) (hd : Law it.dict) (hfd : FrameLaw it.dict) (hl : l.Law)
    (i : Init) (hemp : EmplaceSpec it i) (data : Slice) (items : List (Nat × Bytes))
    (h : Chain it.dict l (max l.size it.dict.align) 0 data items)
    (hend : data.len % max l.align it.dict.align = 0) (o : EO) (ho : flexPush it l i data = .ok o) (e : Err)
    (hres : o.res = .error e) :
    ∀ f, data.len < f →
      flexSize it.dict l (max l.size it.dict.align) (max l.align it.dict.align) f 0 ⟨data.addr, o.bytes⟩ =
        flexSize it.dict l (max l.size it.dict.align) (max l.align it.dict.align) f 0 data := by
  have hls : l.size ≤ max l.size it.dict.align := Nat.le_max_left _ _
  have hpa := hd.align_pow2
  have hospos : 0 < max l.size it.dict.align := Nat.lt_of_lt_of_le hl.size_pow2.pos hls
  have hdl : data.len = data.bytes.length := rfl
  have hself : (⟨data.addr, data.bytes⟩ : Slice) = data := by cases data; rfl
  obtain ⟨_, hal⟩ := Chain.slot_len it.dict l hd hfd hl h
  obtain ⟨r, hr, hspec⟩ := pushWalk_spec it l hd hfd hl h (add_mod_zero hal hend) (data.len + 1) (Nat.lt_succ_self _)
  simp only [flexPush, hr, Res.bind_ok] at ho
  intro f hf
  cases r with
  | error e' =>
    simp only [Res.ok.injEq] at ho
    rw [← ho, hself]
  | ok w =>
    have hp : PushEnd it.dict l (max l.size it.dict.align) 0 data items w := hspec
    have hle := hp.le
    simp only [Nat.sub_zero] at hle
    have hnl : ¬ data.len < w.pos := by omega
    simp only [hnl, if_false] at ho
    by_cases hroom : data.len - w.pos < max l.size it.dict.align
    · simp only [hroom, if_true, Res.ok.injEq] at ho
      rw [← ho, hself]
    · simp only [hroom, if_false] at ho
      obtain ⟨oi, hoi, hol, _⟩ := hemp ⟨data.addr + w.pos + max l.size it.dict.align, data.bytes.drop (w.pos + max l.size it.dict.align)⟩
      simp only [Slice.len, List.length_drop] at hol
      simp only [hoi, Res.bind_ok] at ho
      have hb1l : (data.bytes.take (w.pos + max l.size it.dict.align) ++ oi.bytes).length = data.len := by
        simp only [List.length_append, List.length_take, hol]; omega
      have hb1t : (data.bytes.take (w.pos + max l.size it.dict.align) ++ oi.bytes).take (w.pos + max l.size it.dict.align)
          = data.bytes.take (w.pos + max l.size it.dict.align) := by
        rw [List.take_left' (by simp only [List.length_take]; omega)]
      cases hri : oi.res with
      | error e' =>
        rw [hri] at ho
        simp only [Res.ok.injEq] at ho
        rw [← ho]
        -- the size of a valid chain depends only on the bytes below its end, and those are untouched
        have hvalid := flexValidate_any_fuel it.dict l hl hpa _ hospos _ 0 data
          (Chain.flexOK it.dict l hd hfd hl h).choose_spec f hf
        obtain ⟨E, hE, _, _, _, hloc, _⟩ := flex_chain it.dict l hd hfd hl f 0 data hf hend hvalid
        have hsz := hp.size f hf
        rw [hE] at hsz
        have hEle : E ≤ w.pos + max l.size it.dict.align := by
          simp only [Res.ok.injEq, Nat.zero_add] at hsz
          rw [hsz]; unfold PushWalk.endPos; split <;> omega
        have := (hloc f 0 ⟨data.addr, data.bytes.take (w.pos + max l.size it.dict.align) ++ oi.bytes⟩ rfl
          (by simp only [Slice.len, hb1l]; exact hf) (by simp only [Slice.len, hb1l]; omega)
          (take_take_eq hb1t hEle)).2
        rw [this, hE]
      | ok u =>
        exfalso
        rw [hri] at ho
        simp only [] at ho
        cases hw1 : writeAt (data.bytes.take (w.pos + max l.size it.dict.align) ++ oi.bytes) w.pos (encLenTy l l.max) with
        | ok b2 =>
          simp only [hw1, Res.bind_ok] at ho
          cases hs : w.sealing with
          | none => simp only [hs, Res.ok.injEq] at ho; rw [← ho] at hres; cases hres
          | some ql =>
            obtain ⟨q, lo⟩ := ql
            simp only [hs] at ho
            cases hw2 : writeAt b2 q (encLenTy l lo) with
            | ok b3 => simp only [hw2, Res.bind_ok, Res.ok.injEq] at ho; rw [← ho] at hres; cases hres
            | err e' => rw [hw2] at ho; cases ho
            | fault f' => rw [hw2] at ho; cases ho
        | err e' => rw [hw1] at ho; cases ho
        | fault f' => rw [hw1] at ho; cases ho
end FV
