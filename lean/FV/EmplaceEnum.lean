import FV.EmplaceStruct
/-! Emplace theorems, part 4: generated `…Init` of an unsized enum (tag, then the chosen variant's field list). -/
namespace FV

theorem readU_of_take (l : LenTy) (s : Slice) (n : Nat) (hn : n < 256 ^ l.size) (hal : s.addr % l.align = 0)
    (hb : s.bytes.take l.size = encLenTy l n) : l.readU s = .ok n :=
  readU_of_prefix l s n hn hal (s.bytes.drop l.size) (by rw [← hb, List.take_append_drop])

/-- all-sized field list written by `writeFields` ⇒ it validates -/
theorem sizedFields_valid_of_written (ds : List Dict) (hl : ∀ d ∈ ds, Law d) (hf : ∀ d ∈ ds, FrameLaw d)
    (vals : List Bytes) (hv : ValsOk ds vals) (A : Nat) (hA : A % alignL ds = 0) (b1 : Bytes)
    (hel : ∀ (i : Nat) (d : Dict) (v : Bytes) (P : Nat), ds[i]? = some d → vals[i]? = some v → (posList ds 0)[i]? = some P →
      (b1.drop P).take d.ssize = v)
    (hmin : minSizeL ds 0 ≤ b1.length) : validateAll ds 0 ⟨A, b1⟩ = .ok () := by
  have hpos : ∀ d ∈ ds, 0 < d.align := fun d hd => (hl d hd).align_pow2.pos
  apply validateAll_intro ds 0 ⟨A, b1⟩ hpos (headAligned_zero _) (by simpa [Slice.len] using hmin)
  intro i d P hi hP
  rw [Nat.sub_zero]
  have hlt : i < ds.length := by
    rcases Nat.lt_or_ge i ds.length with h | h
    · exact h
    · rw [List.getElem?_eq_none h] at hi; cases hi
  have hvi : i < vals.length := by have := hv.1; omega
  have hvv : vals[i]? = some vals[i] := List.getElem?_eq_getElem hvi
  have hmem : d ∈ ds := List.mem_of_getElem? hi
  apply validImage_at d (hl d hmem) (hf d hmem) vals[i] (hv.2 i d _ hi hvv)
  · show (A + P) % d.align = 0
    exact add_mod_zero (mod_trans hA (alignL_mod _ hl d hmem)) (posList_mod ds 0 i P d (headAligned_zero _) hi hP)
  · exact hel i d _ P hi hvv hP

theorem uenum_valid_intro (tag : LenTy) (vs : List (List Dict)) (s : Slice) (dOff al : Nat)
    (hd : dOff = ceilMul tag.size (max tag.align (alignLL vs))) (ha : al = max tag.align (alignLL vs))
    (hlen : dOff ≤ s.len) (t : Nat) (hr : tag.readU s = .ok t) (hlt : t < vs.length)
    (hmin : varMinSize (vs.getD t []) ≤ floorMul (s.len - dOff) al)
    (hv : validateAll (vs.getD t []) 0 ((s.drop dOff).take (floorMul (s.len - dOff) al)) = .ok ()) :
    (uenumD tag vs).validateU s = .ok () := by
  subst hd ha
  simp only [uenumD, hr, Res.bind_eq, Res.bind_ok, hlt, if_true, Slice.dropU, hlen, Slice.len_drop, Slice.len_take]
  have hm : min (floorMul (s.len - ceilMul tag.size (max tag.align (alignLL vs))) (max tag.align (alignLL vs)))
      (s.len - ceilMul tag.size (max tag.align (alignLL vs)))
      = floorMul (s.len - ceilMul tag.size (max tag.align (alignLL vs))) (max tag.align (alignLL vs)) :=
    Nat.min_eq_left (floorMul_le _ _)
  rw [hm]
  have : ¬ floorMul (s.len - ceilMul tag.size (max tag.align (alignLL vs))) (max tag.align (alignLL vs)) < varMinSize (vs.getD t []) := by omega
  simp only [this, if_false, hv, Res.offset_ok]

theorem lastPos_append : ∀ (ds : List Dict) (last : Dict) (pos : Nat), (∀ x ∈ ds ++ [last], 0 < x.align) →
    HeadAligned (ds ++ [last]) pos → lastPos (ds ++ [last]) pos = ceilMul (foldSize ds pos) last.align := by
  intro ds
  induction ds with
  | nil =>
    intro last pos hp hh
    simp only [List.nil_append, lastPos, foldSize]
    rw [ceilMul_of_mod (hp last (by simp)) (by simpa [HeadAligned] using hh)]
  | cons d ds ih =>
    intro last pos hp hh
    have hcm : ceilMul pos d.align = pos := ceilMul_of_mod (hp d (by simp)) (by simpa [HeadAligned] using hh)
    cases ds with
    | nil => simp [lastPos, foldSize, hcm]
    | cons d' ds' =>
      simp only [List.cons_append, lastPos]
      have := ih last (ceilMul (pos + d.ssize) d'.align) (fun x hx => hp x (by simp at hx ⊢; right; exact hx))
        (by simp only [List.cons_append, HeadAligned]; exact ceilMul_mod _ _)
      simp only [List.cons_append] at this
      rw [this, foldSize_ceil_head d' ds' _ (hp d' (by simp))]
      simp only [foldSize, hcm]

theorem dictL_append : ∀ (a b : List Ty), dictL (a ++ b) = dictL a ++ dictL b := by
  intro a; induction a with
  | nil => intro b; rfl
  | cons t ts ih => intro b; simp [dictL, ih]

theorem dictLL_length : ∀ vs : List (List Ty), (dictLL vs).length = vs.length := by
  intro vs; induction vs with
  | nil => rfl
  | cons v vs ih => simp [dictLL, ih]

theorem dictLL_getD : ∀ (vs : List (List Ty)) (i : Nat), (dictLL vs).getD i [] = dictL (vs.getD i []) := by
  intro vs; induction vs with
  | nil => intro i; simp [dictLL, dictL]
  | cons v vs ih =>
    intro i
    cases i with
    | zero => simp [dictLL]
    | succ i => simpa [dictLL] using ih i

/-- tag and data part put together -/
theorem uenum_wrap (tag : LenTy) (dvs : List (List Dict)) (addr : Nat) (bytes b0 data' : Bytes)
    (idx : Nat) (hidx : idx < dvs.length) (hrep : idx < 256 ^ tag.size) (al dOff n : Nat)
    (hal_def : al = max tag.align (alignLL dvs)) (hd : dOff = ceilMul tag.size al) (hapos : 0 < al) (hge : dOff ≤ bytes.length)
    (hn : n = floorMul (bytes.length - dOff) al) (hta : addr % tag.align = 0)
    (hb0 : writeAt bytes 0 (encLenTy tag idx) = .ok b0) (hdl : data'.length = n)
    (hmin : varMinSize (dvs.getD idx []) ≤ n)
    (hv : validateAll (dvs.getD idx []) 0 ⟨addr + dOff, data'⟩ = .ok ()) :
    (b0.take dOff ++ data' ++ b0.drop (dOff + n)).length = bytes.length ∧
      (uenumD tag dvs).validateU ⟨addr, b0.take dOff ++ data' ++ b0.drop (dOff + n)⟩ = .ok () := by
  have hb0l := writeAt_length hb0
  have hnle : n ≤ bytes.length - dOff := by rw [hn]; exact floorMul_le _ _
  have htd : tag.size ≤ dOff := by rw [hd]; exact le_ceilMul hapos
  have hRl : (b0.take dOff ++ data' ++ b0.drop (dOff + n)).length = bytes.length := by
    simp only [List.length_append, List.length_take, List.length_drop, hdl, hb0l]; omega
  refine ⟨hRl, ?_⟩
  have hread := writeAt_read hb0
  simp only [List.drop_zero, encLenTy_length] at hread
  have hr : tag.readU ⟨addr, b0.take dOff ++ data' ++ b0.drop (dOff + n)⟩ = .ok idx := by
    apply readU_of_take tag _ idx hrep hta
    show (b0.take dOff ++ data' ++ b0.drop (dOff + n)).take tag.size = _
    rw [List.append_assoc, List.take_append_of_le_length (by simp only [List.length_take]; omega), List.take_take,
      Nat.min_eq_left htd, hread]
  apply uenum_valid_intro tag dvs _ dOff al (by rw [hd, hal_def]) hal_def (by simp only [Slice.len, hRl]; exact hge) idx hr hidx
  · simp only [Slice.len, hRl, ← hn]; exact hmin
  · simp only [Slice.len, hRl, ← hn, Slice.drop, Slice.take]
    rw [List.append_assoc, List.drop_left' (by simp only [List.length_take]; omega), List.take_left' hdl]
    exact hv

theorem checkAlignMin_err_kind {al mn : Nat} {s : Slice} {e : Err} (h : checkAlignMin al mn s = .err e) :
    e.kind = .insufficientSize ∨ e.kind = .badAlign := by
  unfold checkAlignMin at h
  split at h
  · cases h; exact Or.inr rfl
  · split at h
    · cases h; exact Or.inl rfl
    · cases h

/-- arithmetic and alignment facts shared by the enum cases -/
theorem uenum_geometry (tag : LenTy) (ht : tag.Law) (dvs : List (List Dict)) (hl : ∀ v ∈ dvs, ∀ d ∈ v, Law d)
    (addr len : Nat) (hal : addr % max tag.align (alignLL dvs) = 0)
    (hlen : ceilMul (ceilMul tag.size (max tag.align (alignLL dvs)) + minList (dvs.map varMinSize)) (max tag.align (alignLL dvs)) ≤ len) :
    0 < max tag.align (alignLL dvs) ∧ ceilMul tag.size (max tag.align (alignLL dvs)) ≤ len ∧
      tag.size ≤ ceilMul tag.size (max tag.align (alignLL dvs)) ∧ addr % tag.align = 0 ∧
      ∀ v ∈ dvs, (addr + ceilMul tag.size (max tag.align (alignLL dvs))) % alignL v = 0 := by
  have hpll := alignLL_pow2 dvs hl
  have hpa : Pow2 (max tag.align (alignLL dvs)) := Pow2.of_max ht.align_pow2 hpll
  have hapos := hpa.pos
  have h1 := le_ceilMul (x := ceilMul tag.size (max tag.align (alignLL dvs)) + minList (dvs.map varMinSize)) hapos
  refine ⟨hapos, by omega, le_ceilMul hapos, mod_trans hal (Pow2.max_mod_left ht.align_pow2 hpll), ?_⟩
  intro v hv
  have hvp := alignL_pow2 v (hl v hv)
  have hle : alignL v ≤ alignLL dvs := by
    clear hal hlen h1 hpa hapos hpll
    induction dvs with
    | nil => simp at hv
    | cons v0 vs ih =>
      simp only [alignLL]
      rcases List.mem_cons.1 hv with rfl | hm
      · exact Nat.le_max_left _ _
      · exact Nat.le_trans (ih (fun x hx => hl x (by simp [hx])) hm) (Nat.le_max_right _ _)
  have hm : max tag.align (alignLL dvs) % alignL v = 0 :=
    mod_trans (Pow2.max_mod_right ht.align_pow2 hpll) (hvp.mod_of_le hpll hle)
  exact add_mod_zero (mod_trans hal hm) (mod_trans (ceilMul_mod _ _) hm)

/-- **generated `…Init` of an unsized enum, variant with sized fields only (or none)** -/
theorem emplace_uenum_none (tag : LenTy) (ht : tag.Law) (vs : List (List Ty))
    (hl : ∀ v ∈ dictLL vs, ∀ d ∈ v, Law d) (hf : ∀ v ∈ dictLL vs, ∀ d ∈ v, FrameLaw d)
    (idx : Nat) (hidx : idx < vs.length) (hrep : idx < 256 ^ tag.size) (vals : List Bytes)
    (hs : AllSized (dictL (vs.getD idx []))) (hv : ValsOk (dictL (vs.getD idx [])) vals) :
    EmpSpec (.uenum tag vs) (.uenum idx vals none) := by
  intro s hal hlen
  obtain ⟨addr, bytes⟩ := s
  simp only [Ty.dict, uenumD, Slice.len] at hal hlen
  obtain ⟨hapos, hge, htd, hta, hva⟩ := uenum_geometry tag ht (dictLL vs) hl addr bytes.length hal hlen
  have hidx' : idx < (dictLL vs).length := by rw [dictLL_length]; exact hidx
  have hmem : (dictLL vs).getD idx [] ∈ dictLL vs := getD_mem _ _ _ hidx'
  obtain ⟨b0, hb0, hb0l⟩ := writeAt_ok (bs := bytes) (x := encLenTy tag idx) (off := 0) (by rw [encLenTy_length]; omega)
  have hnl : ¬ bytes.length < ceilMul tag.size (max tag.align (alignLL (dictLL vs))) := by omega
  simp only [emplaceU, Slice.len, hnl, if_false, hb0, Res.bind_ok]
  rw [dictLL_getD] at hmem ⊢
  generalize hv_def : dictL (vs.getD idx []) = v at *
  generalize hal_def : max tag.align (alignLL (dictLL vs)) = al at *
  generalize hd_def : ceilMul tag.size al = dOff at *
  generalize hn_def : floorMul (bytes.length - dOff) al = n at *
  have hnle : n ≤ bytes.length - dOff := by rw [← hn_def]; exact floorMul_le _ _
  cases v with
  | nil =>
    simp only [List.isEmpty_nil, if_true]
    refine ⟨_, rfl, hb0l, ?_, by intro e he; cases he⟩
    intro _
    have hread := writeAt_read hb0
    simp only [List.drop_zero, encLenTy_length] at hread
    have hr : tag.readU ⟨addr, b0⟩ = .ok idx := readU_of_take tag _ idx hrep hta hread
    subst hd_def hal_def
    apply uenum_valid_intro tag (dictLL vs) ⟨addr, b0⟩ _ _ rfl rfl (by simp only [Slice.len, hb0l]; exact hge) idx hr hidx'
    · rw [dictLL_getD, hv_def]; simp [varMinSize]
    · rw [dictLL_getD, hv_def]; rfl
  | cons d0 v0 =>
    simp only [List.isEmpty_cons, Bool.false_eq_true, if_false]
    cases hck : checkAlignMin (alignL (d0 :: v0)) (minSizeL (d0 :: v0) 0) (Slice.take (Slice.drop ⟨addr, bytes⟩ dOff) n) with
    | fault f => have := checkAlignMin_noFault (alignL (d0 :: v0)) (minSizeL (d0 :: v0) 0) (Slice.take (Slice.drop ⟨addr, bytes⟩ dOff) n); rw [hck] at this; exact absurd this (by simp)
    | err e =>
      refine ⟨_, rfl, rfl, (by intro h; cases h), ?_⟩
      intro e' he'
      cases he'
      exact checkAlignMin_err_kind (e := e) hck
    | ok u =>
      obtain ⟨_, hmin⟩ := checkAlignMin_ok.1 hck
      simp only [Slice.len, Slice.take, Slice.drop, List.length_take, List.length_drop] at hmin
      have hdl : ((b0.drop dOff).take n).length = n := by simp only [List.length_take, List.length_drop, hb0l]; omega
      have hlv := hl _ hmem
      have hfv := hf _ hmem
      have hfold := minSizeL_eq_foldSize (d0 :: v0) hlv hs 0
      obtain ⟨b1, hb1, hb1l, _, _, hel⟩ := writeFields_spec (d0 :: v0) vals 0 ((b0.drop dOff).take n)
        (fun d hd => (hlv d hd).align_pow2.pos) (headAligned_zero _) hv.1 hv.len (by rw [hdl, ← hfold]; omega)
      rw [hdl] at hb1l
      simp only [hb1, Res.bind_ok]
      have hvalid := sizedFields_valid_of_written (d0 :: v0) hlv hfv vals hv (addr + dOff) (hva _ hmem) b1 hel (by rw [hb1l]; omega)
      obtain ⟨hRl, hRv⟩ := uenum_wrap tag (dictLL vs) addr bytes b0 b1 idx hidx' hrep al dOff n hal_def.symm hd_def.symm hapos hge hn_def.symm hta hb0 hb1l
        (by rw [dictLL_getD, hv_def]; simp only [varMinSize, List.isEmpty_cons, Bool.false_eq_true, if_false]; omega)
        (by rw [dictLL_getD, hv_def]; exact hvalid)
      exact ⟨_, rfl, hRl, fun _ => hRv, by intro e he; cases he⟩

/-- **generated `…Init` of an unsized enum, variant whose last field is unsized** -/
theorem emplace_uenum_some (tag : LenTy) (ht : tag.Law) (vs : List (List Ty))
    (hl : ∀ v ∈ dictLL vs, ∀ d ∈ v, Law d) (hf : ∀ v ∈ dictLL vs, ∀ d ∈ v, FrameLaw d)
    (idx : Nat) (hidx : idx < vs.length) (hrep : idx < 256 ^ tag.size) (vals : List Bytes)
    (pre : List Ty) (lt : Ty) (hvar : vs.getD idx [] = pre ++ [lt])
    (hs : AllSized (dictL pre)) (hv : ValsOk (dictL pre) vals) (lasti : Init) (hrec : EmpSpec lt lasti) :
    EmpSpec (.uenum tag vs) (.uenum idx vals (some lasti)) := by
  intro s hal hlen
  obtain ⟨addr, bytes⟩ := s
  simp only [Ty.dict, uenumD, Slice.len] at hal hlen
  obtain ⟨hapos, hge, htd, hta, hva⟩ := uenum_geometry tag ht (dictLL vs) hl addr bytes.length hal hlen
  have hidx' : idx < (dictLL vs).length := by rw [dictLL_length]; exact hidx
  have hmem : (dictLL vs).getD idx [] ∈ dictLL vs := getD_mem _ _ _ hidx'
  obtain ⟨b0, hb0, hb0l⟩ := writeAt_ok (bs := bytes) (x := encLenTy tag idx) (off := 0) (by rw [encLenTy_length]; omega)
  have hnl : ¬ bytes.length < ceilMul tag.size (max tag.align (alignLL (dictLL vs))) := by omega
  simp only [emplaceU, Slice.len, hnl, if_false, hb0, Res.bind_ok]
  rw [dictLL_getD, hvar, dictL_append] at hmem
  rw [dictLL_getD, hvar, dictL_append]
  simp only [dictL] at hmem ⊢
  have hlv := hl _ hmem
  have hfv := hf _ hmem
  have hlpre : ∀ d ∈ dictL pre, Law d := fun d hd => hlv d (by simp [hd])
  have hfpre : ∀ d ∈ dictL pre, FrameLaw d := fun d hd => hfv d (by simp [hd])
  have hllt : Law lt.dict := hlv _ (by simp)
  have hposv : ∀ x ∈ dictL pre ++ [lt.dict], 0 < x.align := fun x hx => (hlv x hx).align_pow2.pos
  have hms := minSizeL_append (dictL pre) lt.dict hlpre hs 0
  have hlp := lastPos_append (dictL pre) lt.dict 0 hposv (headAligned_zero _)
  have h4 := le_ceilMul (x := foldSize (dictL pre) 0) hllt.align_pow2.pos
  have hltmod : alignL (dictL pre ++ [lt.dict]) % lt.dict.align = 0 := alignL_mod _ hlv lt.dict (by simp)
  have hlfomod := ceilMul_mod (foldSize (dictL pre) 0) lt.dict.align
  have hvA := hva _ hmem
  have hne : (dictL pre ++ [lt.dict]).isEmpty = false := by cases dictL pre <;> rfl
  have hvmin : varMinSize (dictL pre ++ [lt.dict]) = minSizeL (dictL pre ++ [lt.dict]) 0 := by simp [varMinSize, hne]
  have hgetD : (dictLL vs).getD idx [] = dictL pre ++ [lt.dict] := by rw [dictLL_getD, hvar, dictL_append]; rfl
  simp only [hne, Bool.false_eq_true, if_false, List.dropLast_concat, List.getLast?_concat, hlp]
  generalize hal_def : max tag.align (alignLL (dictLL vs)) = al at *
  generalize hd_def : ceilMul tag.size al = dOff at *
  generalize hn_def : floorMul (bytes.length - dOff) al = n at *
  generalize hlfo_def : ceilMul (foldSize (dictL pre) 0) lt.dict.align = lpos at *
  have hnle : n ≤ bytes.length - dOff := by rw [← hn_def]; exact floorMul_le _ _
  cases hck : checkAlignMin (alignL (dictL pre ++ [lt.dict])) (minSizeL (dictL pre ++ [lt.dict]) 0) (Slice.take (Slice.drop ⟨addr, bytes⟩ dOff) n) with
  | fault f => have := checkAlignMin_noFault (alignL (dictL pre ++ [lt.dict])) (minSizeL (dictL pre ++ [lt.dict]) 0) (Slice.take (Slice.drop ⟨addr, bytes⟩ dOff) n); rw [hck] at this; exact absurd this (by simp)
  | err e =>
    refine ⟨_, rfl, rfl, (by intro h; cases h), ?_⟩
    intro e' he'
    cases he'
    exact checkAlignMin_err_kind (e := e) hck
  | ok u =>
    obtain ⟨_, hmin⟩ := checkAlignMin_ok.1 hck
    simp only [Slice.len, Slice.take, Slice.drop, List.length_take, List.length_drop] at hmin
    have hdl : ((b0.drop dOff).take n).length = n := by simp only [List.length_take, List.length_drop, hb0l]; omega
    obtain ⟨b1, hb1, hb1l, _, _, hel⟩ := writeFields_spec (dictL pre) vals 0 ((b0.drop dOff).take n)
      (fun d hd => (hlpre d hd).align_pow2.pos) (headAligned_zero _) hv.1 hv.len (by rw [hdl]; omega)
    rw [hdl] at hb1l
    have hw : (if (dictL pre).isEmpty then Res.ok ((b0.drop dOff).take n) else writeFields (dictL pre) vals 0 ((b0.drop dOff).take n)) = .ok b1 := by
      cases hds : dictL pre with
      | nil => rw [hds] at hb1; simpa [writeFields] using hb1
      | cons d ds => rw [hds] at hb1; simpa using hb1
    obtain ⟨o, ho, hok⟩ := hrec ⟨addr + dOff + lpos, b1.drop lpos⟩ (add_mod_zero (mod_trans hvA hltmod) hlfomod)
      (by simp only [Slice.len, List.length_drop]; omega)
    have hol : o.bytes.length = n - lpos := by
      have := hok.len; simpa [Slice.len, hb1l] using this
    simp only [hw, Res.bind_ok, ho]
    have hRl : (b1.take lpos ++ o.bytes).length = n := by
      simp only [List.length_append, List.length_take, hol, hb1l]; omega
    have hwrap := fun (hres : o.res = .ok ()) => uenum_wrap tag (dictLL vs) addr bytes b0 (b1.take lpos ++ o.bytes) idx hidx' hrep al dOff n hal_def.symm hd_def.symm hapos hge hn_def.symm hta hb0 hRl
      (by rw [hgetD, hvmin]; omega)
      (by
        rw [hgetD]; subst hlfo_def
        apply fields_valid_of_written (dictL pre) lt.dict hlpre hfpre hs hllt vals hv (addr + dOff) hvA b1 _ hel
        · rw [List.take_append_of_le_length (by simp only [List.length_take]; omega), List.take_take, Nat.min_eq_left h4]
        · rw [hRl]; omega
        · rw [List.drop_left' (by simp only [List.length_take]; omega)]
          exact hok.valid hres)
    refine ⟨_, rfl, ?_, ?_, ?_⟩
    · simp only [Slice.len, List.length_append, List.length_take, List.length_drop, hol, hb1l, hb0l]; omega
    · intro hres
      have hres' : o.res = .ok () := by
        cases hr : o.res with
        | ok u => rfl
        | error e => simp only [hr, Except.mapError] at hres; cases hres
      exact (hwrap hres').2
    · intro e he
      cases hr : o.res with
      | ok u => simp only [hr, Except.mapError] at he; cases he
      | error e0 =>
        simp only [hr, Except.mapError, Except.error.injEq] at he
        rw [← he]
        exact hok.kinds e0 hr
end FV
