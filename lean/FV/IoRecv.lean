import FV.C05C06
/-! Blocking receiver (`io/src/blocking/recv.rs`, `io/src/blocking/io.rs`, `io/src/common/io.rs`) over a scripted pipe. -/
namespace FV

/-- outcome of one `pipe.read(vacant)` call -/
inductive ReadEv | deliver (n : Nat) | fail (k : Nat)
deriving Repr, DecidableEq

/-- `Buffer`: `start` bytes precede the occupied bytes `occ`; `base` is the (aligned) address of index 0 -/
structure RBuf where
  base : Nat
  cap : Nat
  start : Nat
  occ : Bytes
deriving Repr

def RBuf.slice (b : RBuf) : Slice := ⟨b.base + b.start, b.occ⟩

inductive RecvOut | msg (bytes : Bytes) | parse (e : Err) | readErr (k : Nat) | oom | closed | blocked | fault
deriving Repr, DecidableEq

/-- `ReadBuffer::read`: compaction / OutOfMemory, then one pipe call -/
inductive ReadRes | got (b : RBuf) (rest : Bytes) (n : Nat) | err (b : RBuf) (k : Nat) | oom

def readStep (b : RBuf) (ev : ReadEv) (rest : Bytes) : ReadRes :=
  if b.start + b.occ.length = b.cap ∧ b.start = 0 then .oom
  else
    let b1 := if b.start + b.occ.length = b.cap then { b with start := 0 } else b
    match ev with
    | .fail k => .err b1 k
    | .deliver c =>
      let n := min (min c (b1.cap - (b1.start + b1.occ.length))) rest.length
      .got { b1 with occ := b1.occ ++ rest.take n } (rest.drop n) n

/-- `Receiver::recv`: validate what has arrived, read more on `InsufficientSize`. Recursion on the script. -/
def recv (d : Dict) : List ReadEv → RBuf → Bytes → RecvOut × RBuf × Bytes × List ReadEv
  | evs, b, rest =>
    match d.validate b.slice with
    | .ok () => (.msg b.occ, b, rest, evs)          -- guard handed out (its bytes are the occupied ones)
    | .fault _ => (.fault, b, rest, evs)
    | .err e =>
      if e.kind ≠ .insufficientSize then (.parse e, b, rest, evs)
      else match evs with
        | [] => (.blocked, b, rest, [])
        | ev :: evs' =>
          match readStep b ev rest with
          | .oom => (.oom, b, rest, ev :: evs')   -- the pipe is not called
          | .err b1 k => (.readErr k, b1, rest, evs')
          | .got b1 rest1 n => if n = 0 then (.closed, b1, rest1, evs') else recv d evs' b1 rest1

/-- dropping the guard: `skip(size())`, with `Buffer::skip`'s assertion as a fault -/
def dropGuard (d : Dict) (b : RBuf) : Option RBuf :=
  match d.size b.slice with
  | .ok z =>
    if z ≤ b.occ.length then
      let occ' := b.occ.drop z
      some (if occ'.isEmpty then { b with start := 0, occ := [] } else { b with start := b.start + z, occ := occ' })
    else none
  | _ => none

/-- what the receiver needs to know about one message `m` of type `d` -/
structure IsMsg (d : Dict) (m : Bytes) : Prop where
  pos : 0 < m.length
  mult : m.length % d.align = 0
  pre : ∀ a k, a % d.align = 0 → k < m.length → Insuff (d.validate ⟨a, m.take k⟩)
  whole : ∀ a sfx, a % d.align = 0 → d.validate ⟨a, m ++ sfx⟩ = .ok () ∧ d.size ⟨a, m ++ sfx⟩ = .ok m.length

def Covers (evs : List ReadEv) (n : Nat) : Prop := n ≤ evs.length ∧ ∀ ev ∈ evs, ∃ c, ev = .deliver c ∧ 0 < c

theorem covers_mono {evs : List ReadEv} {n k : Nat} (h : Covers evs n) (hk : k ≤ n) : Covers evs k :=
  ⟨Nat.le_trans hk h.1, h.2⟩

theorem take_append_of_le {m occ rest tail : Bytes} (heq : occ ++ rest = m ++ tail) (h : m.length ≤ occ.length) :
    occ = m ++ occ.drop m.length ∧ occ.drop m.length ++ rest = tail := by
  have h1 : (occ ++ rest).take m.length = m := by rw [heq]; simp
  have h2 : occ.take m.length = m := by
    rw [List.take_append_of_le_length h] at h1; exact h1
  have h3 : (occ ++ rest).drop m.length = tail := by rw [heq]; simp
  constructor
  · conv => lhs; rw [← List.take_append_drop m.length occ, h2]
  · rw [List.drop_append_of_le_length h] at h3; exact h3

theorem prefix_of_lt {m occ rest tail : Bytes} (heq : occ ++ rest = m ++ tail) (h : occ.length < m.length) :
    occ = m.take occ.length ∧ 0 < rest.length := by
  have h1 : (occ ++ rest).take occ.length = occ := by simp
  rw [heq, List.take_append_of_le_length (by omega)] at h1
  refine ⟨h1.symm, ?_⟩
  have : (occ ++ rest).length = (m ++ tail).length := by rw [heq]
  simp at this; omega

/-- buffer invariant -/
structure RInv (d : Dict) (b : RBuf) : Prop where
  base_al : b.base % d.align = 0
  start_al : b.start % d.align = 0
  within : b.start + b.occ.length ≤ b.cap

theorem RInv.slice_al {d : Dict} {b : RBuf} (h : RInv d b) : b.slice.addr % d.align = 0 :=
  add_mod_zero h.base_al h.start_al

/-- **Head lemma.** From any window holding a prefix of `m ++ tail` (the rest still in the pipe), under any
script of positive chunk sizes that is long enough, `recv` hands out a guard whose `size()` is `|m|`, whose first
`|m|` bytes are `m`, never reports OOM (capacity ≥ 2·|m|), and the stream stays split between window and pipe. -/
theorem recv_head (d : Dict) (m : Bytes) (hm : IsMsg d m) :
    ∀ (evs : List ReadEv) (b : RBuf) (rest tail : Bytes), RInv d b → 2 * m.length ≤ b.cap →
      b.occ ++ rest = m ++ tail → Covers evs (m.length - b.occ.length) →
      ∃ b' rest' evs', recv d evs b rest = (.msg b'.occ, b', rest', evs') ∧ RInv d b' ∧ b'.cap = b.cap ∧ b'.base = b.base ∧
        m.length ≤ b'.occ.length ∧ b'.occ ++ rest' = m ++ tail ∧ b.occ.length ≤ b'.occ.length ∧
        ∃ k, evs' = evs.drop k ∧ k ≤ m.length - b.occ.length := by
  intro evs
  induction evs with
  | nil =>
    intro b rest tail hinv _ heq hcov
    have hlen : m.length ≤ b.occ.length := by have := hcov.1; simp at this; omega
    obtain ⟨h1, _⟩ := take_append_of_le heq hlen
    have hv := (hm.whole b.slice.addr (b.occ.drop m.length) hinv.slice_al).1
    have hs : b.slice = ⟨b.slice.addr, m ++ b.occ.drop m.length⟩ := by
      simp only [RBuf.slice, Slice.mk.injEq, true_and]; exact h1
    rw [← hs] at hv
    exact ⟨b, rest, [], by simp [recv, hv], hinv, rfl, rfl, hlen, heq, Nat.le_refl _, 0, by simp, by omega⟩
  | cons ev evs ih =>
    intro b rest tail hinv hcap heq hcov
    by_cases hlen : m.length ≤ b.occ.length
    · obtain ⟨h1, _⟩ := take_append_of_le heq hlen
      have hv := (hm.whole b.slice.addr (b.occ.drop m.length) hinv.slice_al).1
      have hs : b.slice = ⟨b.slice.addr, m ++ b.occ.drop m.length⟩ := by
        simp only [RBuf.slice, Slice.mk.injEq, true_and]; exact h1
      rw [← hs] at hv
      exact ⟨b, rest, ev :: evs, by simp [recv, hv], hinv, rfl, rfl, hlen, heq, Nat.le_refl _, 0, by simp, by omega⟩
    · have hlt : b.occ.length < m.length := by omega
      obtain ⟨hpre, hrest⟩ := prefix_of_lt heq hlt
      obtain ⟨p, hp⟩ := hm.pre b.slice.addr b.occ.length hinv.slice_al hlt
      have hs : b.slice = ⟨b.slice.addr, m.take b.occ.length⟩ := by
        simp only [RBuf.slice, Slice.mk.injEq, true_and]; exact hpre
      rw [← hs] at hp
      obtain ⟨c, hev, hc⟩ := hcov.2 ev (by simp)
      have hcov' : Covers evs (m.length - b.occ.length - 1) :=
        ⟨by have := hcov.1; simp at this; omega, fun e he => hcov.2 e (by simp [he])⟩
      have hw := hinv.within
      have hnoom : ¬ (b.start + b.occ.length = b.cap ∧ b.start = 0) := by omega
      -- state after optional compaction
      have hb1 : ∃ b1 : RBuf, (if b.start + b.occ.length = b.cap then { b with start := 0 } else b) = b1 ∧
          b1.occ = b.occ ∧ b1.cap = b.cap ∧ b1.base = b.base ∧ b1.start % d.align = 0 ∧ b1.start + b1.occ.length < b1.cap := by
        by_cases he : b.start + b.occ.length = b.cap
        · refine ⟨{ b with start := 0 }, by simp [he], rfl, rfl, rfl, by simp, ?_⟩
          simp only; omega
        · exact ⟨b, by simp [he], rfl, rfl, rfl, hinv.start_al, by omega⟩
      obtain ⟨b1, hsel, ho, hc1, hbase1, hst1, hv1⟩ := hb1
      have hol : b1.occ.length = b.occ.length := by rw [ho]
      unfold recv
      simp only [hp, ne_eq, not_true_eq_false, if_false, readStep, hnoom, hsel, hev]
      have hn : min (min c (b1.cap - (b1.start + b1.occ.length))) rest.length ≠ 0 := by omega
      simp only [hn, if_false]
      obtain ⟨b', rest', evs', hr, hinv', hcap', hbase', hl', heq', hgrow, k, hk1, hk2⟩ := ih
        { b1 with occ := b1.occ ++ rest.take (min (min c (b1.cap - (b1.start + b1.occ.length))) rest.length) }
        (rest.drop (min (min c (b1.cap - (b1.start + b1.occ.length))) rest.length)) tail
        ⟨by simpa [hbase1] using hinv.base_al, hst1, by simp only [List.length_append, List.length_take]; omega⟩
        (by simpa [hc1] using hcap)
        (by simp only [ho]; rw [List.append_assoc, List.take_append_drop]; exact heq)
        (by apply covers_mono hcov'; simp only [List.length_append, List.length_take]; omega)
      refine ⟨b', rest', evs', hr, hinv', by simpa [hc1] using hcap', by simpa [hbase1] using hbase', hl', heq', ?_,
        k + 1, by simp [hk1], ?_⟩
      · simp only [List.length_append] at hgrow; omega
      · simp only [List.length_append, List.length_take] at hk2
        omega

/-- receive, look at the message through the guard, drop the guard; repeat until something else happens -/
def recvLoop (d : Dict) : Nat → List ReadEv → RBuf → Bytes → List RecvOut
  | 0, _, _, _ => []
  | n+1, evs, b, rest =>
    match recv d evs b rest with
    | (.msg occ, b', rest', evs') =>
      match d.size b'.slice, dropGuard d b' with
      | .ok z, some b'' => .msg (occ.take z) :: recvLoop d n evs' b'' rest'
      | _, _ => [.fault]
    | (o, _, _, _) => [o]

def flat (ms : List Bytes) : Bytes := ms.foldr (· ++ ·) []

theorem flat_cons (m : Bytes) (ms : List Bytes) : flat (m :: ms) = m ++ flat ms := rfl

/-- **C07 (b), receiver side.** Whatever the read sizes, the receiver yields exactly the sent messages, in order,
then `Closed`; no fault (in particular the guard drop never trips `Buffer::skip`), no `OutOfMemory`. -/
theorem recv_delivers (d : Dict) (hmin : 0 < d.minSize) :
    ∀ (msgs : List Bytes) (evs : List ReadEv) (b : RBuf) (rest : Bytes),
      (∀ m ∈ msgs, IsMsg d m ∧ 2 * m.length ≤ b.cap) → 0 < b.cap → RInv d b →
      b.occ ++ rest = flat msgs → Covers evs ((flat msgs).length - b.occ.length + 1) →
      recvLoop d (msgs.length + 1) evs b rest = msgs.map .msg ++ [.closed] := by
  intro msgs
  induction msgs with
  | nil =>
    intro evs b rest _ hcap hinv heq hcov
    simp only [flat, List.foldr_nil, List.append_eq_nil_iff] at heq
    obtain ⟨ho, hr⟩ := heq
    have hshort : Insuff (d.validate b.slice) := by
      apply validate_short hinv.slice_al
      simp [RBuf.slice, Slice.len, ho]; exact hmin
    obtain ⟨p, hp⟩ := hshort
    cases evs with
    | nil => have := hcov.1; simp at this
    | cons ev evs' =>
      obtain ⟨c, hev, hc⟩ := hcov.2 ev (by simp)
      have hw := hinv.within
      have hnoom : ¬ (b.start + b.occ.length = b.cap ∧ b.start = 0) := by simp [ho]; omega
      simp [recvLoop, recv, hp, readStep, hnoom, hev, hr]
  | cons m ms ih =>
    intro evs b rest hms hcap hinv heq hcov
    obtain ⟨hm, hmcap⟩ := hms m (by simp)
    rw [flat_cons] at heq
    obtain ⟨b', rest', evs', hr, hinv', hcap', hbase', hl', heq', hgrow, k, hk1, hk2⟩ := recv_head d m hm evs b rest (flat ms) hinv hmcap heq
      (covers_mono hcov (by simp only [flat_cons, List.length_append]; omega))
    obtain ⟨h1, h2⟩ := take_append_of_le heq' hl'
    have hsz := (hm.whole b'.slice.addr (b'.occ.drop m.length) hinv'.slice_al).2
    have hs : b'.slice = ⟨b'.slice.addr, m ++ b'.occ.drop m.length⟩ := by
      simp only [RBuf.slice, Slice.mk.injEq, true_and]; exact h1
    rw [← hs] at hsz
    have htake : b'.occ.take m.length = m := by rw [h1]; simp
    have hlenflat : (b'.occ.drop m.length).length + rest'.length = (flat ms).length := by
      rw [← h2]; simp
    have hlen0 : b.occ.length + rest.length = m.length + (flat ms).length := by
      have : (b.occ ++ rest).length = (m ++ flat ms).length := by rw [heq]
      simpa using this
    have hlen1 : b'.occ.length + rest'.length = m.length + (flat ms).length := by
      have : (b'.occ ++ rest').length = (m ++ flat ms).length := by rw [heq']
      simpa using this
    -- script left over still covers what remains
    have hcov' : ∀ n, n ≤ (flat ms).length - (b'.occ.length - m.length) + 1 → Covers evs' n := by
      intro n hn
      refine ⟨?_, fun e he => hcov.2 e (by rw [hk1] at he; exact List.mem_of_mem_drop he)⟩
      have := hcov.1
      rw [hk1, List.length_drop]
      simp only [flat_cons, List.length_append] at this
      omega
    simp only [recvLoop, hr, hsz, dropGuard, hl', if_true, List.map_cons, List.cons_append, htake]
    congr 1
    split
    · rename_i hemp
      have hd0 : b'.occ.drop m.length = [] := by simpa using hemp
      have hd1 : b'.occ.length ≤ m.length := List.drop_eq_nil_iff.1 hd0
      rw [hd0] at h2 hlenflat
      apply ih
      · intro x hx; simpa [hcap'] using hms x (by simp [hx])
      · simpa [hcap'] using hcap
      · exact ⟨hinv'.base_al, Nat.zero_mod _, by simp only [List.length_nil]; omega⟩
      · simpa using h2
      · apply hcov'
        simp only [List.length_nil]; omega
    · apply ih
      · intro x hx; simpa [hcap'] using hms x (by simp [hx])
      · simpa [hcap'] using hcap
      · refine ⟨hinv'.base_al, add_mod_zero hinv'.start_al hm.mult, ?_⟩
        have := hinv'.within
        simp only [List.length_drop]; omega
      · exact h2
      · apply hcov'
        simp only [List.length_drop]; omega

/-- the first `size()` bytes of a valid value of any well-formed type are a message in the sense the receiver needs -/
theorem isMsg_of_valid (t : Ty) (h : t.WF) (hmin : 0 < t.dict.minSize) (m : Bytes)
    (hv : ∀ a, a % t.dict.align = 0 → t.dict.validate ⟨a, m⟩ = .ok () ∧ t.dict.size ⟨a, m⟩ = .ok m.length) :
    IsMsg t.dict m := by
  have F := Ty.frameLaw t h
  have h0 := hv 0 (Nat.zero_mod _)
  obtain ⟨ha, hl, hu⟩ := validate_ok_iff.1 h0.1
  obtain ⟨z, hz, _, hzm, hzmin⟩ := F.size_ok _ ha hl hu
  have hzeq : z = m.length := by simp only [Dict.sizeV] at hz; rw [h0.2] at hz; cases hz; rfl
  subst hzeq
  exact
  { pos := by omega
    mult := hzm
    pre := by
      intro a k hal hk
      obtain ⟨p, hp⟩ := C06_prefix_insufficient t h ⟨a, m⟩ (hv a hal).1 m.length (hv a hal).2 k hk
      exact ⟨p, hp⟩
    whole := by
      intro a sfx hal
      have := C06_extension_same t h ⟨a, m⟩ (hv a hal).1 m.length (hv a hal).2 sfx
      simpa using this }

/-- **C07 (receiver) for every message type.** -/
theorem C07_receiver_delivers (t : Ty) (h : t.WF) (hmin : 0 < t.dict.minSize) (msgs : List Bytes)
    (hmsgs : ∀ m ∈ msgs, ∀ a, a % t.dict.align = 0 → t.dict.validate ⟨a, m⟩ = .ok () ∧ t.dict.size ⟨a, m⟩ = .ok m.length)
    (base cap : Nat) (hbase : base % t.dict.align = 0) (hcap : 0 < cap) (hfit : ∀ m ∈ msgs, 2 * m.length ≤ cap)
    (evs : List ReadEv) (hevs : Covers evs ((flat msgs).length + 1)) :
    recvLoop t.dict (msgs.length + 1) evs ⟨base, cap, 0, []⟩ (flat msgs) = msgs.map .msg ++ [.closed] := by
  apply recv_delivers t.dict hmin msgs evs ⟨base, cap, 0, []⟩ (flat msgs)
  · intro m hm; exact ⟨isMsg_of_valid t h hmin m (hmsgs m hm), hfit m hm⟩
  · exact hcap
  · exact ⟨hbase, Nat.zero_mod _, by simp⟩
  · simp
  · simpa using hevs
end FV
#print axioms FV.C07_receiver_delivers
