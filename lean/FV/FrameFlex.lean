import FV.FrameUnsized
/-! Frame contract for FlexVec: induction along the offset chain. -/
namespace FV

section Flex
variable (d : Dict) (l : LenTy)

/-- one step of the validating walk, inverted -/
inductive FlexStep (os : Nat) (f pos : Nat) (data : Slice) : Prop
  | term (h : l.readU data = .ok 0)
  | last (next : Nat) (hr : l.readU data = .ok next) (hn : next ≠ 0) (hmax : next = l.max)
      (h2 : os ≤ data.len) (hv : d.validate (data.drop os) = .ok ())
  | item (next : Nat) (hr : l.readU data = .ok next) (hn : next ≠ 0) (hmax : next ≠ l.max) (h1 : os ≤ next)
      (h2 : next ≤ data.len) (hv : d.validate ((data.take next).drop os) = .ok ())
      (hrest : flexValidate d l os f (pos + next) (data.drop next) = .ok ())

theorem flexValidate_inv (os f pos : Nat) (data : Slice) (h : flexValidate d l os (f+1) pos data = .ok ()) :
    data.addr % max l.align d.align = 0 ∧ l.size ≤ data.len ∧ FlexStep d l os f pos data := by
  unfold flexValidate at h
  split at h
  · simp at h
  · rename_i hal
    cases hc : checkAlignMin l.align l.size data with
    | err e => simp [hc] at h
    | fault w => simp [hc] at h
    | ok u =>
      have hcm := checkAlignMin_ok.1 hc
      simp only [hc] at h
      cases hr : l.readU data with
      | err e => simp [hr] at h
      | fault w => simp [hr] at h
      | ok next =>
        simp only [hr] at h
        refine ⟨by omega, hcm.2, ?_⟩
        split at h
        · rename_i hz; subst hz; exact .term hr
        · rename_i hnz
          split at h
          · simp at h
          · rename_i hge0
            split at h
            · simp at h
            · rename_i hcond
              simp only [Bool.or_eq_true, decide_eq_true_eq, Bool.and_eq_true, Bool.not_eq_true', decide_eq_false_iff_not,
                not_or, not_and, Nat.not_lt] at hcond
              split at h
              · rename_i hlast
                have h2 : os ≤ data.len := by omega
                simp only [Slice.splitAt, h2, if_true] at h
                exact .last next hr hnz (by simpa using hlast) h2 (Res.offset_eq_ok.1 h)
              · rename_i hlast
                have hne : next ≠ l.max := by simpa using hlast
                have hge : os ≤ next := by
                  have := fun hh => hge0 ⟨hne, hh⟩
                  omega
                have hnd : next ≤ data.len := by
                  have := hcond.2 (by simpa using hne); omega
                simp only [Slice.splitAt, hnd, if_true] at h
                have h3 : os ≤ (data.take next).len := by simp only [Slice.len_take]; omega
                simp only [h3, if_true] at h
                cases hv : d.validate ((data.take next).drop os) with
                | fault w => simp [hv] at h
                | err e => simp [hv] at h
                | ok u =>
                  simp only [hv, Res.offset_ok] at h
                  exact .item next hr hnz hne hge hnd hv h

/-- constructing one step: terminator -/
theorem flexValidate_term (os f pos : Nat) (data : Slice) (hal : data.addr % max l.align d.align = 0)
    (hla : data.addr % l.align = 0) (hlen : l.size ≤ data.len) (hr : l.readU data = .ok 0) :
    flexValidate d l os (f+1) pos data = .ok () := by
  unfold flexValidate
  have hc : checkAlignMin l.align l.size data = .ok () := checkAlignMin_ok.2 ⟨hla, hlen⟩
  simp [hal, hc, hr]

theorem flexSize_term (os al f pos : Nat) (data : Slice) (hr : l.readU data = .ok 0) :
    flexSize d l os al (f+1) pos data = .ok (pos + os) := by
  simp [flexSize, hr]

theorem flexValidate_last (os f pos next : Nat) (data : Slice) (hal : data.addr % max l.align d.align = 0)
    (hla : data.addr % l.align = 0) (hlen : l.size ≤ data.len) (hr : l.readU data = .ok next) (hn : next ≠ 0)
    (hmax : next = l.max) (h2 : os ≤ data.len) (hv : d.validate (data.drop os) = .ok ()) :
    flexValidate d l os (f+1) pos data = .ok () := by
  unfold flexValidate
  have hc : checkAlignMin l.align l.size data = .ok () := checkAlignMin_ok.2 ⟨hla, hlen⟩
  have c2 : ¬ os > data.len := by omega
  subst hmax
  have hn' : ¬ l.max = 0 := hn
  simp [hal, hc, hr, hn', c2, Slice.splitAt, h2, hv]

theorem flexSize_last (os al f pos next : Nat) (data : Slice) (hr : l.readU data = .ok next) (hn : next ≠ 0)
    (hmax : next = l.max) (h2 : os ≤ data.len) (z : Nat) (hz : d.size (data.drop os) = .ok z) :
    flexSize d l os al (f+1) pos data = .ok (pos + os + ceilMul z al) := by
  subst hmax
  simp [flexSize, hr, hn, Slice.splitAt, h2, hz]

theorem flexValidate_item (os f pos next : Nat) (data : Slice) (hal : data.addr % max l.align d.align = 0)
    (hla : data.addr % l.align = 0) (hlen : l.size ≤ data.len) (hr : l.readU data = .ok next) (hn : next ≠ 0)
    (hmax : next ≠ l.max) (h1 : os ≤ next) (h2 : next ≤ data.len) (hv : d.validate ((data.take next).drop os) = .ok ())
    (hrest : flexValidate d l os f (pos + next) (data.drop next) = .ok ()) :
    flexValidate d l os (f+1) pos data = .ok () := by
  unfold flexValidate
  have hc : checkAlignMin l.align l.size data = .ok () := checkAlignMin_ok.2 ⟨hla, hlen⟩
  have h3 : os ≤ (data.take next).len := by simp only [Slice.len_take]; omega
  have c1 : ¬ os > next := by omega
  have c2 : ¬ os > data.len := by omega
  have c3 : ¬ next > data.len := by omega
  simp [hal, hc, hr, hn, hmax, c1, c2, c3, Slice.splitAt, h1, h2, h3, hv, hrest]

theorem flexSize_item (os al f pos next : Nat) (data : Slice) (hr : l.readU data = .ok next) (hn : next ≠ 0)
    (hmax : next ≠ l.max) (h2 : next ≤ data.len) :
    flexSize d l os al (f+1) pos data = flexSize d l os al f (pos + next) (data.drop next) := by
  simp [flexSize, hr, hn, hmax, Slice.splitAt, h2]
end Flex

/-- the walk, unfolded once, for a slot that is readable and not the terminator -/
theorem flexValidate_unfold (d : Dict) (l : LenTy) (os f pos next : Nat) (data : Slice)
    (hal : data.addr % max l.align d.align = 0) (hla : data.addr % l.align = 0) (hlen : l.size ≤ data.len)
    (hr : l.readU data = .ok next) (hn : next ≠ 0) (hge : next = l.max ∨ os ≤ next) :
    flexValidate d l os (f+1) pos data =
      if os > data.len ∨ (next ≠ l.max ∧ next > data.len) then .err ⟨.insufficientSize, pos + os⟩
      else if next = l.max then (d.validate (data.drop os)).offset (pos + os)
      else match (d.validate ((data.take next).drop os)).offset (pos + os) with
        | .ok () => flexValidate d l os f (pos + next) (data.drop next)
        | r => r := by
  conv => lhs; unfold flexValidate
  have hc : checkAlignMin l.align l.size data = .ok () := checkAlignMin_ok.2 ⟨hla, hlen⟩
  have hng : ¬ (next ≠ l.max ∧ os > next) := by
    rcases hge with h | h
    · exact fun hh => hh.1 h
    · exact fun hh => absurd hh.2 (by omega)
  simp only [hal, ne_eq, not_true_eq_false, if_false, hc, hr, hn, hng]
  by_cases hcond : os > data.len ∨ (next ≠ l.max ∧ next > data.len)
  · have : (decide (os > data.len) || !decide (next = l.max) && decide (next > data.len)) = true := by
      rcases hcond with h | h
      · simp [h]
      · simp [h.1, h.2]
    simp only [this, if_true, hcond]
  · have : (decide (os > data.len) || !decide (next = l.max) && decide (next > data.len)) = false := by
      simp only [not_or, not_and] at hcond
      obtain ⟨c2, c3⟩ := hcond
      by_cases hm : next = l.max
      · simp [c2, hm]
      · have := c3 hm
        simp [c2, hm, this]
    simp only [this, Bool.false_eq_true, if_false, hcond]
    simp only [not_or, not_and] at hcond
    obtain ⟨c2, c3⟩ := hcond
    by_cases hm : next = l.max
    · have h2 : os ≤ data.len := by omega
      simp only [hm, if_true, Slice.splitAt, h2]
      try (cases d.validate (data.drop os) <;> rfl)
    · have hnd : next ≤ data.len := by have := c3 hm; omega
      have h3 : os ≤ (data.take next).len := by simp only [Slice.len_take]; omega
      simp only [hm, decide_false, Bool.false_eq_true, if_false, Slice.splitAt, hnd, if_true, h3]
      cases d.validate ((data.take next).drop os) <;> rfl

theorem validate_ok_iff {d : Dict} {s : Slice} :
    d.validate s = .ok () ↔ s.addr % d.align = 0 ∧ d.minSize ≤ s.len ∧ d.validateU s = .ok () := by
  unfold Dict.validate
  constructor
  · intro h
    cases hc : checkAlignMin d.align d.minSize s with
    | ok u =>
      have := checkAlignMin_ok.1 hc
      simp only [hc, Res.bind_ok] at h
      exact ⟨this.1, this.2, h⟩
    | err e => simp [hc] at h
    | fault w => simp [hc] at h
  · intro ⟨h1, h2, h3⟩
    have : checkAlignMin d.align d.minSize s = .ok () := checkAlignMin_ok.2 ⟨h1, h2⟩
    simp [this, h3]

/-- the terminating slot always has room for a whole slot -/
theorem os_le_of_mult (d : Dict) (l : LenTy) (hl : l.Law) (hd : Pow2 d.align) (n : Nat)
    (h1 : l.size ≤ n) (h2 : n % max l.align d.align = 0) : max l.size d.align ≤ n := by
  by_cases hc : d.align ≤ l.size
  · rw [Nat.max_eq_left hc]; exact h1
  · have hlt : l.size < d.align := by omega
    have hal : max l.align d.align = d.align := by have := hl.align_le; omega
    rw [Nat.max_eq_right (by omega)]
    rw [hal] at h2
    have hpos := hl.size_pow2.pos
    -- n is a positive multiple of d.align
    obtain ⟨c, hc'⟩ := Nat.dvd_of_mod_eq_zero h2
    rcases Nat.eq_zero_or_pos c with h0 | h0
    · subst h0; omega
    · have : d.align * 1 ≤ d.align * c := Nat.mul_le_mul_left _ h0
      omega

section Chain
variable (d : Dict) (l : LenTy) (hd : Law d) (hfd : FrameLaw d) (hl : l.Law)
include hd hfd hl

theorem flex_chain :
    ∀ f pos data, data.len < f → data.len % max l.align d.align = 0 →
      flexValidate d l (max l.size d.align) f pos data = .ok () →
      ∃ e, flexSize d l (max l.size d.align) (max l.align d.align) f pos data = .ok (pos + e) ∧ e ≤ data.len ∧
        e % max l.align d.align = 0 ∧ max l.size d.align ≤ e ∧
        (∀ f' pos' data', data'.addr = data.addr → data'.len < f' → e ≤ data'.len →
            data'.bytes.take e = data.bytes.take e →
            flexValidate d l (max l.size d.align) f' pos' data' = .ok () ∧
            flexSize d l (max l.size d.align) (max l.align d.align) f' pos' data' = .ok (pos' + e)) ∧
        (∀ k f' pos', k < e → k % max l.align d.align = 0 → k < f' →
            Insuff (flexValidate d l (max l.size d.align) f' pos' (data.take k))) := by
  have hpa := Pow2.of_max hl.align_pow2 hd.align_pow2
  have hapos := hpa.pos
  have hosm := dataOffset_mod l hl d.align hd.align_pow2
  have hls : l.size ≤ max l.size d.align := Nat.le_max_left _ _
  have hospos : 0 < max l.size d.align := by have := hl.size_pow2.pos; omega
  have hosd : max l.size d.align % d.align = 0 := Pow2.max_mod_right hl.size_pow2 hd.align_pow2
  have hald : max l.align d.align % d.align = 0 := Pow2.max_mod_right hl.align_pow2 hd.align_pow2
  have hall : max l.align d.align % l.align = 0 := Pow2.max_mod_left hl.align_pow2 hd.align_pow2
  intro f
  induction f with
  | zero => intro _ _ h; omega
  | succ f ih =>
    intro pos data hfuel hmult hv
    obtain ⟨hal, hlen, step⟩ := flexValidate_inv d l _ f pos data hv
    have hla : data.addr % l.align = 0 := mod_trans hal hall
    -- a prefix too short for the header
    have short : ∀ k f' pos', k < l.size → k < f' →
        Insuff (flexValidate d l (max l.size d.align) f' pos' (data.take k)) := by
      intro k f' pos' hk hf'
      cases f' with
      | zero => omega
      | succ f' =>
        unfold flexValidate
        have h1 : (data.take k).addr % max l.align d.align = 0 := by simpa using hal
        have h2 : checkAlignMin l.align l.size (data.take k) = .err ⟨.insufficientSize, 0⟩ := by
          have : min k data.len < l.size := by omega
          simp [checkAlignMin, hla, this]
        simp only [h1, ne_eq, not_true_eq_false, if_false, h2]
        exact ⟨_, rfl⟩
    cases step with
    | term hr =>
      have hosle := os_le_of_mult d l hl hd.align_pow2 data.len hlen hmult
      refine ⟨max l.size d.align, flexSize_term d l _ _ f pos data hr, hosle, hosm, Nat.le_refl _, ?_, ?_⟩
      · intro f' pos' data' ha hf' hle hb
        cases f' with
        | zero => omega
        | succ f' =>
          have hr' : l.readU data' = .ok 0 := by
            rw [readU_congr l data data' ha hlen (by omega) (take_take_eq hb hls)]; exact hr
          exact ⟨flexValidate_term d l _ f' pos' data' (by rw [ha]; exact hal) (by rw [ha]; exact hla) (by omega) hr',
                 flexSize_term d l _ _ f' pos' data' hr'⟩
      · intro k f' pos' hk hkm hf'
        apply short k f' pos' _ hf'
        -- k is a multiple of al below os
        by_cases hc : d.align ≤ l.size
        · rw [Nat.max_eq_left hc] at hk; exact hk
        · have hal' : max l.align d.align = d.align := by have := hl.align_le; omega
          rw [Nat.max_eq_right (by omega)] at hk
          rw [hal'] at hkm
          obtain ⟨c, hc'⟩ := Nat.dvd_of_mod_eq_zero hkm
          rcases Nat.eq_zero_or_pos c with h0 | h0
          · subst h0
            have := hl.size_pow2.pos
            omega
          · have : d.align * 1 ≤ d.align * c := Nat.mul_le_mul_left _ h0
            omega
    | last next hr hn hmax h2 hvp =>
      obtain ⟨hpa', hpmin, hpv⟩ := validate_ok_iff.1 hvp
      obtain ⟨zd, hzd, hzle, _, hzmin⟩ := hfd.size_ok _ hpa' hpmin hpv
      simp only [Slice.len_drop] at hzle hpmin
      have hpm : (data.len - max l.size d.align) % max l.align d.align = 0 := by
        have d1 := Nat.dvd_of_mod_eq_zero hmult
        have d2 := Nat.dvd_of_mod_eq_zero hosm
        exact Nat.mod_eq_zero_of_dvd (Nat.dvd_sub d1 d2)
      have hcz := ceilMul_least (x := zd) hapos hpm hzle
      have hzc := le_ceilMul (x := zd) hapos
      refine ⟨max l.size d.align + ceilMul zd (max l.align d.align), ?_, by omega,
        add_mod_zero hosm (ceilMul_mod _ _), by omega, ?_, ?_⟩
      · rw [flexSize_last d l _ _ f pos next data hr hn hmax h2 zd hzd]; congr 1; omega
      · intro f' pos' data' ha hf' hle hb
        cases f' with
        | zero => omega
        | succ f' =>
          have hr' : l.readU data' = .ok next := by
            rw [readU_congr l data data' ha hlen (by omega) (take_take_eq hb (by omega))]; exact hr
          have hloc := hfd.loc _ zd hpa' (by simpa using hpmin) hpv hzd (data'.drop (max l.size d.align))
            (by simp [ha]) (by simp only [Slice.len_drop]; omega)
            (by simp only [Slice.drop]; exact drop_take_eq hb (by omega))
          have hv' : d.validate (data'.drop (max l.size d.align)) = .ok () :=
            validate_ok_iff.2 ⟨by simpa [ha] using hpa', by simp only [Slice.len_drop]; omega, hloc.1⟩
          refine ⟨flexValidate_last d l _ f' pos' next data' (by rw [ha]; exact hal) (by rw [ha]; exact hla) (by omega)
            hr' hn hmax (by omega) hv', ?_⟩
          rw [flexSize_last d l _ _ f' pos' next data' hr' hn hmax (by omega) zd hloc.2]; congr 1; omega
      · intro k f' pos' hk hkm hf'
        by_cases hks : k < l.size
        · exact short k f' pos' hks hf'
        · cases f' with
          | zero => omega
          | succ f' =>
            have hkl : (data.take k).len = k := by simp only [Slice.len_take]; omega
            have hr' : l.readU (data.take k) = .ok next := by
              rw [readU_congr l data (data.take k) rfl hlen (by omega)
                (by simp only [Slice.take, List.take_take]; congr 1; omega)]; exact hr
            rw [flexValidate_unfold d l _ f' pos' next (data.take k) (by simpa using hal) (by simpa using hla) (by omega) hr' hn (Or.inl hmax)]
            by_cases hko : k < max l.size d.align
            · have : max l.size d.align > (data.take k).len ∨
                  (next ≠ l.max ∧ next > (data.take k).len) := Or.inl (by omega)
              simp only [this, if_true]; exact ⟨_, rfl⟩
            · have : ¬ (max l.size d.align > (data.take k).len ∨
                  (next ≠ l.max ∧ next > (data.take k).len)) := by
                intro h; rcases h with h | h
                · omega
                · exact h.1 hmax
              rw [if_neg this, if_pos hmax]
              apply Insuff.offset
              rw [Slice.take_drop data k _ (by omega)]
              apply hfd.pre _ zd hpa' (by simpa using hpmin) hpv hzd
              -- k - os is a multiple of al below ceilMul zd al
              have hkm' : (k - max l.size d.align) % max l.align d.align = 0 := by
                have d1 := Nat.dvd_of_mod_eq_zero hkm
                have d2 := Nat.dvd_of_mod_eq_zero hosm
                exact Nat.mod_eq_zero_of_dvd (Nat.dvd_sub d1 d2)
              have hlt : k - max l.size d.align < ceilMul zd (max l.align d.align) := by omega
              have := mult_gap hkm' (ceilMul_mod zd (max l.align d.align)) hlt
              have := ceilMul_lt_add (x := zd) hapos
              omega
    | item next hr hn hmax h1 h2 hvp hrest =>
      -- the next slot is aligned, hence `next` is a multiple of the alignment
      have hrest_al : (data.drop next).addr % max l.align d.align = 0 := by
        cases f with
        | zero => simp [flexValidate] at hrest
        | succ f0 => exact (flexValidate_inv d l _ f0 _ _ hrest).1
      have hnm : next % max l.align d.align = 0 := by
        simp only [Slice.addr_drop] at hrest_al
        have d1 := Nat.dvd_of_mod_eq_zero hrest_al
        have d2 := Nat.dvd_of_mod_eq_zero hal
        have := (Nat.dvd_add_right d2).1 d1
        exact Nat.mod_eq_zero_of_dvd this
      have hrm : (data.drop next).len % max l.align d.align = 0 := by
        simp only [Slice.len_drop]
        have d1 := Nat.dvd_of_mod_eq_zero hmult
        have d2 := Nat.dvd_of_mod_eq_zero hnm
        exact Nat.mod_eq_zero_of_dvd (Nat.dvd_sub d1 d2)
      have hnpos : 0 < next := by omega
      obtain ⟨e, he, hele, hem, hose, hloc, hpre⟩ := ih (pos + next) (data.drop next)
        (by simp only [Slice.len_drop]; omega) hrm hrest
      simp only [Slice.len_drop] at hele
      refine ⟨next + e, ?_, by omega, add_mod_zero hnm hem, by omega, ?_, ?_⟩
      · rw [flexSize_item d l _ _ f pos next data hr hn hmax h2, he]; congr 1; omega
      · intro f' pos' data' ha hf' hle hb
        cases f' with
        | zero => omega
        | succ f' =>
          have hr' : l.readU data' = .ok next := by
            rw [readU_congr l data data' ha hlen (by omega) (take_take_eq hb (by omega))]; exact hr
          have hitem : data'.take next = data.take next := by
            simp only [Slice.take, ha, Slice.mk.injEq, true_and]; exact take_take_eq hb (by omega)
          obtain ⟨r1, r2⟩ := hloc f' (pos' + next) (data'.drop next) (by simp [ha])
            (by simp only [Slice.len_drop]; omega) (by simp only [Slice.len_drop]; omega)
            (by
              simp only [Slice.drop]
              have := drop_take_eq (a := data'.bytes) (b := data.bytes) (n := next + e) (off := next) (k := e) hb (by omega)
              simpa using this)
          refine ⟨flexValidate_item d l _ f' pos' next data' (by rw [ha]; exact hal) (by rw [ha]; exact hla) (by omega)
            hr' hn hmax h1 (by omega) (by rw [hitem]; exact hvp) r1, ?_⟩
          rw [flexSize_item d l _ _ f' pos' next data' hr' hn hmax (by omega), r2]; congr 1; omega
      · intro k f' pos' hk hkm hf'
        by_cases hks : k < l.size
        · exact short k f' pos' hks hf'
        · cases f' with
          | zero => omega
          | succ f' =>
            have hkl : (data.take k).len = k := by simp only [Slice.len_take]; omega
            have hr' : l.readU (data.take k) = .ok next := by
              rw [readU_congr l data (data.take k) rfl hlen (by omega)
                (by simp only [Slice.take, List.take_take]; congr 1; omega)]; exact hr
            rw [flexValidate_unfold d l _ f' pos' next (data.take k) (by simpa using hal) (by simpa using hla) (by omega) hr' hn (Or.inr h1)]
            by_cases hkn : k < next
            · have : max l.size d.align > (data.take k).len ∨
                  (next ≠ l.max ∧ next > (data.take k).len) := Or.inr ⟨hmax, by omega⟩
              simp only [this, if_true]; exact ⟨_, rfl⟩
            · have : ¬ (max l.size d.align > (data.take k).len ∨
                  (next ≠ l.max ∧ next > (data.take k).len)) := by
                intro h; rcases h with h | h
                · omega
                · omega
              simp only [this, if_false, hmax]
              have hitem : (data.take k).take next = data.take next := Slice.take_take data k next (by omega)
              rw [hitem, hvp]
              simp only [Res.offset_ok]
              rw [Slice.take_drop data k next (by omega)]
              apply hpre (k - next) f' (pos' + next) (by omega)
              · have d1 := Nat.dvd_of_mod_eq_zero hkm
                have d2 := Nat.dvd_of_mod_eq_zero hnm
                exact Nat.mod_eq_zero_of_dvd (Nat.dvd_sub d1 d2)
              · omega
end Chain

theorem flex_frame (d : Dict) (hd : Law d) (hfd : FrameLaw d) (l : LenTy) (hl : l.Law) : FrameLaw (flexD d l) := by
  have hpa := Pow2.of_max hl.align_pow2 hd.align_pow2
  have hapos := hpa.pos
  have key : ∀ (s : Slice), (s.take (floorMul s.len (max l.align d.align))).len = floorMul s.len (max l.align d.align) := by
    intro s; simp only [Slice.len_take]; have := floorMul_le s.len (max l.align d.align); omega
  exact
  { sized_sizeV := by intro n h; simp [flexD] at h
    size_ok := by
      intro s _ _ hv
      simp only [flexD] at hv
      have hfl := floorMul_le s.len (max l.align d.align)
      obtain ⟨e, he, hele, hem, hose, _, _⟩ := flex_chain d l hd hfd hl (s.len + 1) 0 _
        (by rw [key]; omega) (by rw [key]; exact floorMul_mod _ _) hv
      rw [key] at hele
      exact ⟨e, by simpa [Dict.sizeV, flexD] using he, by omega, hem, hose⟩
    loc := by
      intro s z _ _ hv hz s' ha hl' hb
      simp only [flexD] at hv
      have hfl := floorMul_le s.len (max l.align d.align)
      have hfl' := floorMul_le s'.len (max l.align d.align)
      obtain ⟨e, he, hele, hem, hose, hloc, _⟩ := flex_chain d l hd hfd hl (s.len + 1) 0 _
        (by rw [key]; omega) (by rw [key]; exact floorMul_mod _ _) hv
      rw [key] at hele
      have : z = e := by
        simp only [Dict.sizeV, flexD] at hz; rw [he] at hz; simp at hz; omega
      subst this
      have hzf : z ≤ floorMul s'.len (max l.align d.align) := floorMul_greatest hapos hem hl'
      obtain ⟨h1, h2⟩ := hloc (s'.len + 1) 0 (s'.take (floorMul s'.len (max l.align d.align))) (by simp [ha])
        (by rw [key]; omega) (by rw [key]; exact hzf)
        (by
          simp only [Slice.take, List.take_take]
          rw [Nat.min_eq_left hzf, Nat.min_eq_left hele]
          exact hb)
      exact ⟨by simpa [flexD] using h1, by simpa [Dict.sizeV, flexD] using h2⟩
    pre := by
      intro s z hal hlen hv hz k hk
      simp only [flexD] at hv hal hlen
      have hfl := floorMul_le s.len (max l.align d.align)
      obtain ⟨e, he, hele, hem, hose, _, hpre⟩ := flex_chain d l hd hfd hl (s.len + 1) 0 _
        (by rw [key]; omega) (by rw [key]; exact floorMul_mod _ _) hv
      rw [key] at hele
      have : z = e := by
        simp only [Dict.sizeV, flexD] at hz; rw [he] at hz; simp at hz; omega
      subst this
      by_cases hkm : k < max l.size d.align
      · apply validate_short (by simpa [flexD] using hal)
        simp only [flexD, Slice.len_take]; omega
      · have hkl : (s.take k).len = k := by simp only [Slice.len_take]; omega
        rw [validate_eq_validateU (by simpa [flexD] using hal) (by simp only [flexD, hkl]; omega)]
        simp only [flexD, hkl]
        have hkf := floorMul_le k (max l.align d.align)
        rw [Slice.take_take s k _ hkf]
        have hmono : floorMul k (max l.align d.align) ≤ floorMul s.len (max l.align d.align) := floorMul_mono (by omega)
        have : s.take (floorMul k (max l.align d.align)) =
            (s.take (floorMul s.len (max l.align d.align))).take (floorMul k (max l.align d.align)) := by
          rw [Slice.take_take _ _ _ hmono]
        rw [this]
        exact hpre _ (k + 1) 0 (by omega) (floorMul_mod _ _) (by omega) }
end FV
