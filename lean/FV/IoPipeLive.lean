import FV.IoAsyncRecv
/-! Progress of the bounded pipe under a fair schedule: if both tasks keep being polled, every byte arrives. -/
namespace FV

/-- bytes the receiver has not taken yet -/
def PipeSt.pending (st : PipeSt) : Nat := st.toSend.length + st.q.length

/-- one round: the sender is polled (at most `a` bytes), then the receiver (at most `b` bytes) -/
def pipeRound (cap : Nat) (st : PipeSt) (ab : Nat × Nat) : PipeSt :=
  pipeStep cap (pipeStep cap st (.w ab.1)) (.r ab.2)

theorem pipeRound_progress (cap : Nat) (hcap : 0 < cap) (st : PipeSt) (hq : st.q.length ≤ cap) (a b : Nat) (ha : 0 < a) (hb : 0 < b) :
    ((pipeRound cap st (a, b)).pending < st.pending ∨ st.pending = 0) ∧ (pipeRound cap st (a, b)).q.length ≤ cap := by
  simp only [pipeRound, pipeStep, PipeSt.pending, List.length_drop, List.length_append, List.length_take]
  omega

theorem pipeRounds_deliver (cap : Nat) (hcap : 0 < cap) :
    ∀ (rounds : List (Nat × Nat)) (st : PipeSt), st.q.length ≤ cap → (∀ ab ∈ rounds, 0 < ab.1 ∧ 0 < ab.2) →
      st.pending ≤ rounds.length → (rounds.foldl (pipeRound cap) st).pending = 0 := by
  intro rounds
  induction rounds with
  | nil => intro st _ _ h; simpa using h
  | cons ab rest ih =>
    intro st hq hpos hlen
    obtain ⟨a, b⟩ := ab
    obtain ⟨ha, hb⟩ := hpos (a, b) (by simp)
    obtain ⟨hprog, hq'⟩ := pipeRound_progress cap hcap st hq a b ha hb
    simp only [List.foldl_cons]
    apply ih _ hq' (fun x hx => hpos x (by simp [hx]))
    simp only [List.length_cons] at hlen
    rcases hprog with h | h
    · omega
    · -- nothing was pending: a round cannot create bytes
      have : (pipeRound cap st (a, b)).pending ≤ st.pending := by
        simp only [pipeRound, pipeStep, PipeSt.pending, List.length_drop, List.length_append, List.length_take]; omega
      omega

/-- a round is two scheduling steps -/
theorem foldl_rounds (cap : Nat) : ∀ (rounds : List (Nat × Nat)) (st : PipeSt),
    rounds.foldl (pipeRound cap) st = (rounds.flatMap fun ab => [Sched.w ab.1, Sched.r ab.2]).foldl (pipeStep cap) st := by
  intro rounds
  induction rounds with
  | nil => intro st; rfl
  | cons ab rest ih => intro st; simp only [List.foldl_cons, List.flatMap_cons, List.foldl_append, List.foldl_nil, ih]; rfl

/-- **Fair polling delivers everything.** Over a pipe of any capacity ≥ 1, if the two tasks are polled alternately — each poll
moving at least one byte when it can, at most its chunk limit — then after as many rounds as the stream has bytes the receiver
has taken exactly the stream, in order. (Safety under *every* schedule is `pipe_fifo`; this is the progress half.) -/
theorem pipe_fair_delivers (cap : Nat) (hcap : 0 < cap) (stream : Bytes) (rounds : List (Nat × Nat))
    (hpos : ∀ ab ∈ rounds, 0 < ab.1 ∧ 0 < ab.2) (hlen : stream.length ≤ rounds.length) :
    ((rounds.flatMap fun ab => [Sched.w ab.1, Sched.r ab.2]).foldl (pipeStep cap) ⟨stream, [], []⟩).got = stream := by
  have h0 := pipeRounds_deliver cap hcap rounds ⟨stream, [], []⟩ (by simp) hpos (by simpa [PipeSt.pending] using hlen)
  rw [foldl_rounds] at h0
  have hf := (pipe_fifo cap (rounds.flatMap fun ab => [Sched.w ab.1, Sched.r ab.2]) ⟨stream, [], []⟩).1
  simp only [PipeSt.pending] at h0
  have h1 : ((rounds.flatMap fun ab => [Sched.w ab.1, Sched.r ab.2]).foldl (pipeStep cap) ⟨stream, [], []⟩).toSend = [] :=
    List.eq_nil_of_length_eq_zero (by omega)
  have h2 : ((rounds.flatMap fun ab => [Sched.w ab.1, Sched.r ab.2]).foldl (pipeStep cap) ⟨stream, [], []⟩).q = [] :=
    List.eq_nil_of_length_eq_zero (by omega)
  rw [h1, h2] at hf
  simpa using hf
end FV
