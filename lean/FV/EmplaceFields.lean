import FV.EmplaceVec
import FV.C04Layout
/-! Emplace theorems, part 2: field lists (generated `Init` structs and enum variants). -/
namespace FV

theorem Slice.drop_zero (s : Slice) : s.drop 0 = s := by cases s; simp [Slice.drop]
theorem Slice.drop_drop (s : Slice) (a b : Nat) : (s.drop a).drop b = s.drop (a + b) := by
  cases s; simp [Slice.drop, List.drop_drop, Nat.add_assoc]

/-- **A field list validates when every field validates on the bytes from its position on.** (The field walker hands each
field the remaining slice; positions are `posList`.) -/
theorem validateAll_intro : ∀ (ds : List Dict) (pos : Nat) (data : Slice), (∀ d ∈ ds, 0 < d.align) → HeadAligned ds pos →
    minSizeL ds pos ≤ pos + data.len →
    (∀ (i : Nat) (d : Dict) (P : Nat), ds[i]? = some d → (posList ds pos)[i]? = some P → d.validateU (data.drop (P - pos)) = Res.ok ()) →
    validateAll ds pos data = .ok () := by
  intro ds
  induction ds with
  | nil => intro _ _ _ _ _ _; rfl
  | cons d ds ih =>
    intro pos data hal hh hmin hfield
    have h0 := hfield 0 d pos rfl (by cases ds <;> rfl)
    rw [Nat.sub_self, Slice.drop_zero] at h0
    cases ds with
    | nil => simp [validateAll, h0]
    | cons d' ds' =>
      have hcm : ceilMul pos d.align = pos := ceilMul_of_mod (hal d (by simp)) (by simpa [HeadAligned] using hh)
      have hnext := next_le_minSizeL d d' ds' pos (fun x hx => hal x (by simp [hx])) hcm
      have hle : pos ≤ ceilMul (pos + d.ssize) d'.align := by
        have := le_ceilMul (x := pos + d.ssize) (hal d' (by simp)); omega
      have hsp : ceilMul (pos + d.ssize) d'.align - pos ≤ data.len := by omega
      simp only [validateAll, h0, Res.offset_ok, Slice.splitAt, hsp, if_true]
      apply ih (ceilMul (pos + d.ssize) d'.align) (data.drop (ceilMul (pos + d.ssize) d'.align - pos))
        (fun x hx => hal x (by simp [hx])) (by simp only [HeadAligned]; exact ceilMul_mod _ _)
      · rw [minSizeL_next d d' ds' pos (hal d' (by simp)) hcm]
        simp only [Slice.len_drop]; omega
      · intro i dd P hi hP
        have := hfield (i + 1) dd P (by simpa using hi) (by simpa [posList] using hP)
        -- P ≥ next
        have hPge : ceilMul (pos + d.ssize) d'.align ≤ P := by
          have hmono : ∀ (l : List Dict) (q : Nat) (j : Nat) (Q : Nat), (∀ x ∈ l, 0 < x.align) → (posList l q)[j]? = some Q → q ≤ Q := by
            intro l
            induction l with
            | nil => intro q j Q _ h; simp [posList] at h
            | cons a l ihl =>
              intro q j Q hpos h
              cases l with
              | nil =>
                cases j with
                | zero => simp [posList] at h; omega
                | succ j => simp [posList] at h
              | cons b l' =>
                cases j with
                | zero => simp [posList] at h; omega
                | succ j =>
                  simp only [posList, List.getElem?_cons_succ] at h
                  have := ihl (ceilMul (q + a.ssize) b.align) j Q (fun x hx => hpos x (by simp [hx])) h
                  have := le_ceilMul (x := q + a.ssize) (hpos b (by simp)); omega
          exact hmono (d' :: ds') _ i P (fun x hx => hal x (by simp [hx])) hP
        rw [Slice.drop_drop]
        have e : ceilMul (pos + d.ssize) d'.align - pos + (P - ceilMul (pos + d.ssize) d'.align) = P - pos := by omega
        rw [e]; exact this

theorem posList_ge : ∀ (l : List Dict) (q : Nat) (j : Nat) (Q : Nat), (∀ x ∈ l, 0 < x.align) → (posList l q)[j]? = some Q → q ≤ Q := by
  intro l
  induction l with
  | nil => intro q j Q _ h; simp [posList] at h
  | cons a l ihl =>
    intro q j Q hpos h
    cases l with
    | nil =>
      cases j with
      | zero => simp [posList] at h; omega
      | succ j => simp [posList] at h
    | cons b l' =>
      cases j with
      | zero => simp [posList] at h; omega
      | succ j =>
        simp only [posList, List.getElem?_cons_succ] at h
        have := ihl (ceilMul (q + a.ssize) b.align) j Q (fun x hx => hpos x (by simp [hx])) h
        have := le_ceilMul (x := q + a.ssize) (hpos b (by simp)); omega

theorem le_foldSize : ∀ (l : List Dict) (x : Nat), (∀ y ∈ l, 0 < y.align) → x ≤ foldSize l x := by
  intro l
  induction l with
  | nil => intro x _; simp [foldSize]
  | cons c l ih2 =>
    intro x hp
    simp only [foldSize]
    have := ih2 (ceilMul x c.align + c.ssize) (fun y hy => hp y (by simp [hy]))
    have := le_ceilMul (x := x) (hp c (by simp)); omega

/-- every field of a list of sized fields ends before `foldSize` -/
theorem posList_end_le : ∀ (l : List Dict) (q : Nat) (j : Nat) (Q : Nat) (d : Dict), (∀ x ∈ l, 0 < x.align) → HeadAligned l q →
    l[j]? = some d → (posList l q)[j]? = some Q → Q + d.ssize ≤ foldSize l q := by
  intro l
  induction l with
  | nil => intro q j Q d _ _ h _; simp at h
  | cons a l ihl =>
    intro q j Q d hpos hh hd h
    have hcm : ceilMul q a.align = q := ceilMul_of_mod (hpos a (by simp)) (by simpa [HeadAligned] using hh)
    cases l with
    | nil =>
      cases j with
      | zero =>
        simp only [posList, List.getElem?_cons_zero, Option.some.injEq] at h hd
        rw [← h, ← hd]; simp [foldSize, hcm]
      | succ j => simp at hd
    | cons b l' =>
      cases j with
      | zero =>
        simp only [posList, List.getElem?_cons_zero, Option.some.injEq] at h hd
        rw [← h, ← hd]
        have := le_foldSize (b :: l') (q + a.ssize) (fun y hy => hpos y (by simp [hy]))
        simpa [foldSize, hcm] using this
      | succ j =>
        simp only [posList, List.getElem?_cons_succ] at h
        simp only [List.getElem?_cons_succ] at hd
        have := ihl (ceilMul (q + a.ssize) b.align) j Q d (fun x hx => hpos x (by simp [hx])) (by simp only [HeadAligned]; exact ceilMul_mod _ _) hd h
        have e : foldSize (a :: b :: l') q = foldSize (b :: l') (ceilMul (q + a.ssize) b.align) := by
          simp only [foldSize, hcm]; rw [ceilMul_of_mod (hpos b (by simp)) (ceilMul_mod _ _)]
        rw [e]; exact this

/-- **Writing the sized fields of a field list**: succeeds when they fit, keeps the length, touches nothing before the first
position or from `foldSize` on, and every field's image can be read back at its position. -/
theorem writeFields_spec : ∀ (ds : List Dict) (vals : List Bytes) (pos : Nat) (bs : Bytes), (∀ d ∈ ds, 0 < d.align) → HeadAligned ds pos →
    ds.length ≤ vals.length → (∀ (i : Nat) (d : Dict) (v : Bytes), ds[i]? = some d → vals[i]? = some v → v.length = d.ssize) → foldSize ds pos ≤ bs.length →
    ∃ r, writeFields ds vals pos bs = .ok r ∧ r.length = bs.length ∧
      (∀ a k, a + k ≤ pos → (r.drop a).take k = (bs.drop a).take k) ∧
      (∀ a k, foldSize ds pos ≤ a → (r.drop a).take k = (bs.drop a).take k) ∧
      (∀ (i : Nat) (d : Dict) (v : Bytes) (P : Nat), ds[i]? = some d → vals[i]? = some v → (posList ds pos)[i]? = some P → (r.drop P).take d.ssize = v) := by
  intro ds
  induction ds with
  | nil => intro vals pos bs _ _ _ _ _; exact ⟨bs, rfl, rfl, fun _ _ _ => rfl, fun _ _ _ => rfl, fun i d v P h => by simp at h⟩
  | cons d ds ih =>
    intro vals pos bs hal hh hlen hval hroom
    have hcm : ceilMul pos d.align = pos := ceilMul_of_mod (hal d (by simp)) (by simpa [HeadAligned] using hh)
    cases vals with
    | nil => simp at hlen
    | cons v vs =>
      have hv : v.length = d.ssize := hval 0 d v rfl rfl
      have hfold_ge : pos + d.ssize ≤ foldSize (d :: ds) pos := by
        have := posList_end_le (d :: ds) pos 0 pos d hal hh rfl (by cases ds <;> rfl); exact this
      obtain ⟨b1, hb1, hb1l⟩ := writeAt_ok (bs := bs) (x := v) (off := pos) (by omega)
      have hread := writeAt_read hb1
      rw [hv] at hread
      cases ds with
      | nil =>
        refine ⟨b1, by simp [writeFields, hv, hb1], hb1l, fun a k hak => writeAt_frame hb1 a k (Or.inl hak), ?_, ?_⟩
        · intro a k ha
          simp only [foldSize, hcm] at ha
          exact writeAt_frame hb1 a k (Or.inr (by omega))
        · intro i dd vv P hi hvv hP
          cases i with
          | zero =>
            simp only [List.getElem?_cons_zero, Option.some.injEq] at hi hvv
            simp only [posList, List.getElem?_cons_zero, Option.some.injEq] at hP
            rw [← hi, ← hvv, ← hP]; exact hread
          | succ i => simp at hi
      | cons d' ds' =>
        have hnextge : pos + d.ssize ≤ ceilMul (pos + d.ssize) d'.align := le_ceilMul (hal d' (by simp))
        have hfe : foldSize (d :: d' :: ds') pos = foldSize (d' :: ds') (ceilMul (pos + d.ssize) d'.align) := by
          simp only [foldSize, hcm]; rw [ceilMul_of_mod (hal d' (by simp)) (ceilMul_mod _ _)]
        obtain ⟨r, hr, hrl, hpre, hpost, hel⟩ := ih vs (ceilMul (pos + d.ssize) d'.align) b1 (fun x hx => hal x (by simp [hx]))
          (by simp only [HeadAligned]; exact ceilMul_mod _ _) (by simpa using hlen)
          (fun i dd vv hi hvv => hval (i + 1) dd vv (by simpa using hi) (by simpa using hvv)) (by rw [hb1l, ← hfe]; exact hroom)
        refine ⟨r, by simp [writeFields, hv, hb1, hr], by omega, ?_, ?_, ?_⟩
        · intro a k hak
          rw [hpre a k (by omega)]
          exact writeAt_frame hb1 a k (Or.inl hak)
        · intro a k ha
          rw [hfe] at ha
          rw [hpost a k ha]
          have : ceilMul (pos + d.ssize) d'.align ≤ foldSize (d' :: ds') (ceilMul (pos + d.ssize) d'.align) :=
            le_foldSize _ _ (fun x hx => hal x (by simp [hx]))
          exact writeAt_frame hb1 a k (Or.inr (by omega))
        · intro i dd vv P hi hvv hP
          cases i with
          | zero =>
            simp only [List.getElem?_cons_zero, Option.some.injEq] at hi hvv
            simp only [posList, List.getElem?_cons_zero, Option.some.injEq] at hP
            rw [← hi, ← hvv, ← hP, hpre pos d.ssize (by omega)]; exact hread
          | succ i =>
            exact hel i dd vv P (by simpa using hi) (by simpa using hvv) (by simpa [posList] using hP)
end FV
