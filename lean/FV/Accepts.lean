import FV.EmplaceFields
import FV.EmplaceEnum
/-! Acceptance, constructor by constructor: a slice validates **iff** it is a well-formed encoding in the documented format. -/
namespace FV

/-- converse of `validateAll_intro`: a field list that validates has every field valid on the bytes from its position on -/
theorem validateAll_inv : ∀ (ds : List Dict) (pos : Nat) (data : Slice), (∀ d ∈ ds, 0 < d.align) → HeadAligned ds pos →
    minSizeL ds pos ≤ pos + data.len → validateAll ds pos data = .ok () →
    ∀ (i : Nat) (d : Dict) (P : Nat), ds[i]? = some d → (posList ds pos)[i]? = some P → d.validateU (data.drop (P - pos)) = .ok () := by
  intro ds
  induction ds with
  | nil => intro _ _ _ _ _ _ i d P h; simp at h
  | cons d ds ih =>
    intro pos data hal hh hmin hv i dd P hi hP
    cases ds with
    | nil =>
      cases i with
      | zero =>
        simp only [List.getElem?_cons_zero, Option.some.injEq] at hi
        simp only [posList, List.getElem?_cons_zero, Option.some.injEq] at hP
        subst hi hP
        rw [Nat.sub_self, Slice.drop_zero]
        simp only [validateAll] at hv
        exact Res.offset_eq_ok.1 hv
      | succ i => simp at hi
    | cons d' ds' =>
      have hcm : ceilMul pos d.align = pos := ceilMul_of_mod (hal d (by simp)) (by simpa [HeadAligned] using hh)
      have hnext := next_le_minSizeL d d' ds' pos (fun x hx => hal x (by simp [hx])) hcm
      have hle : pos ≤ ceilMul (pos + d.ssize) d'.align := by
        have := le_ceilMul (x := pos + d.ssize) (hal d' (by simp)); omega
      have hsp : ceilMul (pos + d.ssize) d'.align - pos ≤ data.len := by omega
      simp only [validateAll] at hv
      cases hvd : d.validateU data with
      | fault f => simp [hvd] at hv
      | err e => simp [hvd] at hv
      | ok u =>
        simp only [hvd, Res.offset_ok, Slice.splitAt, hsp, if_true] at hv
        cases i with
        | zero =>
          simp only [List.getElem?_cons_zero, Option.some.injEq] at hi
          simp only [posList, List.getElem?_cons_zero, Option.some.injEq] at hP
          subst hi hP
          rw [Nat.sub_self, Slice.drop_zero]; exact hvd
        | succ i =>
          simp only [List.getElem?_cons_succ] at hi
          simp only [posList, List.getElem?_cons_succ] at hP
          have := ih (ceilMul (pos + d.ssize) d'.align) (data.drop (ceilMul (pos + d.ssize) d'.align - pos))
            (fun x hx => hal x (by simp [hx])) (by simp only [HeadAligned]; exact ceilMul_mod _ _)
            (by rw [minSizeL_next d d' ds' pos (hal d' (by simp)) hcm]; simp only [Slice.len_drop]; omega) hv i dd P hi hP
          have hPge := posList_ge (d' :: ds') _ i P (fun x hx => hal x (by simp [hx])) hP
          rw [Slice.drop_drop] at this
          have e : ceilMul (pos + d.ssize) d'.align - pos + (P - ceilMul (pos + d.ssize) d'.align) = P - pos := by omega
          rw [e] at this; exact this

/-- **A field list is accepted iff every field is**, each on the bytes from its (C-layout) position on. -/
theorem validateAll_iff (ds : List Dict) (pos : Nat) (data : Slice) (hal : ∀ d ∈ ds, 0 < d.align) (hh : HeadAligned ds pos)
    (hmin : minSizeL ds pos ≤ pos + data.len) :
    validateAll ds pos data = .ok () ↔
      ∀ (i : Nat) (d : Dict) (P : Nat), ds[i]? = some d → (posList ds pos)[i]? = some P → d.validateU (data.drop (P - pos)) = .ok () :=
  ⟨validateAll_inv ds pos data hal hh hmin, validateAll_intro ds pos data hal hh hmin⟩

/-- the element loop succeeds iff every element validates -/
theorem vecElems_iff (d : Dict) (sz : Nat) (hss : d.ssize = sz) (dOff : Nat) (s : Slice) :
    ∀ k i, dOff + (i + k) * sz ≤ s.len →
      (vecElems d dOff s k i = .ok () ↔ ∀ m, i ≤ m → m < i + k → d.validateU ((s.drop (dOff + m * sz)).take sz) = .ok ()) := by
  intro k
  induction k with
  | zero => intro i _; simp only [vecElems, Nat.add_zero, true_iff]; intro m h1 h2; omega
  | succ k ih =>
    intro i hlen
    have e1 : (i + (k + 1)) * sz = i * sz + (k+1) * sz := Nat.add_mul _ _ _
    have e2 : (k+1) * sz = k * sz + sz := Nat.succ_mul _ _
    have h1 : dOff + i * sz ≤ s.len := by omega
    have h2 : sz ≤ s.len - (dOff + i * sz) := by omega
    have hlen' : dOff + (i + 1 + k) * sz ≤ s.len := by
      have : i + 1 + k = i + (k + 1) := by omega
      rw [this]; exact hlen
    simp only [vecElems, hss, Res.bind_eq, Slice.dropU, h1, if_true, Res.bind_ok, Slice.takeU, Slice.len_drop, h2]
    constructor
    · intro h m hm1 hm2
      cases hv : d.validateU ((s.drop (dOff + i * sz)).take sz) with
      | ok u =>
        simp only [hv, Res.offset_ok, Res.bind_ok] at h
        rcases Nat.eq_or_lt_of_le hm1 with heq | hlt
        · rw [← heq]; exact hv
        · exact (ih (i + 1) hlen').1 h m (by omega) (by omega)
      | err e => simp [hv] at h
      | fault f => simp [hv] at h
    · intro hall
      rw [hall i (Nat.le_refl _) (by omega)]
      simp only [Res.offset_ok, Res.bind_ok]
      exact (ih (i + 1) hlen').2 (fun m h1 h2 => hall m (by omega) (by omega))

/-- **A `FlatVec` is accepted iff** its length field is readable, does not exceed the capacity of the slice (nor `L::MAX`), and
every element up to that length validates. -/
theorem vec_accepts_iff (d : Dict) (hd : Law d) (sz : Nat) (hsz : d.sized = some sz) (l : LenTy) (hl : l.Law) (s : Slice)
    (hlen : max l.size d.align ≤ s.len) :
    (vecD d l).validateU s = .ok () ↔
      ∃ len, l.readU s = .ok len ∧
        len ≤ min (if sz = 0 then usizeMax else floorMul (s.len - max l.size d.align) (max l.align d.align) / sz) l.max ∧
        (sz ≠ 0 → ∀ m, m < len → d.validateU ((s.drop (max l.size d.align + m * sz)).take sz) = .ok ()) := by
  have hss : d.ssize = sz := by simp [Dict.ssize, hsz]
  have hapos := (Pow2.of_max hl.align_pow2 hd.align_pow2).pos
  have hdo := dataOffset_mod l hl d.align hd.align_pow2
  have hslots := vecSlots_ok d l s.len hlen
  rw [hss] at hslots
  constructor
  · intro hv
    obtain ⟨len, slots, hr, hsl, hcap, hel⟩ := vec_valid_inv d sz hss l s hlen hv
    rw [hslots] at hsl; cases hsl
    refine ⟨len, hr, hcap, ?_⟩
    intro hz m hm
    have hfit : max l.size d.align + (0 + len) * sz ≤ s.len := by
      have hle : len ≤ floorMul (s.len - max l.size d.align) (max l.align d.align) / sz := by
        simp only [hz, if_false] at hcap; omega
      have := vec_z_le _ _ sz hapos hdo (n := s.len) (len := len) hlen hz hle
      have h2 := le_ceilMul (x := max l.size d.align + sz * len) hapos
      rw [Nat.zero_add, Nat.mul_comm]; omega
    exact (vecElems_iff d sz hss _ s len 0 hfit).1 (hel (by rw [hss]; exact hz)) m (Nat.zero_le _) (by omega)
  · intro ⟨len, hr, hcap, hel⟩
    by_cases hz : sz = 0
    · subst hz
      simp only [if_true] at hcap hslots
      have hnot : ¬ len > min usizeMax l.max := by omega
      simp only [vecD, hr, Res.bind_eq, Res.bind_ok, hslots, hss, hnot, if_false, if_true]
    · have hfit : max l.size d.align + (0 + len) * sz ≤ s.len := by
        have hle : len ≤ floorMul (s.len - max l.size d.align) (max l.align d.align) / sz := by
          simp only [hz, if_false] at hcap; omega
        have := vec_z_le _ _ sz hapos hdo (n := s.len) (len := len) hlen hz hle
        have h2 := le_ceilMul (x := max l.size d.align + sz * len) hapos
        rw [Nat.zero_add, Nat.mul_comm]; omega
      exact vec_valid_intro d sz hss l s len hlen hr hcap
        ((vecElems_iff d sz hss _ s len 0 hfit).2 (fun m _ hm => hel hz m (by omega)))

/-- **A `FlatString` is accepted iff** its length is readable, within capacity, and its bytes are UTF-8. -/
theorem str_accepts_iff (l : LenTy) (s : Slice) (hlen : l.size ≤ s.len) :
    (strD l).validateU s = .ok () ↔
      ∃ len, l.readU s = .ok len ∧ len ≤ min (floorMul (s.len - l.size) l.align) l.max ∧
        utf8ValidUpTo (len + 1) 0 ((s.bytes.drop l.size).take len) = none := by
  have hnl : ¬ s.len < l.size := by omega
  simp only [strD]
  cases hr : l.readU s with
  | ok len =>
    simp only [Res.bind_eq, Res.bind_ok, hnl, if_false]
    constructor
    · intro h
      split at h
      · cases h
      · rename_i hc
        cases hu : utf8ValidUpTo (len + 1) 0 ((s.bytes.drop l.size).take len) with
        | none => exact ⟨len, rfl, by omega, hu⟩
        | some p => rw [hu] at h; cases h
    · intro ⟨len', hr', hc, hu⟩
      cases hr'
      have : ¬ len > min (floorMul (s.len - l.size) l.align) l.max := by omega
      simp only [this, if_false, hu]
  | err e => simp
  | fault f => simp

/-- **An unsized enum is accepted iff** its tag is in range, the payload has room for the variant and the variant's field list
is accepted on the payload (floored to the alignment). -/
theorem uenum_accepts_iff (tag : LenTy) (vs : List (List Dict)) (s : Slice)
    (hlen : ceilMul tag.size (max tag.align (alignLL vs)) ≤ s.len) :
    (uenumD tag vs).validateU s = .ok () ↔
      ∃ t, tag.readU s = .ok t ∧ t < vs.length ∧
        varMinSize (vs.getD t []) ≤ floorMul (s.len - ceilMul tag.size (max tag.align (alignLL vs))) (max tag.align (alignLL vs)) ∧
        validateAll (vs.getD t []) 0 ((s.drop (ceilMul tag.size (max tag.align (alignLL vs)))).take
          (floorMul (s.len - ceilMul tag.size (max tag.align (alignLL vs))) (max tag.align (alignLL vs)))) = .ok () :=
  ⟨fun hv => uenum_valid_inv tag vs s _ _ rfl rfl hlen hv,
   fun ⟨t, hr, hlt, hmin, hv⟩ => uenum_valid_intro tag vs s _ _ rfl rfl hlen t hr hlt hmin hv⟩
end FV
