import FV.EmplaceAccAll
/-! When does a *failed* emplacement leave a valid value behind?  (C18)

The container emplacers write a consistent header before and after they fill, so whatever they find in the slot and however
they fail, what they leave validates (`GSafe`). A generated `…Init` of an unsized enum refuses *before it writes anything* when
the variant does not fit — harmless when the slot held a valid value of the type, fatal when the slot held something else, which
is what happens when an enclosing initialiser has just switched its own variant (finding F17). `AssignOK` is the class of types
for which a failed `assign_in_place` provably leaves a valid value; `Props/C18.lean` shows it is sharp. -/
namespace FV

/-- result valid whether or not the emplacer reported success, whatever the slot held -/
def EmpSpecG (t : Ty) (i : Init) : Prop :=
  ∀ s : Slice, s.addr % t.dict.align = 0 → t.dict.minSize ≤ s.len →
    ∃ o, emplaceU t i s = .ok o ∧ o.bytes.length = s.len ∧ t.dict.validateU ⟨s.addr, o.bytes⟩ = .ok ()

/-- the types whose emplacers are safe on arbitrary slot contents: containers, and structs ending in one -/
def GSafe : Ty → Prop
  | .vec _ _ => True
  | .str _ => True
  | .flex _ _ => True
  | .ustruct _ last => GSafe last
  | .uenum _ _ => False
  | _ => True          -- sized values: their emplacer cannot fail

/-- an emplacer that cannot fail on this slot is safe on it -/
theorem valid_of_fits (t : Ty) (h : t.WF) (i : Init) (hw : InitWT t i) (s : Slice) (hal : s.addr % t.dict.align = 0)
    (hlen : t.dict.minSize ≤ s.len) (hr : Rep t i) (hfit : sizeSpec t i ≤ s.len) :
    ∃ o, emplaceU t i s = .ok o ∧ o.bytes.length = s.len ∧ t.dict.validateU ⟨s.addr, o.bytes⟩ = .ok () := by
  obtain ⟨o, ho, hok⟩ := emplaceU_ok i t h hw s hal hlen
  have hres : o.res = .ok () := ((emplaceU_acc i t h hw).1 s hal hlen o ho).1.2 ⟨hr, hfit⟩
  exact ⟨o, ho, hok.len, hok.valid hres⟩

theorem G_vecArr (et : Ty) (hL : Law et.dict) (sz : Nat) (hsz : et.dict.sized = some sz) (l : LenTy) (hl : l.Law)
    (xs : List Bytes) (hxs : ∀ x ∈ xs, ValidImage et.dict x) : EmpSpecG (.vec et l) (.vecArr xs) := by
  intro s hal hlen
  obtain ⟨o, ho, hok⟩ := emplace_vecArr_spec et hL sz hsz l hl xs hxs s hal hlen
  refine ⟨o, ho, hok.len, ?_⟩
  cases hres : o.res with
  | ok u => exact hok.valid hres
  | error e =>
    -- refused before anything but the zero header was written: the empty vector
    simp only [Ty.dict, vecD] at hal hlen
    have hss : et.dict.ssize = sz := by simp [Dict.ssize, hsz]
    have hla : s.addr % l.align = 0 := mod_trans hal (Pow2.max_mod_left hl.align_pow2 hL.align_pow2)
    have hls : l.size ≤ max l.size et.dict.align := Nat.le_max_left _ _
    obtain ⟨b0, hb0, hb0l, hr, _⟩ := header_written l hl 0 (Nat.pow_pos (by decide)) s hla (by omega)
    have hslots := vecSlots_ok et.dict l s.len hlen
    have hob : o.bytes = b0 := by
      simp only [emplaceU, hb0, Res.bind_ok, hslots] at ho
      generalize min (if et.dict.ssize = 0 then usizeMax else
        floorMul (s.len - max l.size et.dict.align) (max l.align et.dict.align) / et.dict.ssize) l.max = cap at ho
      by_cases hover : cap < xs.length
      · simp only [hover, if_true, Res.ok.injEq] at ho; rw [← ho]; rfl
      · exfalso
        simp only [hover, if_false] at ho
        cases hw1 : vecWriteElems et.dict.ssize (max l.size et.dict.align) xs 0 b0 with
        | ok b1 =>
          simp only [hw1, Res.bind_ok] at ho
          cases hw2 : writeAt b1 0 (encLenTy l xs.length) with
          | ok b2 => simp only [hw2, Res.bind_ok, Res.ok.injEq] at ho; rw [← ho] at hres; cases hres
          | err e' => rw [hw2] at ho; cases ho
          | fault f => rw [hw2] at ho; cases ho
        | err e' => rw [hw1] at ho; cases ho
        | fault f => rw [hw1] at ho; cases ho
    rw [hob]
    exact vec_valid_intro et.dict sz hss l ⟨s.addr, b0⟩ 0 (by simp only [Slice.len]; rw [hb0l]; exact hlen) hr (Nat.zero_le _) (by simp [vecElems])

theorem G_strFrom (l : LenTy) (hl : l.Law) (v : Bytes) (hutf : utf8ValidUpTo (v.length + 1) 0 v = none) :
    EmpSpecG (.str l) (.strFrom v) := by
  intro s hal hlen
  obtain ⟨o, ho, hok⟩ := emplace_strFrom_spec l hl v hutf s hal hlen
  refine ⟨o, ho, hok.len, ?_⟩
  cases hres : o.res with
  | ok u => exact hok.valid hres
  | error e =>
    simp only [Ty.dict, strD] at hal hlen
    obtain ⟨b0, hb0, hb0l, hr, _⟩ := header_written l hl 0 (Nat.pow_pos (by decide)) s hal hlen
    have hnl : ¬ s.len < l.size := by omega
    have hob : o.bytes = b0 := by
      simp only [emplaceU, hb0, Res.bind_ok, hnl, if_false] at ho
      split at ho
      · simp only [Res.ok.injEq] at ho; rw [← ho]; rfl
      · exfalso
        cases hw1 : writeAt b0 l.size v with
        | ok b1 =>
          simp only [hw1, Res.bind_ok] at ho
          cases hw2 : writeAt b1 0 (encLenTy l v.length) with
          | ok b2 => simp only [hw2, Res.bind_ok, Res.ok.injEq] at ho; rw [← ho] at hres; cases hres
          | err e' => rw [hw2] at ho; cases ho
          | fault f => rw [hw2] at ho; cases ho
        | err e' => rw [hw1] at ho; cases ho
        | fault f => rw [hw1] at ho; cases ho
    rw [hob]
    show (strD l).validateU ⟨s.addr, b0⟩ = .ok ()
    have hnl2 : ¬ (⟨s.addr, b0⟩ : Slice).len < l.size := by simp only [Slice.len, hb0l]; simp only [Slice.len] at hlen; omega
    simp only [strD, hr, Res.bind_eq, Res.bind_ok, hnl2, if_false]
    simp [utf8ValidUpTo]

theorem G_ustruct (fs : List Ty) (last : Ty) (vals : List Bytes) (li : Init)
    (hl : ∀ d ∈ dictL fs, Law d) (hf : ∀ d ∈ dictL fs, FrameLaw d) (hs : AllSized (dictL fs)) (hlast : Law last.dict)
    (hv : ValsOk (dictL fs) vals) (hrec : EmpSpec last li) (hG : EmpSpecG last li) :
    EmpSpecG (.ustruct fs last) (.ustruct vals li) := by
  intro s hal hlen
  obtain ⟨addr, bytes⟩ := s
  simp only [Ty.dict, ustructD, Slice.len] at hal hlen
  obtain ⟨b1, ol, hb1l, hroom, hslot, hol, holl, hel, hcomp⟩ := ustruct_shape fs last vals li hl hs hlast hv hrec addr bytes hal hlen
  obtain ⟨ol', hol', _, hvl⟩ := hG ⟨addr + ceilMul (foldSize (dictL fs) 0) last.dict.align, b1.drop (ceilMul (foldSize (dictL fs) 0) last.dict.align)⟩
    hslot (by simp only [Slice.len, List.length_drop, hb1l]; omega)
  have : ol' = ol := by rw [hol] at hol'; cases hol'; rfl
  subst this
  have hapos := alignL_pos (dictL fs ++ [last.dict])
  have h1 := le_ceilMul (x := minSizeL (dictL fs ++ [last.dict]) 0) hapos
  have h2 := floorMul_greatest hapos (ceilMul_mod (minSizeL (dictL fs ++ [last.dict]) 0) (alignL (dictL fs ++ [last.dict]))) hlen
  have h3 := floorMul_le bytes.length (alignL (dictL fs ++ [last.dict]))
  have h4 := le_ceilMul (x := foldSize (dictL fs) 0) hlast.align_pow2.pos
  have hms := minSizeL_append (dictL fs) last.dict hl hs 0
  generalize hal_def : alignL (dictL fs ++ [last.dict]) = al at *
  generalize hn_def : floorMul bytes.length al = n at *
  generalize hlfo_def : ceilMul (foldSize (dictL fs) 0) last.dict.align = lfo at *
  have hRl : (b1.take lfo ++ ol'.bytes).length = n := by
    simp only [List.length_append, List.length_take, holl, hb1l]; omega
  have hlenR : (b1.take lfo ++ ol'.bytes ++ bytes.drop n).length = bytes.length := by
    rw [List.length_append, hRl, List.length_drop]; omega
  refine ⟨_, hcomp, hlenR, ?_⟩
  show validateAll (dictL fs ++ [last.dict]) 0 (Slice.take ⟨addr, _⟩ (floorMul (Slice.len ⟨addr, _⟩) _)) = .ok ()
  simp only [Slice.len, Slice.take, hlenR, hal_def, hn_def]
  rw [List.take_append_of_le_length (by omega), List.take_of_length_le (by omega)]
  subst hlfo_def hal_def
  apply fields_valid_of_written (dictL fs) last.dict hl hf hs hlast vals hv addr hal b1 _ hel
  · rw [List.take_append_of_le_length (by simp only [List.length_take]; omega), List.take_take, Nat.min_eq_left h4]
  · rw [hRl]; omega
  · rw [List.drop_left' (by simp only [List.length_take]; omega)]
    exact hvl

/-- sized values: the emplacer of a valid image cannot fail -/
theorem G_raw (t : Ty) (h : t.WF) (v : Bytes) (hv : ValidImage t.dict v) : EmpSpecG t (.raw v) := by
  intro s hal hlen
  have hw : InitWT t (.raw v) := by simp only [InitWT]; exact hv
  obtain ⟨_, hge⟩ := emplaceU_acc (.raw v) t h hw
  have hspec : sizeSpec t (.raw v) = t.dict.minSize := by
    obtain ⟨sz, hsz, _, _⟩ := hv
    have := (Ty.law t h).sized_min sz hsz
    have hss : t.dict.ssize = sz := by simp [Dict.ssize, hsz]
    cases t <;> simp only [sizeSpec, hss] <;> omega
  exact valid_of_fits t h (.raw v) hw s hal hlen (by cases t <;> simp only [Rep]) (by omega)

mutual
/-- **Emplacers of `GSafe` types leave a valid value, success or not, whatever the slot held.** -/
theorem emplaceU_gsafe : ∀ (i : Init) (t : Ty), t.WF → InitWT t i → GSafe t → EmpSpecG t i
  | .raw v, t, h, hw, _hg => by
      simp only [InitWT] at hw
      exact G_raw t h v hw
  | .vecEmpty, t, h, hw, _hg => by
      cases t <;> simp only [InitWT] at hw
      rename_i et l
      intro s hal hlen
      have hge := (emplaceU_acc .vecEmpty (.vec et l) h (by simp only [InitWT])).2
      simp only [Ty.WF] at h
      have hapos := (Pow2.of_max h.2.2.align_pow2 (Ty.law et h.1).align_pow2).pos
      refine valid_of_fits (.vec et l) (by simp only [Ty.WF]; exact h) .vecEmpty (by simp only [InitWT]) s hal hlen (by simp only [Rep]) ?_
      simp only [sizeSpec, Nat.mul_zero, Nat.add_zero, ceilMul_of_mod hapos (dataOffset_mod l h.2.2 et.dict.align (Ty.law et h.1).align_pow2)]
      simpa [Ty.dict, vecD] using hlen
  | .vecArr xs, t, h, hw, _hg => by
      cases t <;> simp only [InitWT] at hw
      rename_i et l
      simp only [Ty.WF] at h
      obtain ⟨sz, hsz⟩ := sized_some et h.2.1
      exact G_vecArr et (Ty.law et h.1) sz hsz l h.2.2 xs hw
  | .vecIter xs, t, h, hw, _hg => by
      cases t <;> simp only [InitWT] at hw
      rename_i et l
      simp only [Ty.WF] at h
      obtain ⟨sz, hsz⟩ := sized_some et h.2.1
      intro s hal hlen
      obtain ⟨o, h1, h2, h3⟩ := emplace_vecIter et (Ty.law et h.1) sz hsz l h.2.2 xs hw s hal hlen
      exact ⟨o, h1, h2.len, h3⟩
  | .strEmpty, t, h, hw, _hg => by
      cases t <;> simp only [InitWT] at hw
      rename_i l
      intro s hal hlen
      have hl : l.Law := by simpa only [Ty.WF] using h
      refine valid_of_fits (.str l) h .strEmpty (by simp only [InitWT]) s hal hlen (by simp only [Rep]) ?_
      simp only [sizeSpec, Nat.add_zero, ceilMul_of_mod hl.align_pow2.pos hl.size_mod]
      simpa [Ty.dict, strD] using hlen
  | .strFrom v, t, h, hw, _hg => by
      cases t <;> simp only [InitWT] at hw
      rename_i l
      simp only [Ty.WF] at h
      exact G_strFrom l h v hw
  | .flexEmpty, t, h, hw, _hg => by
      cases t <;> simp only [InitWT] at hw
      rename_i it l
      intro s hal hlen
      refine valid_of_fits (.flex it l) h .flexEmpty (by simp only [InitWT]) s hal hlen (by simp only [Rep]) ?_
      simp only [sizeSpec]
      simpa [Ty.dict, flexD] using hlen
  | .flexIter items, t, h, hw, _hg => by
      cases t <;> simp only [InitWT] at hw
      rename_i it l
      simp only [Ty.WF] at h
      intro s hal hlen
      obtain ⟨o, h1, h2, h3⟩ := emplace_flexIter_spec it (Ty.law it h.1) (Ty.frameLaw it h.1) l h.2 items
        (emplaceU_okL items it h.1 hw) s hal hlen
      exact ⟨o, h1, h2.len, h3⟩
  | .ustruct vals li, t, h, hw, hg => by
      cases t <;> simp only [InitWT] at hw
      rename_i fs last
      simp only [GSafe] at hg
      simp only [Ty.WF] at h
      exact G_ustruct fs last vals li (lawL fs h.1) (frameL fs h.1) (sizedL_allSized fs h.2.1) (Ty.law last h.2.2.1) hw.1
        (emplaceU_ok li last h.2.2.1 hw.2) (emplaceU_gsafe li last h.2.2.1 hw.2 hg)
  | .uenum idx vals none, t, h, hw, hg => by
      cases t <;> simp only [InitWT] at hw
      simp only [GSafe] at hg
  | .uenum idx vals (some li), t, h, hw, hg => by
      cases t <;> simp only [InitWT] at hw
      simp only [GSafe] at hg
end

/-! ### unsized enums: refused before anything is written, or completed up to the last field -/

/-- result valid provided the slot held a valid value of the type before -/
def EmpSpecA (t : Ty) (i : Init) : Prop :=
  ∀ s : Slice, s.addr % t.dict.align = 0 → t.dict.minSize ≤ s.len → t.dict.validateU s = .ok () →
    ∃ o, emplaceU t i s = .ok o ∧ o.bytes.length = s.len ∧ t.dict.validateU ⟨s.addr, o.bytes⟩ = .ok ()

theorem EmpSpecG.toA {t : Ty} {i : Init} (h : EmpSpecG t i) : EmpSpecA t i := fun s hal hlen _ => h s hal hlen

/-- a variant without an unsized field: the only failure is the size test made before the tag is written -/
theorem A_uenum_none (tag : LenTy) (ht : tag.Law) (vs : List (List Ty))
    (hl : ∀ v ∈ dictLL vs, ∀ d ∈ v, Law d) (hf : ∀ v ∈ dictLL vs, ∀ d ∈ v, FrameLaw d)
    (idx : Nat) (hidx : idx < vs.length) (hrep : idx < 256 ^ tag.size) (vals : List Bytes)
    (hs : AllSized (dictL (vs.getD idx []))) (hv : ValsOk (dictL (vs.getD idx [])) vals) :
    EmpSpecA (.uenum tag vs) (.uenum idx vals none) := by
  intro s hal hlen hvalid
  obtain ⟨o, ho, hok⟩ := emplace_uenum_none tag ht vs hl hf idx hidx hrep vals hs hv s hal hlen
  refine ⟨o, ho, hok.len, ?_⟩
  cases hres : o.res with
  | ok u => exact hok.valid hres
  | error e =>
    -- the bytes are untouched
    obtain ⟨addr, bytes⟩ := s
    simp only [Ty.dict, uenumD, Slice.len] at hal hlen
    obtain ⟨hapos, hge, htd, hta, hva⟩ := uenum_geometry tag ht (dictLL vs) hl addr bytes.length hal hlen
    obtain ⟨b0, hb0, hb0l⟩ := writeAt_ok (bs := bytes) (x := encLenTy tag idx) (off := 0) (by rw [encLenTy_length]; omega)
    have hnl : ¬ bytes.length < ceilMul tag.size (max tag.align (alignLL (dictLL vs))) := by omega
    have hob : o.bytes = bytes := by
      simp only [emplaceU, Slice.len, hnl, if_false, hb0, Res.bind_ok] at ho
      split at ho
      · simp only [Res.ok.injEq] at ho; rw [← ho] at hres; cases hres
      · split at ho
        · simp only [Res.ok.injEq] at ho; rw [← ho]
        · cases ho
        · exfalso
          cases hw1 : writeFields ((dictLL vs).getD idx []) vals 0
              (List.take (floorMul (bytes.length - ceilMul tag.size (max tag.align (alignLL (dictLL vs)))) (max tag.align (alignLL (dictLL vs))))
                (List.drop (ceilMul tag.size (max tag.align (alignLL (dictLL vs)))) b0)) with
          | ok b1 => simp only [hw1, Res.bind_ok, Res.ok.injEq] at ho; rw [← ho] at hres; cases hres
          | err e' => rw [hw1] at ho; cases ho
          | fault f => rw [hw1] at ho; cases ho
    rw [hob]; exact hvalid

/-- a variant ending in an unsized field whose emplacer is safe on arbitrary contents -/
theorem A_uenum_some (tag : LenTy) (ht : tag.Law) (vs : List (List Ty))
    (hl : ∀ v ∈ dictLL vs, ∀ d ∈ v, Law d) (hf : ∀ v ∈ dictLL vs, ∀ d ∈ v, FrameLaw d)
    (idx : Nat) (hidx : idx < vs.length) (hrep : idx < 256 ^ tag.size) (vals : List Bytes)
    (pre : List Ty) (lt : Ty) (hvar : vs.getD idx [] = pre ++ [lt])
    (hs : AllSized (dictL pre)) (hv : ValsOk (dictL pre) vals) (lasti : Init) (hG : EmpSpecG lt lasti) :
    EmpSpecA (.uenum tag vs) (.uenum idx vals (some lasti)) := by
  intro s hal hlen hvalid
  obtain ⟨addr, bytes⟩ := s
  simp only [Ty.dict, uenumD, Slice.len] at hal hlen
  obtain ⟨hapos, hge, htd, hta, hva⟩ := uenum_geometry tag ht (dictLL vs) hl addr bytes.length hal hlen
  have hidx' : idx < (dictLL vs).length := by rw [dictLL_length]; exact hidx
  have hmem : (dictLL vs).getD idx [] ∈ dictLL vs := getD_mem _ _ _ hidx'
  obtain ⟨b0, hb0, hb0l⟩ := writeAt_ok (bs := bytes) (x := encLenTy tag idx) (off := 0) (by rw [encLenTy_length]; omega)
  have hnl : ¬ bytes.length < ceilMul tag.size (max tag.align (alignLL (dictLL vs))) := by omega
  simp only [emplaceU, Slice.len, hnl, if_false, hb0, Res.bind_ok]
  rw [dictLL_getD, hvar, dictL_append] at hmem
  rw [dictLL_getD, hvar, dictL_append]
  simp only [dictL] at hmem ⊢
  have hlv := hl _ hmem
  have hfv := hf _ hmem
  have hlpre : ∀ d ∈ dictL pre, Law d := fun d hd => hlv d (by simp [hd])
  have hfpre : ∀ d ∈ dictL pre, FrameLaw d := fun d hd => hfv d (by simp [hd])
  have hllt : Law lt.dict := hlv _ (by simp)
  have hposv : ∀ x ∈ dictL pre ++ [lt.dict], 0 < x.align := fun x hx => (hlv x hx).align_pow2.pos
  have hms := minSizeL_append (dictL pre) lt.dict hlpre hs 0
  have hlp := lastPos_append (dictL pre) lt.dict 0 hposv (headAligned_zero _)
  have h4 := le_ceilMul (x := foldSize (dictL pre) 0) hllt.align_pow2.pos
  have hltmod : alignL (dictL pre ++ [lt.dict]) % lt.dict.align = 0 := alignL_mod _ hlv lt.dict (by simp)
  have hlfomod := ceilMul_mod (foldSize (dictL pre) 0) lt.dict.align
  have hvA := hva _ hmem
  have hne : (dictL pre ++ [lt.dict]).isEmpty = false := by cases dictL pre <;> rfl
  have hvmin : varMinSize (dictL pre ++ [lt.dict]) = minSizeL (dictL pre ++ [lt.dict]) 0 := by simp [varMinSize, hne]
  have hgetD : (dictLL vs).getD idx [] = dictL pre ++ [lt.dict] := by rw [dictLL_getD, hvar, dictL_append]; rfl
  simp only [hne, Bool.false_eq_true, if_false, List.dropLast_concat, List.getLast?_concat, hlp]
  generalize hal_def : max tag.align (alignLL (dictLL vs)) = al at *
  generalize hd_def : ceilMul tag.size al = dOff at *
  generalize hn_def : floorMul (bytes.length - dOff) al = n at *
  generalize hlfo_def : ceilMul (foldSize (dictL pre) 0) lt.dict.align = lpos at *
  have hnle : n ≤ bytes.length - dOff := by rw [← hn_def]; exact floorMul_le _ _
  cases hck : checkAlignMin (alignL (dictL pre ++ [lt.dict])) (minSizeL (dictL pre ++ [lt.dict]) 0) (Slice.take (Slice.drop ⟨addr, bytes⟩ dOff) n) with
  | fault f => have := checkAlignMin_noFault (alignL (dictL pre ++ [lt.dict])) (minSizeL (dictL pre ++ [lt.dict]) 0) (Slice.take (Slice.drop ⟨addr, bytes⟩ dOff) n); rw [hck] at this; exact absurd this (by simp)
  | err e =>
    -- refused before the tag is written: nothing changed
    exact ⟨_, rfl, rfl, hvalid⟩
  | ok u =>
    obtain ⟨_, hmin⟩ := checkAlignMin_ok.1 hck
    simp only [Slice.len, Slice.take, Slice.drop, List.length_take, List.length_drop] at hmin
    have hdl : ((b0.drop dOff).take n).length = n := by simp only [List.length_take, List.length_drop, hb0l]; omega
    obtain ⟨b1, hb1, hb1l, _, _, hel⟩ := writeFields_spec (dictL pre) vals 0 ((b0.drop dOff).take n)
      (fun d hd => (hlpre d hd).align_pow2.pos) (headAligned_zero _) hv.1 hv.len (by rw [hdl]; omega)
    rw [hdl] at hb1l
    have hw : (if (dictL pre).isEmpty then Res.ok ((b0.drop dOff).take n) else writeFields (dictL pre) vals 0 ((b0.drop dOff).take n)) = .ok b1 := by
      cases hds : dictL pre with
      | nil => rw [hds] at hb1; simpa [writeFields] using hb1
      | cons d ds => rw [hds] at hb1; simpa using hb1
    obtain ⟨o, ho, hol0, hvl⟩ := hG ⟨addr + dOff + lpos, b1.drop lpos⟩ (add_mod_zero (mod_trans hvA hltmod) hlfomod)
      (by simp only [Slice.len, List.length_drop]; omega)
    have hol : o.bytes.length = n - lpos := by simpa [Slice.len, hb1l] using hol0
    simp only [hw, Res.bind_ok, ho]
    have hRl : (b1.take lpos ++ o.bytes).length = n := by
      simp only [List.length_append, List.length_take, hol, hb1l]; omega
    have hwrap := uenum_wrap tag (dictLL vs) addr bytes b0 (b1.take lpos ++ o.bytes) idx hidx' hrep al dOff n hal_def.symm hd_def.symm hapos hge hn_def.symm hta hb0 hRl
      (by rw [hgetD, hvmin]; omega)
      (by
        rw [hgetD]; subst hlfo_def
        apply fields_valid_of_written (dictL pre) lt.dict hlpre hfpre hs hllt vals hv (addr + dOff) hvA b1 _ hel
        · rw [List.take_append_of_le_length (by simp only [List.length_take]; omega), List.take_take, Nat.min_eq_left h4]
        · rw [hRl]; omega
        · rw [List.drop_left' (by simp only [List.length_take]; omega)]
          exact hvl)
    exact ⟨_, rfl, by simp only [List.length_append, List.length_take, List.length_drop, hol, hb1l, hb0l]; omega, hwrap.2⟩

/-- **the class for which a failed assignment provably leaves a valid value**: everything except an unsized enum that has a
variant whose last field is not `GSafe` (i.e. is, or ends in, another unsized enum), and a struct ending in such a field -/
def AssignOK : Ty → Prop
  | .ustruct _ last => GSafe last
  | .uenum _ vs => ∀ v ∈ vs, ∀ lt, v.getLast? = some lt → GSafe lt
  | _ => True

/-- **C18 (validity), at the level of `emplace_unchecked` on the value's own bytes.** -/
theorem emplaceU_assign_valid : ∀ (i : Init) (t : Ty), t.WF → InitWT t i → AssignOK t → EmpSpecA t i
  | .uenum idx vals none, t, h, hw, hok => by
      cases t <;> simp only [InitWT] at hw
      rename_i tag vs
      simp only [Ty.WF] at h
      exact A_uenum_none tag h.1 vs (lawLL vs h.2.1) (frameLL vs h.2.1) idx hw.1 hw.2.1 vals (sizedL_allSized _ hw.2.2.1) hw.2.2.2
  | .uenum idx vals (some li), t, h, hw, hok => by
      cases t <;> simp only [InitWT] at hw
      rename_i tag vs
      simp only [AssignOK] at hok
      simp only [Ty.WF] at h
      obtain ⟨hidx, hrep, pre, lt, hvar, hv, hwl⟩ := hw
      have hwf := wfLL_getD vs idx h.2.1
      have hbl := butLastLL_getD vs idx h.2.2
      rw [hvar] at hwf hbl
      have hg : GSafe lt := hok (vs.getD idx []) (getD_mem vs idx [] hidx) lt (by rw [hvar]; simp)
      exact A_uenum_some tag h.1 vs (lawLL vs h.2.1) (frameLL vs h.2.1) idx hidx hrep vals pre lt hvar
        (sizedL_allSized _ (butLastL_concat pre lt hbl)) hv li (emplaceU_gsafe li lt (wfL_concat pre lt hwf).2 hwl hg)
  | .raw v, t, h, hw, _hok => by
      simp only [InitWT] at hw
      exact (G_raw t h v hw).toA
  | .vecEmpty, t, h, hw, hok => (emplaceU_gsafe .vecEmpty t h hw (by cases t <;> simp only [InitWT] at hw <;> trivial)).toA
  | .vecArr xs, t, h, hw, hok => (emplaceU_gsafe (.vecArr xs) t h hw (by cases t <;> simp only [InitWT] at hw <;> trivial)).toA
  | .vecIter xs, t, h, hw, hok => (emplaceU_gsafe (.vecIter xs) t h hw (by cases t <;> simp only [InitWT] at hw <;> trivial)).toA
  | .strEmpty, t, h, hw, hok => (emplaceU_gsafe .strEmpty t h hw (by cases t <;> simp only [InitWT] at hw <;> trivial)).toA
  | .strFrom v, t, h, hw, hok => (emplaceU_gsafe (.strFrom v) t h hw (by cases t <;> simp only [InitWT] at hw <;> trivial)).toA
  | .flexEmpty, t, h, hw, hok => (emplaceU_gsafe .flexEmpty t h hw (by cases t <;> simp only [InitWT] at hw <;> trivial)).toA
  | .flexIter items, t, h, hw, hok => (emplaceU_gsafe (.flexIter items) t h hw (by cases t <;> simp only [InitWT] at hw <;> trivial)).toA
  | .ustruct vals li, t, h, hw, hok => by
      cases t <;> simp only [InitWT] at hw
      rename_i fs last
      exact (emplaceU_gsafe (.ustruct vals li) (.ustruct fs last) h (by simp only [InitWT]; exact hw) (by simpa only [AssignOK, GSafe] using hok)).toA
end FV
#print axioms FV.emplaceU_gsafe
#print axioms FV.emplaceU_assign_valid
