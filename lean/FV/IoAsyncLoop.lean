import FV.IoAsyncRecv
/-! The async receive loop (recv, look through the guard, drop it; repeat) agrees with the blocking loop on the script without the
`Pending`s, whenever the blocking loop reaches an outcome at every call — and therefore delivers what the blocking one delivers. -/
namespace FV

/-- the loop a consumer of the async `Receiver` runs -/
def arecvLoop (d : Dict) : Nat → List AREv → RBuf → Bytes → List RecvOut
  | 0, _, _, _ => []
  | n+1, evs, b, rest =>
    match arecv d false evs b rest with
    | (.msg occ, b', rest', evs') =>
      match d.size b'.slice, dropGuard d b' with
      | .ok z, some b'' => .msg (occ.take z) :: arecvLoop d n evs' b'' rest'
      | _, _ => [.fault]
    | (o, _, _, _) => [o]

theorem arecvLoop_eq (d : Dict) : ∀ (n : Nat) (evs : List AREv) (b : RBuf) (rest : Bytes),
    RecvOut.blocked ∉ recvLoop d n (eraseP evs) b rest → arecvLoop d n evs b rest = recvLoop d n (eraseP evs) b rest := by
  intro n
  induction n with
  | zero => intro evs b rest _; rfl
  | succ n ih =>
    intro evs b rest hnb
    have hag := (arecv_refines d evs.length evs b rest (Nat.le_refl _)).1
    simp only [arecvLoop, recvLoop] at hnb ⊢
    rcases hr : recv d (eraseP evs) b rest with ⟨o, b', rest', evs'⟩
    rcases ha : arecv d false evs b rest with ⟨oa, ba, resta, evsa⟩
    rw [hr] at hnb hag
    rw [ha] at hag
    rcases hag with hbl | ⟨h1, h2, h3, h4⟩
    · -- the blocking loop ran out of script: excluded
      simp only at hbl
      subst hbl
      simp at hnb
    · simp only at h1 h2 h3 h4
      subst h1 h2 h3
      cases oa with
      | msg occ =>
        simp only at hnb ⊢
        cases hz : d.size ba.slice with
        | ok z =>
          cases hg : dropGuard d ba with
          | some b'' =>
            simp only [hz, hg] at hnb ⊢
            rw [← h4] at hnb ⊢
            rw [ih evsa b'' resta (by intro hm; exact hnb (List.mem_cons_of_mem _ hm))]
          | none => simp [hz, hg]
        | err e => simp [hz]
        | fault f => simp [hz]
      | parse e => rfl
      | readErr k => rfl
      | oom => rfl
      | closed => rfl
      | blocked => rfl
      | fault => rfl
end FV
#print axioms FV.arecvLoop_eq
