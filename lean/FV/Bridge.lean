import FV.Gen.Formulas
import FV.Emplace
import FV.FlexOps
import FV.C04Layout
import FV.EmplaceFlex
/-! # Formula bridge

`FV/Gen/Formulas.lean` is regenerated from the repository's source on every run (`tools/extract_formulas.py`). Each theorem
here states that a formula *as the source has it now* is the one the model uses at the corresponding place. A changed formula
(a `ceil_mul` ↔ `floor_mul` swap, a dropped rounding, the wrong alignment constant, `max` ↔ `min`, swapped macro arguments) makes
the theorem fail to compile: a broken proof obligation of the properties that depend on it. -/
namespace FV.Bridge
open FV

/-! ### the four arithmetic helpers of `utils/mod.rs` -/
theorem max_eq (a b : Nat) : Gen.max a b = max a b := by unfold Gen.max; split <;> omega
theorem min_eq (a b : Nat) : Gen.min a b = min a b := by unfold Gen.min; split <;> omega
theorem ceilMul_eq (x m : Nat) : Gen.ceilMul x m = ceilMul x m := rfl
theorem floorMul_eq (x m : Nat) : Gen.floorMul x m = floorMul x m := rfl
/-- `Error::offset` (`base/src/error.rs`) -/
theorem err_offset {α} (e : Err) (n : Nat) : (Res.err e : Res α).offset n = .err ⟨e.kind, Gen.errOffset e.pos n⟩ := rfl
/-- the checked entry points (`FlatValidate::validate`, `from_bytes`, `from_mut_bytes`, `Emplacer::emplace`, `new_in_place`): the
alignment / minimum-size test is made on the whole input and the unchecked function then runs on the same bytes;
`assign_in_place` runs the emplacer, unchecked, on the value's own view -/
theorem slice_take_len (s : Slice) : s.take s.len = s := by
  cases s; simp [Slice.take, Slice.len]
theorem validate_shape (d : Dict) (s : Slice) :
    d.validate s = (checkAlignMin d.align d.minSize (s.take (Gen.traitsFromBytes (Gen.traitsValidate s.len)))).bind fun _ =>
      d.validateU (s.take (Gen.traitsFromMutBytes (Gen.traitsValidate s.len))) := by
  simp only [Gen.traitsFromBytes, Gen.traitsFromMutBytes, Gen.traitsValidate, slice_take_len]; rfl
theorem emplace_shape (t : Ty) (i : Init) (s : Slice) :
    emplace t i s =
      match checkAlignMin t.dict.align t.dict.minSize (s.take (Gen.traitsNewInPlace (Gen.emplacerEmplace s.len))) with
      | .err e => .ok ⟨s.bytes, .error e⟩
      | .fault f => .fault f
      | .ok () => emplaceU t i s := by
  simp only [Gen.traitsNewInPlace, Gen.emplacerEmplace, slice_take_len]; rfl
theorem assign_shape (t : Ty) (i : Init) (s : Slice) :
    assign t i s = (t.dict.viewLen s.len).bind fun v =>
      (emplaceU t i (s.take (Gen.traitsAssign v))).bind fun o => .ok ⟨o.bytes ++ s.bytes.drop v, o.res⟩ := rfl
theorem entry_untranslatable_none : (Gen.traitsValidate_untranslatable || Gen.traitsFromBytes_untranslatable || Gen.traitsFromMutBytes_untranslatable ||
    Gen.emplacerEmplace_untranslatable || Gen.traitsNewInPlace_untranslatable || Gen.traitsAssign_untranslatable) = false := by decide
theorem untranslatable_none : (Gen.errOffset_untranslatable || Gen.max_untranslatable || Gen.min_untranslatable || Gen.ceilMul_untranslatable || Gen.floorMul_untranslatable) = false := by decide

/-! ### field walkers of `utils/iter.rs` and the `fold_size!` / `fold_min_size!` macros (C04, C05) -/
theorem posNext_eq (pos tsize nextalign : Nat) : Gen.posNext pos tsize nextalign = ceilMul (pos + tsize) nextalign := rfl
theorem posList_step (d d' : Dict) (ds : List Dict) (pos : Nat) :
    posList (d :: d' :: ds) pos = pos :: posList (d' :: ds) (Gen.posNext pos d.ssize d'.align) := rfl
theorem foldSize_step (d : Dict) (ds : List Dict) (pos : Nat) :
    foldSize (d :: ds) pos = foldSize ds (Gen.foldSizeStep pos d.align d.ssize) := rfl
theorem foldSize_last (d : Dict) (pos : Nat) : foldSize [d] pos = Gen.foldSizeLast pos d.align d.ssize := rfl
theorem minSizeL_step (d d' : Dict) (ds : List Dict) (pos : Nat) :
    minSizeL (d :: d' :: ds) pos = minSizeL (d' :: ds) (Gen.foldMinSizeStep pos d.align d.ssize) := rfl
theorem minSizeL_last (d : Dict) (pos : Nat) : minSizeL [d] pos = Gen.foldMinSizeLast pos d.align d.minSize := rfl
theorem typeIter_minSize_step (pos a s : Nat) : Gen.twoMinSizeArg pos a s = Gen.foldMinSizeStep pos a s := rfl
theorem typeIter_minSize_last (pos a m : Nat) : Gen.singleMinSize pos a m = Gen.foldMinSizeLast pos a m := rfl
theorem alignL_step (d : Dict) (ds : List Dict) : alignL (d :: ds) = Gen.twoAlign d.align (alignL ds) := by
  simp [alignL, Gen.twoAlign, max_eq]
theorem foldSizeDyn_step (acc a s : Nat) : Gen.foldSizeDynStep acc a s = ceilMul acc a + s := rfl
theorem foldSizeDyn_last (d : Dict) (pos acc : Nat) (data : Slice) :
    foldSizeDyn [d] pos acc data = (d.size data).bind fun s => .ok (Gen.foldSizeDynLast acc d.align s) := rfl
/-- `ValidateIter::validate_all`, step: the field at the walker's own position is validated on the remaining data, its error is
offset by the extracted position, and the slice handed on starts `iterSplitLen prev next` bytes further (`DataIter::next`). -/
theorem validateAll_step (d d' : Dict) (ds : List Dict) (pos : Nat) (data : Slice) :
    validateAll (d :: d' :: ds) pos data =
      match (d.validateU data).offset (Gen.iterValidatePosStep pos) with
      | .ok () =>
        match data.splitAt (Gen.iterSplitLen pos (Gen.posNext pos d.ssize d'.align)) with
        | .ok (_, rest) => validateAll (d' :: ds) (Gen.posNext pos d.ssize d'.align) rest
        | .err e => .err e
        | .fault f => .fault f
      | r => r := rfl
theorem validateAll_last (d : Dict) (pos : Nat) (data : Slice) :
    validateAll [d] pos data = (d.validateU data).offset (Gen.iterValidatePosLast pos) := rfl
/-- the deep read walks with the same split -/
theorem walkAll_step (d d' : Dict) (ds : List Dict) (pos : Nat) (data : Slice) :
    walkAll (d :: d' :: ds) pos data =
      (d.walk data).bind fun v =>
        match data.splitAt (Gen.iterSplitLen pos (Gen.posNext pos d.ssize d'.align)) with
        | .ok (_, rest) => (walkAll (d' :: ds) (Gen.posNext pos d.ssize d'.align) rest).bind fun vs => .ok (v :: vs)
        | .err e => .err e
        | .fault f => .fault f := rfl
theorem iter_untranslatable_none : (Gen.iterSplitLen_untranslatable || Gen.iterValidatePosStep_untranslatable || Gen.iterValidatePosLast_untranslatable || Gen.posNext_untranslatable || Gen.foldSizeStep_untranslatable || Gen.foldSizeLast_untranslatable ||
    Gen.foldMinSizeStep_untranslatable || Gen.foldMinSizeLast_untranslatable || Gen.singleMinSize_untranslatable || Gen.twoMinSizeArg_untranslatable ||
    Gen.twoAlign_untranslatable || Gen.foldSizeDynStep_untranslatable || Gen.foldSizeDynLast_untranslatable) = false := by decide

/-! ### FlatVec (`vec.rs`) -/
theorem vec_align (d : Dict) (l : LenTy) : (vecD d l).align = Gen.vecAlign l.align d.align := by simp [vecD, Gen.vecAlign, max_eq]
theorem vec_minSize (d : Dict) (l : LenTy) : (vecD d l).minSize = Gen.vecMinSize (Gen.vecDataOffset l.size d.align) := by
  simp [vecD, Gen.vecMinSize, Gen.vecDataOffset, max_eq]
theorem vec_size (d : Dict) (l : LenTy) (s : Slice) :
    (vecD d l).size s = (l.readU s).bind fun len =>
      .ok (Gen.vecSize (Gen.vecDataOffset l.size d.align) (Gen.vecAlign l.align d.align) d.ssize len) := by
  simp [vecD, Gen.vecSize, Gen.vecDataOffset, Gen.vecAlign, max_eq, ceilMul_eq]
theorem vec_slots (d : Dict) (l : LenTy) (n : Nat) (hn : ¬ n < max l.size d.align) (hz : d.ssize ≠ 0) :
    vecSlots d l n = .ok (Gen.vecSlots n (Gen.vecDataOffset l.size d.align) (Gen.vecAlign l.align d.align) d.ssize) := by
  simp [vecSlots, hn, hz, Gen.vecSlots, Gen.vecDataOffset, Gen.vecAlign, max_eq, floorMul_eq]
theorem vec_viewLen (d : Dict) (l : LenTy) (n : Nat) :
    (vecD d l).viewLen n = (vecSlots d l n).bind fun slots =>
      .ok (Gen.vecViewLen (Gen.vecDataOffset l.size d.align) (Gen.vecAlign l.align d.align) d.ssize slots) := by
  simp [vecD, Gen.vecViewLen, Gen.vecDataOffset, Gen.vecAlign, max_eq, ceilMul_eq]
theorem vec_untranslatable_none : (Gen.vecDataOffset_untranslatable || Gen.vecAlign_untranslatable || Gen.vecMinSize_untranslatable ||
    Gen.vecSize_untranslatable || Gen.vecSlots_untranslatable || Gen.vecViewLen_untranslatable) = false := by decide

/-! ### FlatString (`string.rs`) -/
theorem str_align (l : LenTy) : (strD l).align = Gen.strAlign l.align := rfl
theorem str_minSize (l : LenTy) : (strD l).minSize = Gen.strDataOffset l.size := rfl
theorem str_size (l : LenTy) (s : Slice) :
    (strD l).size s = (l.readU s).bind fun len => .ok (Gen.strSize (Gen.strDataOffset l.size) (Gen.strAlign l.align) len) := by
  simp [strD, Gen.strSize, Gen.strDataOffset, Gen.strAlign, ceilMul_eq]
theorem str_viewLen (l : LenTy) (n : Nat) (hn : ¬ n < l.size) :
    (strD l).viewLen n = .ok (Gen.strDataOffset l.size + Gen.strCap n (Gen.strDataOffset l.size) (Gen.strAlign l.align)) := by
  simp [strD, hn, Gen.strCap, Gen.strDataOffset, Gen.strAlign, floorMul_eq]
theorem str_untranslatable_none : (Gen.strDataOffset_untranslatable || Gen.strAlign_untranslatable || Gen.strSize_untranslatable || Gen.strCap_untranslatable) = false := by decide

/-! ### FlexVec (`flex.rs`) -/
theorem flex_align (d : Dict) (l : LenTy) : (flexD d l).align = Gen.flexAlign l.align d.align := by simp [flexD, Gen.flexAlign, max_eq]
theorem flex_minSize (d : Dict) (l : LenTy) : (flexD d l).minSize = Gen.flexMinSize (Gen.flexOffsetSize l.size d.align) := by
  simp [flexD, Gen.flexMinSize, Gen.flexOffsetSize, max_eq]
theorem flex_viewLen (d : Dict) (l : LenTy) (n : Nat) : (flexD d l).viewLen n = .ok (Gen.flexViewLen n (Gen.flexAlign l.align d.align)) := by
  simp [flexD, Gen.flexViewLen, Gen.flexAlign, max_eq, floorMul_eq]
theorem flex_validate_floor (d : Dict) (l : LenTy) (s : Slice) :
    (flexD d l).validateU s = flexValidate d l (Gen.flexOffsetSize l.size d.align) (s.len + 1) 0
      (s.take (Gen.flexValidateFloor s.len (Gen.flexAlign l.align d.align))) := by
  simp [flexD, Gen.flexOffsetSize, Gen.flexValidateFloor, Gen.flexAlign, max_eq, floorMul_eq]
theorem flex_size_term (d : Dict) (l : LenTy) (os al f pos : Nat) (data : Slice) (hr : l.readU data = .ok 0) :
    flexSize d l os al (f + 1) pos data = .ok (Gen.flexSizeTerm pos os) := by simp [flexSize, hr, Gen.flexSizeTerm]
theorem flex_size_last (d : Dict) (l : LenTy) (os al f pos : Nat) (data : Slice) (hn : l.max ≠ 0) (hr : l.readU data = .ok l.max)
    (h2 : os ≤ data.len) (z : Nat) (hz : d.size (data.drop os) = .ok z) :
    flexSize d l os al (f + 1) pos data = .ok (Gen.flexSizeLast pos os al z) := by
  simp [flexSize, hr, hn, Slice.splitAt, h2, hz, Gen.flexSizeLast, ceilMul_eq]
theorem flex_seal_and_fill (z al : Nat) : Gen.flexPushSeal z al = ceilMul z al ∧ Gen.flexFillItem z al = ceilMul z al := ⟨rfl, rfl⟩
theorem flex_untranslatable_none : (Gen.flexOffsetSize_untranslatable || Gen.flexAlign_untranslatable || Gen.flexMinSize_untranslatable ||
    Gen.flexViewLen_untranslatable || Gen.flexSizeLast_untranslatable || Gen.flexSizeTerm_untranslatable || Gen.flexPushSeal_untranslatable ||
    Gen.flexFillItem_untranslatable || Gen.flexValidateFloor_untranslatable) = false := by decide

/-! ### generated structs and enums (`macros/src/items/{base,unsized_,cast,init}.rs`) -/
theorem ustruct_minSize (ds : List Dict) (last : Dict) :
    (ustructD ds last).minSize = Gen.structMinSize (minSizeL (ds ++ [last]) 0) (alignL (ds ++ [last])) := by
  simp [ustructD, Gen.structMinSize, ceilMul_eq]
theorem sstruct_size (ds : List Dict) : (sstructD ds).sized = some (Gen.structMinSize (foldSize ds 0) (alignL ds)) := by
  simp [sstructD, Gen.structMinSize, ceilMul_eq]
theorem uenum_minSize (tag : LenTy) (vs : List (List Dict)) :
    (uenumD tag vs).minSize =
      Gen.enumMinSize (Gen.enumDataOffset tag.size (max tag.align (alignLL vs))) (minList (vs.map varMinSize)) (max tag.align (alignLL vs)) := by
  simp [uenumD, Gen.enumMinSize, Gen.enumDataOffset, ceilMul_eq]
theorem minList_step (x y : Nat) (xs : List Nat) : minList (x :: y :: xs) = Gen.enumMinFold x (minList (y :: xs)) := by
  simp only [minList, Gen.enumMinFold, min_eq]
theorem ustruct_lastFieldOffset_and_size (ds : List Dict) (last : Dict) (s : Slice) :
    (ustructD ds last).size s =
      ((s.take (Gen.ustructViewFloor s.len (alignL (ds ++ [last])))).dropU (Gen.lastFieldOffset (foldSize ds 0) last.align)).bind fun lastBytes =>
        (last.size lastBytes).bind fun z =>
          .ok (Gen.sizeRound (Gen.structSizeValue (Gen.lastFieldOffset (foldSize ds 0) last.align) z) (alignL (ds ++ [last]))) := by
  simp [ustructD, Gen.ustructViewFloor, Gen.lastFieldOffset, Gen.sizeRound, Gen.structSizeValue, ceilMul_eq, floorMul_eq]
theorem ustruct_viewLen (ds : List Dict) (last : Dict) (n : Nat) :
    (ustructD ds last).viewLen n =
      (if Gen.ustructViewFloor n (alignL (ds ++ [last])) < Gen.lastFieldOffset (foldSize ds 0) last.align then .fault .panic else
        (last.viewLen (Gen.ustructViewFloor n (alignL (ds ++ [last])) - Gen.lastFieldOffset (foldSize ds 0) last.align)).bind fun m =>
          .ok (Gen.ustructViewCeil (Gen.lastFieldOffset (foldSize ds 0) last.align + m) (alignL (ds ++ [last])))) := by
  simp only [ustructD, Gen.ustructViewFloor, Gen.lastFieldOffset, Gen.ustructViewCeil, ceilMul_eq, floorMul_eq, Res.bind_eq, Res.pure_eq]
  split
  · rename_i h; simp [h]
  · rename_i h; simp [h]
theorem ustruct_validate_floor (ds : List Dict) (last : Dict) (s : Slice) :
    (ustructD ds last).validateU s = validateAll (ds ++ [last]) 0 (s.take (Gen.ustructValidateFloor s.len (alignL (ds ++ [last])))) := by
  simp [ustructD, Gen.ustructValidateFloor, floorMul_eq]
theorem uenum_viewLen (tag : LenTy) (vs : List (List Dict)) (n : Nat)
    (hn : ¬ n < Gen.enumDataOffset tag.size (max tag.align (alignLL vs))) :
    (uenumD tag vs).viewLen n = .ok (Gen.uenumViewLen (Gen.enumDataOffset tag.size (max tag.align (alignLL vs)))
      (Gen.uenumMeta n (Gen.enumDataOffset tag.size (max tag.align (alignLL vs))) (max tag.align (alignLL vs)))) := by
  simp only [Gen.enumDataOffset, ceilMul_eq] at hn
  simp [uenumD, hn, Gen.uenumViewLen, Gen.uenumMeta, Gen.enumDataOffset, ceilMul_eq, floorMul_eq]
theorem senum_dataOffset (tag : LenTy) (vs : List (List Dict)) :
    (senumD tag vs).sized = some (ceilMul (Gen.enumDataOffset tag.size (max tag.align (alignLL vs)) + maxVarSize vs) (max tag.align (alignLL vs))) := by
  simp [senumD, Gen.enumDataOffset, ceilMul_eq]
theorem validate_and_init_floors (n al : Nat) :
    Gen.uenumValidateFloor n al = floorMul n al ∧ Gen.initFloor n al = floorMul n al := ⟨rfl, rfl⟩
theorem macro_untranslatable_none : (Gen.structMinSize_untranslatable || Gen.enumMinSize_untranslatable || Gen.enumMinFold_untranslatable ||
    Gen.enumDataOffset_untranslatable || Gen.lastFieldOffset_untranslatable || Gen.structSizeValue_untranslatable || Gen.sizeRound_untranslatable ||
    Gen.ustructViewFloor_untranslatable || Gen.ustructViewCeil_untranslatable || Gen.uenumMeta_untranslatable || Gen.uenumViewLen_untranslatable ||
    Gen.ustructValidateFloor_untranslatable || Gen.uenumValidateFloor_untranslatable || Gen.initFloor_untranslatable) = false := by decide

/-! ### the table of portable scalar instantiations (`portable/src/{int,float}.rs`) (C16) -/
def rowOk (r : Gen.PRow) : Bool :=
  r.fnsKnown && r.convBE == r.be && r.fromBE == r.be && r.toBE == r.be && r.kind == r.innerKind &&
  r.n == r.nativeSize && r.signed == r.nativeSigned && (r.kind == 2) == r.nativeFloat && (r.kind == 1) == r.signed
def aliasOk (a : Gen.ARow) : Bool :=
  a.modBE == a.be && a.nameBits == 8 * a.n && a.nameSigned == a.signed && a.nameFloat == a.isFloat
def keyOf (r : Gen.PRow) : Bool × Nat × Bool × Bool := (r.be, r.n, r.signed, r.nativeFloat)
def expectedKeys : List (Bool × Nat × Bool × Bool) :=
  [false, true].flatMap fun be => [(be, 2, false, false), (be, 4, false, false), (be, 8, false, false), (be, 2, true, false), (be, 4, true, false),
    (be, 8, true, false), (be, 4, false, true), (be, 8, false, true)]
/-- every instantiation passes the conversion functions of its own byte order, has the size and signedness of its native type,
and the 16 documented types are exactly the ones instantiated; every `le::` / `be::` alias names the type it says -/
theorem portable_table_ok :
    Gen.portableTable.all rowOk = true ∧ Gen.aliasTable.all aliasOk = true ∧ Gen.portableTable.length = 16 ∧ Gen.aliasTable.length = 16 ∧
    expectedKeys.all (fun k => Gen.portableTable.any fun r => keyOf r == k) = true ∧
    expectedKeys.all (fun k => Gen.aliasTable.any fun a => (a.be, a.n, a.signed, a.isFloat) == k) = true := by decide

/-! ### decision points: the condition and the error kind at each refusal are the source's; the error position too where it is
the position of a *content* error (`BadAlign`, `InvalidData`: C19) — the position attached to an `InsufficientSize` is not part of
any property and is compared by the correspondence check only where a projection includes it -/
theorem guard_checkAlignMin (al mn : Nat) (s : Slice) :
    checkAlignMin al mn s =
      if Gen.gCheckAlign_cond (s.addr % al) then .err ⟨Gen.gCheckAlign_kind, Gen.gCheckAlign_pos (s.addr % al)⟩
      else if Gen.gCheckMin_cond s.len mn then .err ⟨Gen.gCheckMin_kind, Gen.gCheckMin_pos s.len mn⟩
      else .ok () := by
  simp [checkAlignMin, Gen.gCheckAlign_cond, Gen.gCheckAlign_kind, Gen.gCheckAlign_pos, Gen.gCheckMin_cond, Gen.gCheckMin_kind, Gen.gCheckMin_pos]

theorem guard_vecValidate (d : Dict) (l : LenTy) (s : Slice) (len slots : Nat) (hr : l.readU s = .ok len)
    (hs : vecSlots d l s.len = .ok slots) :
    (vecD d l).validateU s =
      if Gen.gVecValidate_cond len (min slots l.max) (Gen.vecDataOffset l.size d.align) then
        .err ⟨Gen.gVecValidate_kind, max l.size d.align⟩
      else if d.ssize = 0 then .ok () else vecElems d (max l.size d.align) s len 0 := by
  simp [vecD, hr, hs, Gen.gVecValidate_cond, Gen.gVecValidate_kind]

/-- portable `Bool` (`portable/src/bool_.rs`): the byte is rejected exactly when it is outside the range the `match` accepts -/
theorem guard_bool (a : Nat) (b : UInt8) (rest : Bytes) :
    boolD.validateU ⟨a, b :: rest⟩ =
      if Gen.gBoolInvalid_cond b.toNat then .err ⟨Gen.gBoolInvalid_kind, Gen.gBoolInvalid_pos b.toNat⟩ else .ok () := by
  simp only [boolD, Gen.gBoolInvalid_cond, Gen.gBoolInvalid_kind, Gen.gBoolInvalid_pos]
  by_cases h : b.toNat ≤ 1
  · have : ¬ b.toNat > 1 := by omega
    simp [h, this]
  · have : b.toNat > 1 := by omega
    simp [h, this]
/-- `[T; N]::validate_unchecked` (`base/src/primitive.rs`): element `i` is validated on exactly its own bytes, its error offset by its start -/
theorem arr_loop_step (d : Dict) (s : Slice) (k i : Nat) :
    arrLoop d s (k+1) i = (do
      let a ← s.dropU (Gen.arrElemStart i d.ssize)
      let e ← a.takeU (Gen.arrElemLen d.ssize)
      (d.validateU e).offset (Gen.arrElemErrPos i d.ssize)
      arrLoop d s k (i+1)) := rfl
/-- the element loop of `FlatVec::validate_unchecked`: skipped for zero-sized elements, and an element's error is reported at the
extracted position -/
theorem vec_elems_step (d : Dict) (dOff : Nat) (s : Slice) (k i : Nat) :
    vecElems d dOff s (k+1) i = (do
      let a ← s.dropU (Gen.vecElemErrPos dOff i d.ssize)
      let e ← a.takeU d.ssize
      (d.validateU e).offset (Gen.vecElemErrPos dOff i d.ssize)
      vecElems d dOff s k (i+1)) := rfl
theorem vec_elems_visited (d : Dict) (l : LenTy) (s : Slice) (len slots : Nat) (hr : l.readU s = .ok len)
    (hs : vecSlots d l s.len = .ok slots) (hc : ¬ len > min slots l.max) :
    (vecD d l).validateU s = if Gen.cVecElemsVisited_cond d.ssize then vecElems d (max l.size d.align) s len 0 else .ok () := by
  by_cases h0 : d.ssize = 0 <;> simp [vecD, hr, hs, hc, Gen.cVecElemsVisited_cond, h0]
/-- where `FlatString::validate_unchecked` reports malformed UTF-8 -/
theorem str_utf8_pos (l : LenTy) (s : Slice) (len p : Nat) (hr : l.readU s = .ok len) (hn : ¬ s.len < l.size)
    (hc : ¬ len > min (floorMul (s.len - l.size) l.align) l.max)
    (hu : utf8ValidUpTo (len + 1) 0 ((s.bytes.drop l.size).take len) = some p) :
    (strD l).validateU s = .err ⟨.invalidData, Gen.strUtf8ErrPos (Gen.strDataOffset l.size) p⟩ := by
  simp [strD, hr, hn, hc, hu, Gen.strUtf8ErrPos, Gen.strDataOffset]
theorem guard_strValidate (l : LenTy) (s : Slice) (len : Nat) (hr : l.readU s = .ok len) (hn : ¬ s.len < l.size)
    (h : Gen.gStrValidate_cond len (min (floorMul (s.len - l.size) l.align) l.max) (Gen.strDataOffset l.size) = true) :
    (strD l).validateU s =
      .err ⟨Gen.gStrValidate_kind, l.size⟩ := by
  have hc : min (floorMul (s.len - l.size) l.align) l.max < len := by
    simpa [Gen.gStrValidate_cond] using h
  simp [strD, hr, hn, hc, Gen.gStrValidate_kind]

theorem guard_vecFromArray (et : Ty) (l : LenTy) (xs : List Bytes) (s : Slice) (b0 : Bytes) (slots : Nat)
    (hb0 : writeAt s.bytes 0 (encLenTy l 0) = .ok b0) (hs : vecSlots et.dict l s.len = .ok slots) :
    emplaceU (.vec et l) (.vecArr xs) s =
      if Gen.gVecFromArray_cond (min slots l.max) xs.length then
        .ok ⟨b0, .error ⟨Gen.gVecFromArray_kind, 0⟩⟩
      else (vecWriteElems et.dict.ssize (max l.size et.dict.align) xs 0 b0).bind fun b1 =>
        (writeAt b1 0 (encLenTy l xs.length)).bind fun b2 => .ok (EO.ok b2) := by
  simp [emplaceU, hb0, hs, EO.err, Gen.gVecFromArray_cond, Gen.gVecFromArray_kind]

theorem guard_flexSlotAlign (d : Dict) (l : LenTy) (os f pos : Nat) (data : Slice)
    (h : Gen.gFlexSlotAlign_cond (data.addr % Gen.flexAlign l.align d.align) pos = true) :
    flexValidate d l os (f + 1) pos data = .err ⟨Gen.gFlexSlotAlign_kind, Gen.gFlexSlotAlign_pos (data.addr % Gen.flexAlign l.align d.align) pos⟩ := by
  simp only [Gen.gFlexSlotAlign_cond, Gen.flexAlign, max_eq, decide_eq_true_eq] at h
  unfold flexValidate
  simp [h, Gen.gFlexSlotAlign_kind, Gen.gFlexSlotAlign_pos]

theorem guard_flexSlot (d : Dict) (l : LenTy) (os f pos next : Nat) (data : Slice)
    (hal : data.addr % max l.align d.align = 0) (hc : checkAlignMin l.align l.size data = .ok ()) (hr : l.readU data = .ok next) (hn : next ≠ 0) :
    (Gen.gFlexBadOffset_cond (decide (next = l.max)) os next pos = true →
      flexValidate d l os (f + 1) pos data = .err ⟨Gen.gFlexBadOffset_kind, Gen.gFlexBadOffset_pos (decide (next = l.max)) os next pos⟩) ∧
    (Gen.gFlexBadOffset_cond (decide (next = l.max)) os next pos = false → Gen.gFlexShort_cond (decide (next = l.max)) os next data.len pos = true →
      flexValidate d l os (f + 1) pos data = .err ⟨Gen.gFlexShort_kind, pos + os⟩) ∧
    (Gen.gFlexBadOffset_cond (decide (next = l.max)) os next pos = false → Gen.gFlexShort_cond (decide (next = l.max)) os next data.len pos = false →
      os ≤ data.len ∧ (next ≠ l.max → os ≤ next ∧ next ≤ data.len)) := by
  refine ⟨?_, ?_, ?_⟩
  · intro h
    simp only [Gen.gFlexBadOffset_cond, Bool.and_eq_true, Bool.not_eq_true', decide_eq_false_iff_not, decide_eq_true_eq] at h
    unfold flexValidate
    simp [hal, hc, hr, hn, h.1, h.2, Gen.gFlexBadOffset_kind, Gen.gFlexBadOffset_pos]
  · intro h1 h2
    simp only [Gen.gFlexBadOffset_cond, Bool.and_eq_false_iff, Bool.not_eq_false', decide_eq_true_eq, decide_eq_false_iff_not] at h1
    unfold flexValidate
    have hnb : ¬ (next ≠ l.max ∧ os > next) := by
      rcases h1 with h | h
      · exact fun hh => hh.1 h
      · exact fun hh => h hh.2
    simp only [Gen.gFlexShort_cond] at h2
    simp [hal, hc, hr, hn, hnb, h2, Gen.gFlexShort_kind]
  · intro h1 h2
    simp only [Gen.gFlexBadOffset_cond, Bool.and_eq_false_iff, Bool.not_eq_false', decide_eq_true_eq, decide_eq_false_iff_not] at h1
    simp only [Gen.gFlexShort_cond, Bool.or_eq_false_iff, Bool.and_eq_false_iff, Bool.not_eq_false', decide_eq_true_eq, decide_eq_false_iff_not] at h2
    refine ⟨by omega, fun hm => ?_⟩
    rcases h1 with h | h
    · exact absurd h hm
    · rcases h2.2 with h' | h'
      · exact absurd h' hm
      · exact ⟨by omega, by omega⟩

theorem guard_flexFillRoom (it : Ty) (l : LenTy) (i : Init) (is : List Init) (pos : Nat) (ls : Option Nat) (whole : Bytes) (base : Nat)
    (h : Gen.gFlexFillRoom_cond (whole.length - pos) (Gen.flexOffsetSize l.size it.dict.align) pos = true) :
    flexFill it l (i :: is) pos ls whole base =
      flexFinish l ls (.error ⟨Gen.gFlexFillRoom_kind, pos⟩) whole := by
  simp only [Gen.gFlexFillRoom_cond, Gen.flexOffsetSize, max_eq, decide_eq_true_eq] at h
  rw [flexFill_cons]
  simp [h, Gen.gFlexFillRoom_kind]

/-- an item emplacer's refusal inside `flex::FromIterator` is reported at the extracted position, after the chain is terminated -/
theorem guard_flexFillItem (it : Ty) (l : LenTy) (i : Init) (is : List Init) (pos : Nat) (ls : Option Nat) (whole : Bytes) (base : Nat) (o : EO) (e : Err)
    (hroom : ¬ whole.length - pos < max l.size it.dict.align)
    (hck : checkAlignMin it.dict.align it.dict.minSize ⟨base + pos + max l.size it.dict.align, whole.drop (pos + max l.size it.dict.align)⟩ = .ok ())
    (ho : emplaceU it i ⟨base + pos + max l.size it.dict.align, whole.drop (pos + max l.size it.dict.align)⟩ = .ok o) (hres : o.res = .error e) :
    flexFill it l (i :: is) pos ls whole base =
      flexFinish l ls (.error ⟨e.kind, Gen.errOffset e.pos (Gen.flexFillItemErrPos pos (Gen.flexOffsetSize l.size it.dict.align))⟩)
        (whole.take (pos + max l.size it.dict.align) ++ o.bytes) := by
  rw [flexFill_cons]
  simp only [Nat.add_assoc] at hck ho
  simp [hroom, hck, ho, hres, Gen.errOffset, Gen.flexFillItemErrPos, Gen.flexOffsetSize, max_eq, Nat.add_assoc]
/-- the offset written for a filled item is legal iff the source's test says so; otherwise the source's error -/
theorem guard_flexFillSeal (it : Ty) (l : LenTy) (i : Init) (is : List Init) (pos : Nat) (ls : Option Nat) (whole : Bytes) (base : Nat) (o : EO) (z : Nat)
    (hroom : ¬ whole.length - pos < max l.size it.dict.align)
    (hck : checkAlignMin it.dict.align it.dict.minSize ⟨base + pos + max l.size it.dict.align, whole.drop (pos + max l.size it.dict.align)⟩ = .ok ())
    (ho : emplaceU it i ⟨base + pos + max l.size it.dict.align, whole.drop (pos + max l.size it.dict.align)⟩ = .ok o) (hres : o.res = .ok ())
    (hz : it.dict.size ⟨base + pos + max l.size it.dict.align, o.bytes⟩ = .ok z)
    (h : Gen.gFlexFillSeal_cond (max l.size it.dict.align + Gen.flexFillItem z (max l.align it.dict.align)) l.max pos = false) :
    flexFill it l (i :: is) pos ls whole base =
      flexFinish l ls (.error ⟨Gen.gFlexFillSeal_kind, pos⟩)
        (whole.take (pos + max l.size it.dict.align) ++ o.bytes) := by
  have h' : ¬ max l.size it.dict.align + ceilMul z (max l.align it.dict.align) < l.max := by
    simp only [Gen.gFlexFillSeal_cond, Gen.flexFillItem] at h
    exact of_decide_eq_false h
  rw [flexFill_cons]
  simp [hroom, hck, ho, hres, hz, h', Gen.gFlexFillSeal_kind]

theorem guard_flexPushSeal (it : Ty) (l : LenTy) (f pos : Nat) (data : Slice) (z : Nat)
    (hr : readSlot l data pos = .ok (.ok l.max)) (hmax : l.max ≠ 0) (hsplit : max l.size it.dict.align ≤ data.len)
    (hv : it.dict.validate (data.drop (max l.size it.dict.align)) = .ok ()) (hz : it.dict.size (data.drop (max l.size it.dict.align)) = .ok z) :
    pushWalk it l (f + 1) pos data =
      if Gen.gFlexPushSeal_cond (max l.size it.dict.align + Gen.flexPushSeal z (max l.align it.dict.align)) l.max
          (pos + (max l.size it.dict.align + Gen.flexPushSeal z (max l.align it.dict.align))) then
        .ok (.ok ⟨pos + (max l.size it.dict.align + Gen.flexPushSeal z (max l.align it.dict.align)),
          some (pos, max l.size it.dict.align + Gen.flexPushSeal z (max l.align it.dict.align))⟩)
      else .ok (.error ⟨Gen.gFlexPushSeal_kind, pos + (max l.size it.dict.align + Gen.flexPushSeal z (max l.align it.dict.align))⟩) := by
  by_cases hc : max l.size it.dict.align + ceilMul z (max l.align it.dict.align) < l.max <;>
    simp [pushWalk, hr, hmax, Slice.splitAt, hsplit, hv, hz, hc, Gen.gFlexPushSeal_cond, Gen.gFlexPushSeal_kind,
      Gen.flexPushSeal, ceilMul_eq]

/-- the tail of `FlexVec::push`, after the walk to the end of the chain: the room test for the new slot header, and — the item
emplaced *first*, then the new slot marked, then the previous item sealed (the extraction site exists only while the three
statements stand in that order) — the shift of the item emplacer's error -/
theorem guard_flexPushTail (it : Ty) (l : LenTy) (i : Init) (data : Slice) (w : PushWalk)
    (hw : pushWalk it l (data.len + 1) 0 data = .ok (.ok w)) (hle : w.pos ≤ data.len) :
    flexPush it l i data =
      let os := max l.size it.dict.align
      if Gen.gFlexPushRoom_cond (data.len - w.pos) os w.pos then .ok ⟨data.bytes, .error ⟨Gen.gFlexPushRoom_kind, w.pos⟩⟩
      else
        (emplace it i ⟨data.addr + w.pos + os, data.bytes.drop (w.pos + os)⟩).bind fun o =>
          let b1 := data.bytes.take (w.pos + os) ++ o.bytes
          match o.res with
          | .error e => .ok ⟨b1, .error { e with pos := e.pos + Gen.flexPushItemErrPos w.pos os }⟩
          | .ok () =>
            (writeAt b1 w.pos (encLenTy l l.max)).bind fun b2 =>
              match w.sealing with
              | none => .ok (EO.ok b2)
              | some (q, v) => (writeAt b2 q (encLenTy l v)).bind fun b3 => .ok (EO.ok b3) := by
  have hnl : ¬ data.len < w.pos := by omega
  simp only [flexPush, hw, Res.bind, hnl, if_false, Gen.gFlexPushRoom_cond, Gen.gFlexPushRoom_kind, Gen.flexPushItemErrPos,
    decide_eq_true_eq, Nat.add_assoc]
  split
  · rfl
  · cases emplace it i ⟨data.addr + (w.pos + max l.size it.dict.align), data.bytes.drop (w.pos + max l.size it.dict.align)⟩ with
    | ok o => cases o.res <;> rfl
    | err e => rfl
    | fault f => rfl

/-- `FlexVec::truncate` and `pop`: the early return, the empty case and the slot that receives the `MAX` marker, in terms of the
conditions extracted from the source (the `truncate` site exists only while the code has the shape: early return; `L::zero()` at the
start when `len == 0`; `L::max_value()` at the slot of item `len - 1` otherwise) -/
theorem guard_flexTruncate (it : Ty) (l : LenTy) (n : Nat) (data : Slice) (slots : List Nat)
    (hs : flexSlots it l (data.len + 1) 0 data = .ok slots) :
    flexTruncate it l n data =
      if Gen.cFlexTruncNoop_cond n slots.length then .ok data.bytes
      else if Gen.cFlexTruncEmpty_cond n then writeAt data.bytes 0 (encLenTy l 0)
      else match slots[n - 1]? with
        | some q => writeAt data.bytes q (encLenTy l l.max)
        | none => .fault .panic := by
  simp only [flexTruncate, hs, Res.bind, Gen.cFlexTruncNoop_cond, Gen.cFlexTruncEmpty_cond, decide_eq_true_eq]
  split
  · rfl
  · split
    · rfl
    · rfl
theorem guard_flexPop (it : Ty) (l : LenTy) (data : Slice) (slots : List Nat)
    (hs : flexSlots it l (data.len + 1) 0 data = .ok slots) :
    flexPop it l data =
      if Gen.cFlexPopSome_cond slots.length then (flexTruncate it l (slots.length - 1) data).bind fun b => .ok (b, true)
      else .ok (data.bytes, false) := by
  simp only [flexPop, hs, Res.bind, Gen.cFlexPopSome_cond, decide_eq_true_eq]
  by_cases h : slots.length = 0
  · simp [h]
  · have : slots.length > 0 := by omega
    simp [h, this]

/-- the generated validators of enums: the tag range test of `tag.rs` (`*tag < #var_count`, else `InvalidEnumTag @ 0`) and, for an
unsized enum, the per-variant room test of `cast.rs` — made on the payload *after* it has been floored to the alignment (the site
regex requires that order), refused with the extracted kind -/
theorem guard_cenum (tag : LenTy) (n : Nat) (s : Slice) (t : Nat) (hr : tag.readU s = .ok t) :
    (cenumD tag n).validateU s = if Gen.cTagInRange_cond t n then .ok () else .err ⟨.invalidEnumTag, 0⟩ := by
  simp only [cenumD, hr, Gen.cTagInRange_cond, decide_eq_true_eq, Bind.bind, Res.bind]
  split <;> rfl
theorem guard_uenum (tag : LenTy) (vs : List (List Dict)) (s : Slice) (t : Nat) (hr : tag.readU s = .ok t) :
    (uenumD tag vs).validateU s =
      let al := max tag.align (alignLL vs)
      let dOff := ceilMul tag.size al
      if Gen.cTagInRange_cond t vs.length then
        (s.dropU dOff).bind fun data =>
          let data := data.take (Gen.uenumValidateFloor data.len al)
          if Gen.gEnumVariantRoom_cond data.len (varMinSize (vs.getD t [])) dOff then .err ⟨Gen.gEnumVariantRoom_kind, dOff⟩
          else (validateAll (vs.getD t []) 0 data).offset (Gen.uenumPayloadErrPos dOff)
      else .err ⟨.invalidEnumTag, 0⟩ := by
  simp only [uenumD, hr, Gen.cTagInRange_cond, Gen.uenumPayloadErrPos, Gen.gEnumVariantRoom_cond, Gen.gEnumVariantRoom_kind, Gen.uenumValidateFloor, floorMul_eq,
    decide_eq_true_eq, Bind.bind, Res.bind]
  split
  · cases s.dropU (ceilMul tag.size (max tag.align (alignLL vs))) <;> simp
  · rfl

/-- `FlexVec::validate_unchecked`: an item's error is reported at the extracted position (slot position + offset size); the slot
reader's own refusal at the slot position -/
theorem flex_item_pos_last (d : Dict) (l : LenTy) (os f pos : Nat) (data hd payload : Slice)
    (hal : data.addr % max l.align d.align = 0) (hc : checkAlignMin l.align l.size data = .ok ()) (hr : l.readU data = .ok l.max)
    (hn : l.max ≠ 0) (hroom : ¬ os > data.len) (hs : data.splitAt os = .ok (hd, payload)) :
    flexValidate d l os (f + 1) pos data = (d.validate payload).offset (Gen.flexItemErrPos pos os) := by
  unfold flexValidate
  simp [hal, hc, hr, hn, hroom, hs, Gen.flexItemErrPos]
theorem flex_item_pos_inner (d : Dict) (l : LenTy) (os f pos next : Nat) (data item rest hd payload : Slice)
    (hal : data.addr % max l.align d.align = 0) (hc : checkAlignMin l.align l.size data = .ok ()) (hr : l.readU data = .ok next)
    (hn : next ≠ 0) (hl : next ≠ l.max) (ho : ¬ os > next) (hroom : ¬ os > data.len) (hroom2 : ¬ next > data.len)
    (hs : data.splitAt next = .ok (item, rest)) (hs2 : item.splitAt os = .ok (hd, payload)) :
    flexValidate d l os (f + 1) pos data =
      match (d.validate payload).offset (Gen.flexItemErrPos pos os) with
      | .ok () => flexValidate d l os f (pos + next) rest
      | r => r := by
  conv => lhs; unfold flexValidate
  simp [hal, hc, hr, hn, hl, ho, hroom, hroom2, hs, hs2, Gen.flexItemErrPos]
  generalize (d.validate payload).offset (pos + os) = r
  cases r <;> rfl
theorem flex_slot_read_pos (d : Dict) (l : LenTy) (os f pos : Nat) (data : Slice) (e : Err)
    (hal : data.addr % max l.align d.align = 0) (hc : checkAlignMin l.align l.size data = .err e) :
    flexValidate d l os (f + 1) pos data = .err ⟨e.kind, Gen.errOffset e.pos (Gen.flexSlotReadErrPos pos)⟩ := by
  unfold flexValidate
  simp [hal, hc, Gen.flexSlotReadErrPos, Gen.errOffset]
/-- the same two tests as a method of the field walker (`TypeIter::check_align_and_min_size`, reached through `DataIter::new`) -/
theorem guard_iterCheck (al mn : Nat) (s : Slice) :
    checkAlignMin al mn s =
      if Gen.gIterCheckAlign_cond (s.addr % al) then .err ⟨Gen.gIterCheckAlign_kind, Gen.gIterCheckAlign_pos (s.addr % al)⟩
      else if Gen.gIterCheckMin_cond s.len mn then .err ⟨Gen.gIterCheckMin_kind, Gen.gIterCheckMin_pos s.len mn⟩
      else .ok () := by
  simp [checkAlignMin, Gen.gIterCheckAlign_cond, Gen.gIterCheckAlign_kind, Gen.gIterCheckAlign_pos, Gen.gIterCheckMin_cond, Gen.gIterCheckMin_kind, Gen.gIterCheckMin_pos]
/-- the generated struct emplacer builds the *checking* walker (`BytesMutIter::new`, which tests the whole floored buffer) and
reports its refusal at the extracted offset, before anything is written -/
theorem guard_initWalker (fs : List Ty) (last : Ty) (vals : List Bytes) (li : Init) (s : Slice) (e : Err)
    (h : checkAlignMin (alignL (dictL fs ++ [last.dict])) (minSizeL (dictL fs ++ [last.dict]) 0)
      (s.take (Gen.iterNewChecks (Gen.initFloor s.len (alignL (dictL fs ++ [last.dict]))))) = .err e) :
    emplaceU (.ustruct fs last) (.ustruct vals li) s = .ok ⟨s.bytes, .error ⟨e.kind, e.pos + Gen.initWalkerErrPos 0⟩⟩ := by
  have h' : checkAlignMin (alignL (dictL fs ++ [last.dict])) (minSizeL (dictL fs ++ [last.dict]) 0)
      (s.take (floorMul s.len (alignL (dictL fs ++ [last.dict])))) = .err e := h
  cases e
  simp [emplaceU, h', Gen.initWalkerErrPos]
/-- the generated enum emplacer tests the chosen variant's room and alignment on the floored payload *before* it writes the tag, and
reports the refusal at the extracted offset with nothing written -/
theorem guard_initEnum (tag : LenTy) (vs : List (List Ty)) (idx : Nat) (vals : List Bytes) (li : Option Init) (s : Slice) (e : Err)
    (hroom : ¬ s.len < ceilMul tag.size (max tag.align (alignLL (dictLL vs))))
    (hv : ((dictLL vs).getD idx []).isEmpty = false)
    (h : checkAlignMin (alignL ((dictLL vs).getD idx [])) (minSizeL ((dictLL vs).getD idx []) 0)
      ((s.drop (ceilMul tag.size (max tag.align (alignLL (dictLL vs))))).take
        (Gen.initEnumFloor (s.len - ceilMul tag.size (max tag.align (alignLL (dictLL vs)))) (max tag.align (alignLL (dictLL vs))))) = .err e) :
    emplaceU (.uenum tag vs) (.uenum idx vals li) s =
      .ok ⟨s.bytes, .error ⟨e.kind, e.pos + Gen.initEnumCheckPos (ceilMul tag.size (max tag.align (alignLL (dictLL vs))))⟩⟩ := by
  have h' : checkAlignMin (alignL ((dictLL vs).getD idx [])) (minSizeL ((dictLL vs).getD idx []) 0)
      ((s.drop (ceilMul tag.size (max tag.align (alignLL (dictLL vs))))).take
        (floorMul (s.len - ceilMul tag.size (max tag.align (alignLL (dictLL vs)))) (max tag.align (alignLL (dictLL vs))))) = .err e := h
  cases e
  simp only [List.getD_eq_getElem?_getD] at hv h'
  have hv' : (dictLL vs)[idx]?.getD [] ≠ [] := by intro hh; rw [hh] at hv; simp at hv
  simp [emplaceU, hroom, hv', h', Gen.initEnumCheckPos]
theorem guards_untranslatable_none : (Gen.initEnumFloor_untranslatable || Gen.initEnumCheckPos_untranslatable || Gen.gBoolInvalid_untranslatable || Gen.arrElemStart_untranslatable || Gen.arrElemLen_untranslatable || Gen.arrElemErrPos_untranslatable || Gen.flexFillItemErrPos_untranslatable || Gen.flexItemErrPos_untranslatable || Gen.flexSlotReadErrPos_untranslatable || Gen.uenumPayloadErrPos_untranslatable || Gen.vecElemErrPos_untranslatable || Gen.strUtf8ErrPos_untranslatable || Gen.cVecElemsVisited_untranslatable || Gen.gIterCheckAlign_untranslatable || Gen.gIterCheckMin_untranslatable || Gen.initWalkerErrPos_untranslatable || Gen.iterNewChecks_untranslatable || Gen.cFlexTruncNoop_untranslatable || Gen.cFlexTruncEmpty_untranslatable || Gen.cFlexPopSome_untranslatable || Gen.gFlexPushRoom_untranslatable || Gen.flexPushItemErrPos_untranslatable || Gen.gEnumVariantRoom_untranslatable || Gen.cTagInRange_untranslatable || Gen.gCheckAlign_untranslatable || Gen.gCheckMin_untranslatable || Gen.gVecValidate_untranslatable ||
    Gen.gVecFromArray_untranslatable || Gen.gStrValidate_untranslatable || Gen.gFlexSlotAlign_untranslatable || Gen.gFlexBadOffset_untranslatable ||
    Gen.gFlexShort_untranslatable || Gen.gFlexFillRoom_untranslatable || Gen.gFlexFillSeal_untranslatable || Gen.gFlexPushSeal_untranslatable) = false := by decide
end FV.Bridge
