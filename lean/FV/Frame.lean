import FV.View
/-! C05 / C06 (structural part): size is within the slice, validation and size depend only on the first
`size` bytes (so trailing bytes never matter and truncating to `size` loses nothing), and every proper
prefix of those bytes is reported as `InsufficientSize`. -/
namespace FV

/-- `size()` of the view mapped from `s` -/
def Dict.sizeV (d : Dict) (s : Slice) : Res Nat := d.size s

def Insuff {α} (r : Res α) : Prop := ∃ p, r = .err ⟨.insufficientSize, p⟩

structure FrameLaw (d : Dict) : Prop where
  size_ok : ∀ s, s.addr % d.align = 0 → d.minSize ≤ s.len → d.validateU s = .ok () →
      ∃ z, d.sizeV s = .ok z ∧ z ≤ s.len ∧ z % d.align = 0 ∧ d.minSize ≤ z
  loc : ∀ s z, s.addr % d.align = 0 → d.minSize ≤ s.len → d.validateU s = .ok () → d.sizeV s = .ok z →
      ∀ s', s'.addr = s.addr → z ≤ s'.len → s'.bytes.take z = s.bytes.take z →
        d.validateU s' = .ok () ∧ d.sizeV s' = .ok z
  pre : ∀ s z, s.addr % d.align = 0 → d.minSize ≤ s.len → d.validateU s = .ok () → d.sizeV s = .ok z →
      ∀ k, k < z → Insuff (d.validate (s.take k))
  sized_sizeV : ∀ n, d.sized = some n → ∀ s, d.sizeV s = .ok n

/-! ### list facts -/
theorem take_take_eq {α} {a b : List α} {n k : Nat} (h : a.take n = b.take n) (hk : k ≤ n) : a.take k = b.take k := by
  have h1 : (a.take n).take k = (b.take n).take k := by rw [h]
  simpa [List.take_take, Nat.min_eq_left hk] using h1

theorem drop_take_eq {α} {a b : List α} {n off k : Nat} (h : a.take n = b.take n) (hk : off + k ≤ n) :
    (a.drop off).take k = (b.drop off).take k := by
  have h1 : ((a.take n).drop off).take k = ((b.take n).drop off).take k := by rw [h]
  simpa [List.drop_take, List.take_take, show min k (n - off) = k by omega] using h1

theorem validate_short {d : Dict} {s : Slice} (ha : s.addr % d.align = 0) (hk : s.len < d.minSize) :
    Insuff (d.validate s) := by
  refine ⟨0, ?_⟩
  simp [Dict.validate, checkAlignMin, ha, hk]

/-! ### sized types -/
theorem sized_frame (d : Dict) (sz : Nat) (hsized : d.sized = some sz) (hmin : d.minSize = sz) (hmod : sz % d.align = 0)
    (hview : ∀ n, d.viewLen n = .ok sz) (hsize : ∀ s, d.size s = .ok sz)
    (hloc : ∀ s s', s.addr % d.align = 0 → s'.addr = s.addr → sz ≤ s.len → sz ≤ s'.len →
      s'.bytes.take sz = s.bytes.take sz → d.validateU s = .ok () → d.validateU s' = .ok ()) : FrameLaw d :=
  { size_ok := by
      intro s _ hl _
      exact ⟨sz, by simp [Dict.sizeV, hview, hsize], by omega, hmod, by omega⟩
    loc := by
      intro s z hal hl hv hz s' ha hl' hb
      have : z = sz := by simp [Dict.sizeV, hview, hsize] at hz; omega
      subst this
      exact ⟨hloc s s' hal ha (by omega) hl' hb hv, by simp [Dict.sizeV, hview, hsize]⟩
    pre := by
      intro s z ha _ _ hz k hk
      have : z = sz := by simp [Dict.sizeV, hview, hsize] at hz; omega
      subst this
      apply validate_short (by simpa using ha)
      simp only [Slice.len_take]; omega
    sized_sizeV := by
      intro n hn s
      rw [hsized] at hn; cases hn
      simp [Dict.sizeV, hview, hsize] }

theorem prim_frame (s a : Nat) (hs : s % a = 0) : FrameLaw (primD s a) :=
  sized_frame _ s rfl rfl hs (fun _ => rfl) (fun _ => rfl) (fun _ _ _ _ _ _ _ _ => rfl)

theorem bool_frame : FrameLaw boolD :=
  sized_frame _ 1 rfl rfl (Nat.mod_one 1) (fun _ => rfl) (fun _ => rfl) (by
    intro s s' _ _ h1 h2 hb hv
    simp only [boolD] at hv ⊢
    cases hs : s.bytes with
    | nil => simp [Slice.len, hs] at h1
    | cons b bs =>
      cases hs' : s'.bytes with
      | nil => simp [Slice.len, hs'] at h2
      | cons b' bs' =>
        rw [hs, hs'] at hb
        simp at hb; subst hb
        simpa [hs] using hv)

/-! ### arrays -/
theorem elem_slice_eq (s s' : Slice) (ha : s'.addr = s.addr) (N off k : Nat)
    (hb : s'.bytes.take N = s.bytes.take N) (hk : off + k ≤ N) :
    (s'.drop off).take k = (s.drop off).take k := by
  simp only [Slice.drop, Slice.take, ha]
  rw [drop_take_eq hb hk]

theorem arrLoop_congr (d : Dict) (sz : Nat) (hss : d.ssize = sz) (s s' : Slice) (ha : s'.addr = s.addr) (N : Nat)
    (hb : s'.bytes.take N = s.bytes.take N) (hl : N ≤ s.len) (hl' : N ≤ s'.len) :
    ∀ k i, (i + k) * sz ≤ N → arrLoop d s' k i = arrLoop d s k i := by
  intro k
  induction k with
  | zero => intro i _; simp [arrLoop]
  | succ k ih =>
    intro i hN
    have e1 : (i + (k + 1)) * sz = i * sz + (k+1) * sz := Nat.add_mul _ _ _
    have e2 : (k+1) * sz = k * sz + sz := Nat.succ_mul _ _
    have h1 : i * sz ≤ s.len := by omega
    have h1' : i * sz ≤ s'.len := by omega
    have h2 : sz ≤ s.len - i * sz := by omega
    have h2' : sz ≤ s'.len - i * sz := by omega
    simp only [arrLoop, hss, Res.bind_eq, Slice.dropU, h1, h1', if_true, Res.bind_ok, Slice.takeU, Slice.len_drop, h2, h2']
    rw [elem_slice_eq s s' ha N (i * sz) sz hb (by omega)]
    have := ih (i + 1) (by have : i + 1 + k = i + (k + 1) := by omega
                           rw [this]; exact hN)
    simp only [this]

theorem arr_frame (d : Dict) (hd : Law d) (sz : Nat) (hsz : d.sized = some sz) (n : Nat) : FrameLaw (arrD d n) := by
  have hss : d.ssize = sz := by simp [Dict.ssize, hsz]
  apply sized_frame _ (n * sz) (by simp [arrD, hss]) (by simp [arrD, hss]) ((arr_law d hd sz hsz n).sized_mod _ (by simp [arrD, hss]))
    (fun _ => by simp [arrD, hss]) (fun _ => by simp [arrD, hss])
  intro s s' _ ha h1 h2 hb hv
  simp only [arrD] at hv ⊢
  rw [arrLoop_congr d sz hss s s' ha (n * sz) hb h1 h2 n 0 (by simp)]
  exact hv
end FV
