import FV.ValOk
/-! C02: the content read from an accepted slice is a *well-typed* value of the type — the shape the descriptor prescribes at every
level: scalar leaves of the declared size, arrays of the declared length, one value per field, an enum tag below the number of
variants with the fields of that variant, containers within their capacity and within what the length type can count, valid UTF-8. -/
namespace FV

mutual
def ValWF : Ty → Val → Prop
  | .prim s _, .raw bs => bs.length = s
  | .bool, .bool _ => True
  | .arr t n, .arr xs => xs.length = n ∧ ValWFA t xs
  | .sstruct fs, .tuple xs => ValWFL fs xs
  | .cenum _ n, .tag i xs => i < n ∧ xs.length = 0
  | .senum _ vs, .tag i xs => i < vs.length ∧ ValWFL (vs.getD i []) xs
  | .vec t l, .vec cap xs => xs.length ≤ cap ∧ cap ≤ l.max ∧ ValWFA t xs
  | .vec _ l, .vecZ cap len => len ≤ cap ∧ cap ≤ l.max
  | .str l, .str cap bs => bs.length ≤ cap ∧ cap ≤ l.max ∧ utf8ValidUpTo (bs.length + 1) 0 bs = none
  | .flex t _, .flex xs => ValWFA t xs
  | .ustruct fs last, .tuple xs => ValWFL (fs ++ [last]) xs
  | .uenum _ vs, .tag i xs => i < vs.length ∧ ValWFL (vs.getD i []) xs
  | _, _ => False
/-- every element is a well-typed `t` -/
def ValWFA : Ty → List Val → Prop
  | _, [] => True
  | t, x :: xs => ValWF t x ∧ ValWFA t xs
/-- one well-typed value per field -/
def ValWFL : List Ty → List Val → Prop
  | [], [] => True
  | t :: ts, x :: xs => ValWF t x ∧ ValWFL ts xs
  | _, _ => False
end

/-- what a type owes -/
def WfLaw (t : Ty) : Prop := ∀ (s : Slice) (v : Val), t.dict.validateU s = .ok () → t.dict.walk s = .ok v → ValWF t v

theorem prim_wf (sz a : Nat) : WfLaw (.prim sz a) := by
  intro s v _ hw
  simp only [Ty.dict, primD] at hw
  unfold Slice.takeU at hw
  split at hw
  · rename_i hle
    simp only [Res.bind] at hw; cases hw
    simp only [ValWF, Slice.take, List.length_take]
    have : s.len = s.bytes.length := rfl
    omega
  · cases hw

theorem bool_wf : WfLaw .bool := by
  intro s v _ hw
  simp only [Ty.dict, boolD] at hw
  cases hs : s.bytes with
  | nil => rw [hs] at hw; cases hw
  | cons b bs => rw [hs] at hw; cases hw; trivial

theorem cenum_wf (tag : LenTy) (n : Nat) : WfLaw (.cenum tag n) := by
  intro s v hv hw
  simp only [Ty.dict, cenumD, Res.bind_eq] at hv hw
  cases hr : tag.readU s with
  | ok t =>
    rw [hr] at hv hw; simp only [Res.bind] at hv hw; cases hw
    split at hv
    · rename_i ht; exact ⟨ht, rfl⟩
    · cases hv
  | err e => rw [hr] at hw; cases hw
  | fault f => rw [hr] at hw; cases hw

theorem walkArr_wf (t : Ty) (ht : WfLaw t) (s : Slice) : ∀ (k i : Nat) (vs : List Val),
    arrLoop t.dict s k i = .ok () → walkArr t.dict s k i = .ok vs → vs.length = k ∧ ValWFA t vs := by
  intro k
  induction k with
  | zero => intro i vs _ hw; simp only [walkArr] at hw; cases hw; exact ⟨rfl, trivial⟩
  | succ k ih =>
    intro i vs hv hw
    simp only [arrLoop, Res.bind_eq] at hv
    simp only [walkArr] at hw
    cases ha : s.dropU (i * t.dict.ssize) with
    | ok a =>
      rw [ha] at hv hw; simp only [Res.bind] at hv hw
      cases he : a.takeU t.dict.ssize with
      | ok e =>
        rw [he] at hv hw; simp only [Res.bind] at hv hw
        cases hve : t.dict.validateU e with
        | ok u =>
          rw [hve] at hv; simp only [Res.offset, Res.bind] at hv
          cases hwe : t.dict.walk e with
          | ok v =>
            rw [hwe] at hw; simp only [Res.bind] at hw
            cases hr : walkArr t.dict s k (i + 1) with
            | ok rest =>
              rw [hr] at hw; simp only [Res.bind] at hw; cases hw
              obtain ⟨h1, h2⟩ := ih (i + 1) rest hv hr
              exact ⟨by simp [h1], ht e v hve hwe, h2⟩
            | err x => rw [hr] at hw; cases hw
            | fault x => rw [hr] at hw; cases hw
          | err x => rw [hwe] at hw; cases hw
          | fault x => rw [hwe] at hw; cases hw
        | err x => rw [hve] at hv; simp [Res.offset, Res.bind] at hv
        | fault x => rw [hve] at hv; simp [Res.offset, Res.bind] at hv
      | err x => rw [he] at hw; cases hw
      | fault x => rw [he] at hw; cases hw
    | err x => rw [ha] at hw; cases hw
    | fault x => rw [ha] at hw; cases hw

theorem arr_wf (t : Ty) (ht : WfLaw t) (n : Nat) : WfLaw (.arr t n) := by
  intro s v hv hw
  simp only [Ty.dict, arrD] at hv hw
  cases hr : walkArr t.dict s n 0 with
  | ok xs => rw [hr] at hw; simp only [Res.bind] at hw; cases hw; exact walkArr_wf t ht s n 0 xs hv hr
  | err x => rw [hr] at hw; cases hw
  | fault x => rw [hr] at hw; cases hw

/-- field lists -/
theorem walkAll_wf : ∀ (fs : List Ty), (∀ t ∈ fs, WfLaw t) → ∀ (pos : Nat) (data : Slice) (vs : List Val),
    validateAll (dictL fs) pos data = .ok () → walkAll (dictL fs) pos data = .ok vs → ValWFL fs vs := by
  intro fs
  induction fs with
  | nil => intro _ pos data vs _ hw; simp only [dictL, walkAll] at hw; cases hw; trivial
  | cons t ts ih =>
    intro hl pos data vs hv hw
    cases ts with
    | nil =>
      simp only [dictL, validateAll] at hv
      simp only [dictL, walkAll] at hw
      cases hve : t.dict.validateU data with
      | ok u =>
        cases hwe : t.dict.walk data with
        | ok v => rw [hwe] at hw; simp only [Res.bind] at hw; cases hw; exact ⟨hl t (by simp) data v hve hwe, trivial⟩
        | err x => rw [hwe] at hw; cases hw
        | fault x => rw [hwe] at hw; cases hw
      | err x => rw [hve] at hv; simp [Res.offset] at hv
      | fault x => rw [hve] at hv; simp [Res.offset] at hv
    | cons t' ts' =>
      simp only [dictL, validateAll] at hv
      simp only [dictL, walkAll] at hw
      cases hve : t.dict.validateU data with
      | ok u =>
        rw [hve] at hv; simp only [Res.offset] at hv
        cases hwe : t.dict.walk data with
        | ok v =>
          rw [hwe] at hw; simp only [Res.bind] at hw
          cases hsp : data.splitAt (ceilMul (pos + t.dict.ssize) t'.dict.align - pos) with
          | ok pr =>
            obtain ⟨hd', rest⟩ := pr
            rw [hsp] at hv hw; simp only at hv hw
            cases hr : walkAll (t'.dict :: dictL ts') (ceilMul (pos + t.dict.ssize) t'.dict.align) rest with
            | ok vs' =>
              rw [hr] at hw; simp only [Res.bind] at hw; cases hw
              exact ⟨hl t (by simp) data v hve hwe, ih (fun x hx => hl x (by simp [hx])) _ rest vs' (by simpa [dictL] using hv) (by simpa [dictL] using hr)⟩
            | err x => rw [hr] at hw; cases hw
            | fault x => rw [hr] at hw; cases hw
          | err x => rw [hsp] at hw; cases hw
          | fault x => rw [hsp] at hw; cases hw
        | err x => rw [hwe] at hw; cases hw
        | fault x => rw [hwe] at hw; cases hw
      | err x => rw [hve] at hv; simp [Res.offset] at hv
      | fault x => rw [hve] at hv; simp [Res.offset] at hv

theorem sstruct_wf (fs : List Ty) (hl : ∀ t ∈ fs, WfLaw t) : WfLaw (.sstruct fs) := by
  intro s v hv hw
  simp only [Ty.dict, sstructD] at hv hw
  cases hr : walkAll (dictL fs) 0 s with
  | ok xs => rw [hr] at hw; simp only [Res.bind] at hw; cases hw; exact walkAll_wf fs hl 0 s xs hv hr
  | err x => rw [hr] at hw; cases hw
  | fault x => rw [hr] at hw; cases hw

theorem dictLL_getD : ∀ (vs : List (List Ty)) (t : Nat), (dictLL vs).getD t [] = dictL (vs.getD t []) := by
  intro vs
  induction vs with
  | nil => intro t; simp [dictLL, dictL]
  | cons v vs ih =>
    intro t
    cases t with
    | zero => simp [dictLL]
    | succ k => simpa [dictLL] using ih k

theorem getD_wf : ∀ (vs : List (List Ty)), (∀ v ∈ vs, ∀ t ∈ v, WfLaw t) → ∀ (i : Nat), ∀ t ∈ vs.getD i [], WfLaw t := by
  intro vs
  induction vs with
  | nil => intro _ i t ht; simp at ht
  | cons v vs ih =>
    intro hl i t ht
    cases i with
    | zero => exact hl v (by simp) t (by simpa using ht)
    | succ k => exact ih (fun v' hv' => hl v' (by simp [hv'])) k t (by simpa using ht)

theorem dictLL_length (vs : List (List Ty)) : (dictLL vs).length = vs.length := by
  induction vs with
  | nil => rfl
  | cons v vs ih => simp [dictLL, ih]

theorem senum_wf (tag : LenTy) (vs : List (List Ty)) (hl : ∀ v ∈ vs, ∀ t ∈ v, WfLaw t) : WfLaw (.senum tag vs) := by
  intro s v hv hw
  simp only [Ty.dict, senumD, Res.bind_eq] at hv hw
  cases hr : tag.readU s with
  | ok t =>
    rw [hr] at hv hw; simp only [Res.bind] at hv hw
    split at hv
    · rename_i htl
      rw [dictLL_length] at htl
      cases hd : s.dropU (ceilMul tag.size (max tag.align (alignLL (dictLL vs)))) with
      | ok data =>
        rw [hd] at hv hw; simp only [Res.bind] at hv hw
        rw [dictLL_getD] at hv hw
        cases hva : validateAll (dictL (vs.getD t [])) 0 data with
        | ok u =>
          cases hwa : walkAll (dictL (vs.getD t [])) 0 data with
          | ok xs =>
            rw [hwa] at hw; simp only [Res.bind] at hw; cases hw
            exact ⟨htl, walkAll_wf _ (getD_wf vs hl t) 0 data xs hva hwa⟩
          | err x => rw [hwa] at hw; cases hw
          | fault x => rw [hwa] at hw; cases hw
        | err x => rw [hva] at hv; simp [Res.offset] at hv
        | fault x => rw [hva] at hv; simp [Res.offset] at hv
      | err x => rw [hd] at hw; cases hw
      | fault x => rw [hd] at hw; cases hw
    · cases hv
  | err x => rw [hr] at hw; cases hw
  | fault x => rw [hr] at hw; cases hw

theorem walkElems_wf (t : Ty) (ht : WfLaw t) (dOff : Nat) (s : Slice) : ∀ (k i : Nat) (vs : List Val),
    vecElems t.dict dOff s k i = .ok () → walkElems t.dict dOff s k i = .ok vs → vs.length = k ∧ ValWFA t vs := by
  intro k
  induction k with
  | zero => intro i vs _ hw; simp only [walkElems] at hw; cases hw; exact ⟨rfl, trivial⟩
  | succ k ih =>
    intro i vs hv hw
    simp only [vecElems, Res.bind_eq] at hv
    simp only [walkElems] at hw
    cases ha : s.dropU (dOff + i * t.dict.ssize) with
    | ok a =>
      rw [ha] at hv hw; simp only [Res.bind] at hv hw
      cases he : a.takeU t.dict.ssize with
      | ok e =>
        rw [he] at hv hw; simp only [Res.bind] at hv hw
        cases hve : t.dict.validateU e with
        | ok u =>
          rw [hve] at hv; simp only [Res.offset, Res.bind] at hv
          cases hwe : t.dict.walk e with
          | ok v =>
            rw [hwe] at hw; simp only [Res.bind] at hw
            cases hr : walkElems t.dict dOff s k (i + 1) with
            | ok rest =>
              rw [hr] at hw; simp only [Res.bind] at hw; cases hw
              obtain ⟨h1, h2⟩ := ih (i + 1) rest hv hr
              exact ⟨by simp [h1], ht e v hve hwe, h2⟩
            | err x => rw [hr] at hw; cases hw
            | fault x => rw [hr] at hw; cases hw
          | err x => rw [hwe] at hw; cases hw
          | fault x => rw [hwe] at hw; cases hw
        | err x => rw [hve] at hv; simp [Res.offset, Res.bind] at hv
        | fault x => rw [hve] at hv; simp [Res.offset, Res.bind] at hv
      | err x => rw [he] at hw; cases hw
      | fault x => rw [he] at hw; cases hw
    | err x => rw [ha] at hw; cases hw
    | fault x => rw [ha] at hw; cases hw

theorem vec_wf (t : Ty) (ht : WfLaw t) (l : LenTy) : WfLaw (.vec t l) := by
  intro s v hv hw
  simp only [Ty.dict, vecD, Res.bind_eq] at hv hw
  cases hr : l.readU s with
  | ok len =>
    rw [hr] at hv hw; simp only [Res.bind] at hv hw
    cases hsl : vecSlots t.dict l s.len with
    | ok slots =>
      rw [hsl] at hv hw; simp only [Res.bind] at hv hw
      by_cases hc : len > min slots l.max
      · simp [hc] at hv
      · simp only [hc, if_false] at hv
        by_cases hz : t.dict.ssize = 0
        · simp only [hz, if_true] at hw; cases hw; exact ⟨Nat.le_of_not_gt hc, Nat.min_le_right _ _⟩
        · simp only [hz, if_false] at hv hw
          cases hwe : walkElems t.dict (max l.size t.dict.align) s len 0 with
          | ok xs =>
            rw [hwe] at hw; simp only [Res.bind] at hw; cases hw
            obtain ⟨h1, h2⟩ := walkElems_wf t ht _ s len 0 xs hv hwe
            exact ⟨by rw [h1]; exact Nat.le_of_not_gt hc, Nat.min_le_right _ _, h2⟩
          | err x => rw [hwe] at hw; cases hw
          | fault x => rw [hwe] at hw; cases hw
    | err x => rw [hsl] at hw; cases hw
    | fault x => rw [hsl] at hw; cases hw
  | err x => rw [hr] at hw; cases hw
  | fault x => rw [hr] at hw; cases hw

theorem str_wf (l : LenTy) : WfLaw (.str l) := by
  intro s v hv hw
  have hok := str_okLaw l s v hv hw
  simp only [Ty.dict, strD, Res.bind_eq] at hw
  cases hr : l.readU s with
  | ok len =>
    rw [hr] at hw; simp only [Res.bind] at hw
    by_cases hlt : s.len < l.size
    · simp [hlt] at hw
    · simp only [hlt, if_false] at hw
      cases hw
      simp only [Val.ok] at hok
      exact ⟨hok.1, Nat.min_le_right _ _, hok.2⟩
  | err x => rw [hr] at hw; cases hw
  | fault x => rw [hr] at hw; cases hw

theorem walkFlex_wf (t : Ty) (ht : WfLaw t) (l : LenTy) (os : Nat) : ∀ (fuel pos : Nat) (data : Slice) (vs : List Val),
    flexValidate t.dict l os fuel pos data = .ok () → walkFlex t.dict l os fuel data = .ok vs → ValWFA t vs := by
  intro fuel
  induction fuel with
  | zero => intro pos data vs hv _; simp [flexValidate] at hv
  | succ fuel ih =>
    intro pos data vs hv hw
    simp only [flexValidate] at hv
    simp only [walkFlex] at hw
    split at hv
    · cases hv
    · cases hck : checkAlignMin l.align l.size data with
      | ok u =>
        rw [hck] at hv; simp only at hv
        cases hr : l.readU data with
        | ok next =>
          rw [hr] at hv hw; simp only [Res.bind] at hv hw
          by_cases hz : next = 0
          · simp only [hz, if_true] at hw; cases hw; trivial
          · simp only [hz, if_false] at hv hw
            split at hv
            · cases hv
            · split at hv
              · cases hv
              · by_cases hm : next = l.max
                · simp only [hm, if_true, decide_true] at hv hw
                  cases hsp : data.splitAt os with
                  | ok pr =>
                    obtain ⟨_, payload⟩ := pr
                    rw [hsp] at hv hw; simp only at hv hw
                    cases hvp : t.dict.validate payload with
                    | ok u2 =>
                      cases hwp : t.dict.walk payload with
                      | ok v =>
                        rw [hwp] at hw; simp only [Res.bind] at hw; cases hw
                        exact ⟨ht payload v (validate_ok_iff.1 hvp).2.2 hwp, trivial⟩
                      | err x => rw [hwp] at hw; cases hw
                      | fault x => rw [hwp] at hw; cases hw
                    | err x => rw [hvp] at hv; simp [Res.offset] at hv
                    | fault x => rw [hvp] at hv; simp [Res.offset] at hv
                  | err x => rw [hsp] at hw; cases hw
                  | fault x => rw [hsp] at hw; cases hw
                · simp only [hm, if_false, decide_false] at hv hw
                  cases hsp : data.splitAt next with
                  | ok pr =>
                    obtain ⟨item, rest⟩ := pr
                    rw [hsp] at hv hw; simp only at hv hw
                    cases hsp2 : item.splitAt os with
                    | ok pr2 =>
                      obtain ⟨_, payload⟩ := pr2
                      rw [hsp2] at hv hw; simp only at hv hw
                      cases hvp : t.dict.validate payload with
                      | ok u2 =>
                        rw [hvp] at hv; simp only [Res.offset] at hv
                        cases hwp : t.dict.walk payload with
                        | ok v =>
                          rw [hwp] at hw; simp only [Res.bind] at hw
                          cases hrr : walkFlex t.dict l os fuel rest with
                          | ok vs' =>
                            rw [hrr] at hw; simp only [Res.bind] at hw; cases hw
                            exact ⟨ht payload v (validate_ok_iff.1 hvp).2.2 hwp, ih _ rest vs' hv hrr⟩
                          | err x => rw [hrr] at hw; cases hw
                          | fault x => rw [hrr] at hw; cases hw
                        | err x => rw [hwp] at hw; cases hw
                        | fault x => rw [hwp] at hw; cases hw
                      | err x => rw [hvp] at hv; simp [Res.offset] at hv
                      | fault x => rw [hvp] at hv; simp [Res.offset] at hv
                    | err x => rw [hsp2] at hw; cases hw
                    | fault x => rw [hsp2] at hw; cases hw
                  | err x => rw [hsp] at hw; cases hw
                  | fault x => rw [hsp] at hw; cases hw
        | err x => rw [hr] at hw; cases hw
        | fault x => rw [hr] at hw; cases hw
      | err x => rw [hck] at hv; cases hv
      | fault x => rw [hck] at hv; cases hv

theorem flex_wf (t : Ty) (ht : WfLaw t) (l : LenTy) : WfLaw (.flex t l) := by
  intro s v hv hw
  simp only [Ty.dict, flexD] at hv hw
  cases hr : walkFlex t.dict l (max l.size t.dict.align) (s.len + 1) (s.take (floorMul s.len (max l.align t.dict.align))) with
  | ok xs => rw [hr] at hw; simp only [Res.bind] at hw; cases hw; exact walkFlex_wf t ht l _ _ 0 _ xs hv hr
  | err x => rw [hr] at hw; cases hw
  | fault x => rw [hr] at hw; cases hw

theorem dictL_append (a b : List Ty) : dictL (a ++ b) = dictL a ++ dictL b := by
  induction a with
  | nil => rfl
  | cons t ts ih => simp [dictL, ih]

theorem ustruct_wf (fs : List Ty) (last : Ty) (hl : ∀ t ∈ fs ++ [last], WfLaw t) : WfLaw (.ustruct fs last) := by
  intro s v hv hw
  simp only [Ty.dict, ustructD] at hv hw
  have e : dictL fs ++ [last.dict] = dictL (fs ++ [last]) := by rw [dictL_append]; rfl
  rw [e] at hv hw
  cases hr : walkAll (dictL (fs ++ [last])) 0 (s.take (floorMul s.len (alignL (dictL (fs ++ [last]))))) with
  | ok xs => rw [hr] at hw; simp only [Res.bind] at hw; cases hw; exact walkAll_wf _ hl 0 _ xs hv hr
  | err x => rw [hr] at hw; cases hw
  | fault x => rw [hr] at hw; cases hw

theorem uenum_wf (tag : LenTy) (vs : List (List Ty)) (hl : ∀ v ∈ vs, ∀ t ∈ v, WfLaw t) : WfLaw (.uenum tag vs) := by
  intro s v hv hw
  simp only [Ty.dict, uenumD, Res.bind_eq] at hv hw
  cases hr : tag.readU s with
  | ok t =>
    rw [hr] at hv hw; simp only [Res.bind] at hv hw
    split at hv
    · rename_i htl
      rw [dictLL_length] at htl
      cases hd : s.dropU (ceilMul tag.size (max tag.align (alignLL (dictLL vs)))) with
      | ok data =>
        rw [hd] at hv hw; simp only [Res.bind] at hv hw
        rw [dictLL_getD] at hv hw
        split at hv
        · cases hv
        · cases hva : validateAll (dictL (vs.getD t [])) 0 (data.take (floorMul data.len (max tag.align (alignLL (dictLL vs))))) with
          | ok u =>
            cases hwa : walkAll (dictL (vs.getD t [])) 0 (data.take (floorMul data.len (max tag.align (alignLL (dictLL vs))))) with
            | ok xs =>
              rw [hwa] at hw; simp only [Res.bind] at hw; cases hw
              exact ⟨htl, walkAll_wf _ (getD_wf vs hl t) 0 _ xs hva hwa⟩
            | err x => rw [hwa] at hw; cases hw
            | fault x => rw [hwa] at hw; cases hw
          | err x => rw [hva] at hv; simp [Res.offset] at hv
          | fault x => rw [hva] at hv; simp [Res.offset] at hv
      | err x => rw [hd] at hw; cases hw
      | fault x => rw [hd] at hw; cases hw
    · cases hv
  | err x => rw [hr] at hw; cases hw
  | fault x => rw [hr] at hw; cases hw

mutual
theorem Ty.wfLaw : ∀ t : Ty, WfLaw t
  | .prim s a => prim_wf s a
  | .bool => bool_wf
  | .arr t n => arr_wf t (Ty.wfLaw t) n
  | .sstruct fs => sstruct_wf fs (wfLawL fs)
  | .cenum tag n => cenum_wf tag n
  | .senum tag vs => senum_wf tag vs (wfLawLL vs)
  | .vec t l => vec_wf t (Ty.wfLaw t) l
  | .str l => str_wf l
  | .flex t l => flex_wf t (Ty.wfLaw t) l
  | .ustruct fs last => ustruct_wf fs last (by
      intro t ht
      rcases List.mem_append.mp ht with h | h
      · exact wfLawL fs t h
      · simp only [List.mem_singleton] at h; rw [h]; exact Ty.wfLaw last)
  | .uenum tag vs => uenum_wf tag vs (wfLawLL vs)
theorem wfLawL : ∀ fs : List Ty, ∀ t ∈ fs, WfLaw t
  | [] => by intro t ht; cases ht
  | t0 :: ts => by
      intro t ht
      rcases List.mem_cons.mp ht with h | hm
      · rw [h]; exact Ty.wfLaw t0
      · exact wfLawL ts t hm
theorem wfLawLL : ∀ vs : List (List Ty), ∀ v ∈ vs, ∀ t ∈ v, WfLaw t
  | [] => by intro v hv; cases hv
  | v0 :: vs => by
      intro v hv
      rcases List.mem_cons.mp hv with h | hm
      · rw [h]; exact wfLawL v0
      · exact wfLawLL vs v hm
end
end FV
#print axioms FV.Ty.wfLaw
