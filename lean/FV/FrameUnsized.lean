import FV.FrameVec
/-! Frame contract for unsized structs and unsized enums. -/
namespace FV

/-- `FoldSizeIter::fold_size` computes the extent -/
theorem foldSizeDyn_eq_extent :
    ∀ (ds : List Dict) (pos acc : Nat) (data : Slice), ds ≠ [] →
      (match ds with | [] => True | d :: _ => pos = ceilMul acc d.align) →
      foldSizeDyn ds pos acc data = extentAll ds pos data := by
  intro ds
  induction ds with
  | nil => intro _ _ _ h; exact absurd rfl h
  | cons d ds ih =>
    intro pos acc data _ hp
    cases ds with
    | nil =>
      simp only [foldSizeDyn, extentAll, Dict.sizeV, Res.bind_eq, Res.pure_eq]
      simp only at hp
      rw [hp]
    | cons d' ds' =>
      simp only [foldSizeDyn, extentAll]
      cases hs : data.splitAt (ceilMul (pos + d.ssize) d'.align - pos) with
      | ok pr =>
        obtain ⟨a, rest⟩ := pr
        simp only
        apply ih _ _ _ (by simp)
        simp only at hp ⊢
        rw [hp]
      | err e => rfl
      | fault f => rfl

/-- position of the last field = `LAST_FIELD_OFFSET`, and the extent is that plus the last field's size -/
theorem extentAll_append :
    ∀ (ds : List Dict) (last : Dict) (pos : Nat) (data : Slice), (∀ d ∈ ds, Law d) → Law last → AllSized ds →
      HeadAligned (ds ++ [last]) pos → minSizeL (ds ++ [last]) pos ≤ pos + data.len →
      extentAll (ds ++ [last]) pos data =
        (last.sizeV (data.drop (ceilMul (foldSize ds pos) last.align - pos))).bind
          fun z => .ok (ceilMul (foldSize ds pos) last.align + z) := by
  intro ds
  induction ds with
  | nil =>
    intro last pos data _ hlast _ hh _
    simp only [List.nil_append, HeadAligned] at hh
    simp only [List.nil_append, extentAll, foldSize, ceilMul_of_mod hlast.align_pow2.pos hh, Nat.sub_self]
    have : data.drop 0 = data := by simp [Slice.drop]
    rw [this]
  | cons d ds ih =>
    intro last pos data hl hlast hs hh hmin
    have hL := hl d (by simp)
    have hcm : ceilMul pos d.align = pos := ceilMul_of_mod hL.align_pow2.pos (by simpa [HeadAligned] using hh)
    -- the element following `d`
    obtain ⟨d', rest, hrest⟩ : ∃ d' rest, ds ++ [last] = d' :: rest := by
      cases ds with
      | nil => exact ⟨last, [], rfl⟩
      | cons x xs => exact ⟨x, xs ++ [last], rfl⟩
    have hL' : Law d' := by
      cases ds with
      | nil => simp at hrest; rw [← hrest.1]; exact hlast
      | cons x xs => simp at hrest; rw [← hrest.1]; exact hl x (by simp)
    have hall : ∀ x ∈ d' :: rest, 0 < x.align := by
      intro x hx
      rw [← hrest] at hx
      rcases List.mem_append.1 hx with h | h
      · exact (hl x (by simp [h])).align_pow2.pos
      · simp at h; subst h; exact hlast.align_pow2.pos
    have hnext := next_le_minSizeL d d' rest pos hall hcm
    have hge : pos ≤ ceilMul (pos + d.ssize) d'.align := by
      have := le_ceilMul (x := pos + d.ssize) hL'.align_pow2.pos; omega
    have hminc : minSizeL (d :: d' :: rest) pos ≤ pos + data.len := by
      have : d :: ds ++ [last] = d :: d' :: rest := by simp [hrest]
      rw [this] at hmin; exact hmin
    have hsplit : ceilMul (pos + d.ssize) d'.align - pos ≤ data.len := by omega
    have e0 : d :: ds ++ [last] = d :: d' :: rest := by simp [hrest]
    rw [e0]
    simp only [extentAll, Slice.splitAt, hsplit, if_true]
    rw [← hrest]
    rw [ih last _ _ (fun x hx => hl x (by simp [hx])) hlast (fun x hx => hs x (by simp [hx]))
      (by rw [hrest]; simp only [HeadAligned]; exact ceilMul_mod _ _)
      (by rw [hrest, minSizeL_next d d' rest pos hL'.align_pow2.pos hcm]; simp only [Slice.len_drop]; omega)]
    -- foldSize bookkeeping: the next position rounds to d'.align, foldSize rounds to the same
    have hfs : foldSize ds (ceilMul (pos + d.ssize) d'.align) = foldSize ds (pos + d.ssize) ∨ ds = [] := by
      cases ds with
      | nil => exact Or.inr rfl
      | cons x xs =>
        left
        simp at hrest
        simp only [foldSize]
        rw [← hrest.1, ceilMul_of_mod (hl x (by simp)).align_pow2.pos (ceilMul_mod _ _)]
    simp only [foldSize, hcm]
    rcases hfs with hfs | hnil
    · rw [hfs]
      have hle : ceilMul (pos + d.ssize) d'.align ≤ ceilMul (foldSize ds (pos + d.ssize)) last.align := by
        cases ds with
        | nil => simp at hrest; simp only [foldSize]; rw [hrest.1]; exact Nat.le_refl _
        | cons x xs =>
          simp at hrest
          simp only [foldSize]
          have h1 := le_ceilMul (x := pos + d.ssize) (hl x (by simp)).align_pow2.pos
          have h2 : ceilMul (pos + d.ssize) x.align + x.ssize ≤ foldSize xs (ceilMul (pos + d.ssize) x.align + x.ssize) := by
            have : ∀ (ys : List Dict) (p : Nat), (∀ y ∈ ys, 0 < y.align) → p ≤ foldSize ys p := by
              intro ys
              induction ys with
              | nil => intro p _; exact Nat.le_refl _
              | cons y ys ihy =>
                intro p hy
                simp only [foldSize]
                have := ihy (ceilMul p y.align + y.ssize) (fun z hz => hy z (by simp [hz]))
                have := le_ceilMul (x := p) (hy y (by simp)); omega
            exact this xs _ (fun y hy => (hl y (by simp [hy])).align_pow2.pos)
          have h3 := le_ceilMul (x := foldSize xs (ceilMul (pos + d.ssize) x.align + x.ssize)) hlast.align_pow2.pos
          rw [← hrest.1]; omega
      have hdd : (data.drop (ceilMul (pos + d.ssize) d'.align - pos)).drop
            (ceilMul (foldSize ds (pos + d.ssize)) last.align - ceilMul (pos + d.ssize) d'.align)
          = data.drop (ceilMul (foldSize ds (pos + d.ssize)) last.align - pos) := by
        simp only [Slice.drop, List.drop_drop, Slice.mk.injEq]
        constructor
        · omega
        · congr 1; omega
      rw [hdd]
    · subst hnil
      simp at hrest
      simp only [foldSize]
      rw [← hrest.1, ceilMul_of_mod hlast.align_pow2.pos (ceilMul_mod _ _), Nat.sub_self]
      have hdd : (data.drop (ceilMul (pos + d.ssize) last.align - pos)).drop 0
          = data.drop (ceilMul (pos + d.ssize) last.align - pos) := by simp [Slice.drop]
      rw [hdd]

theorem Slice.take_take (s : Slice) (a b : Nat) (h : b ≤ a) : (s.take a).take b = s.take b := by
  simp only [Slice.take, List.take_take, Slice.mk.injEq, true_and]; congr 1; omega

theorem floor_lt_of_lt_ceil {k e m : Nat} (hm : 0 < m) (h : k < ceilMul e m) : floorMul k m < e := by
  have h1 := floorMul_le k m
  have hlt : floorMul k m < ceilMul e m := by omega
  have := mult_gap (floorMul_mod k m) (ceilMul_mod e m) hlt
  have := ceilMul_lt_add (x := e) hm
  omega

theorem ustruct_frame (ds : List Dict) (last : Dict) (hl : ∀ d ∈ ds, Law d) (hf : ∀ d ∈ ds, FrameLaw d)
    (hs : AllSized ds) (hlast : Law last) (hflast : FrameLaw last) : FrameLaw (ustructD ds last) := by
  have hall : ∀ d ∈ ds ++ [last], Law d := by
    intro d hd
    rcases List.mem_append.1 hd with h | h
    · exact hl d h
    · simp at h; subst h; exact hlast
  have hallf : ∀ d ∈ ds ++ [last], FrameLaw d := by
    intro d hd
    rcases List.mem_append.1 hd with h | h
    · exact hf d h
    · simp at h; subst h; exact hflast
  have hok : FieldsOk (ds ++ [last]) := ⟨hall, hallf, allSizedButLast_append ds last hs⟩
  have hapos := alignL_pos (ds ++ [last])
  have hms := minSizeL_append ds last hl hs 0
  have hhead : HeadAligned (ds ++ [last]) 0 := by cases ds <;> simp [HeadAligned]
  -- facts about an aligned slice of sufficient length
  have key : ∀ (s : Slice), s.addr % alignL (ds ++ [last]) = 0 → ceilMul (minSizeL (ds ++ [last]) 0) (alignL (ds ++ [last])) ≤ s.len →
      minSizeL (ds ++ [last]) 0 ≤ floorMul s.len (alignL (ds ++ [last])) ∧
      Placed (ds ++ [last]) 0 (s.take (floorMul s.len (alignL (ds ++ [last])))) ∧
      (s.take (floorMul s.len (alignL (ds ++ [last])))).len = floorMul s.len (alignL (ds ++ [last])) := by
    intro s hal hlen
    have h1 := le_ceilMul (x := minSizeL (ds ++ [last]) 0) hapos
    have h2 := floorMul_greatest hapos (ceilMul_mod (minSizeL (ds ++ [last]) 0) (alignL (ds ++ [last]))) hlen
    have h3 := floorMul_le s.len (alignL (ds ++ [last]))
    refine ⟨by omega, placed0 _ _ (fun d hd => by simpa using mod_trans hal (alignL_mod _ hall d hd)), ?_⟩
    simp only [Slice.len_take]; omega
  -- size in terms of the extent
  have hsize : ∀ (s : Slice) (e : Nat), ceilMul (minSizeL (ds ++ [last]) 0) (alignL (ds ++ [last])) ≤ s.len →
      s.addr % alignL (ds ++ [last]) = 0 →
      extentAll (ds ++ [last]) 0 (s.take (floorMul s.len (alignL (ds ++ [last])))) = .ok e →
      (ustructD ds last).sizeV s = .ok (ceilMul e (alignL (ds ++ [last]))) := by
    intro s e hlen hal he
    obtain ⟨k1, _, k3⟩ := key s hal hlen
    rw [extentAll_append ds last 0 _ hl hlast hs hhead (by rw [k3]; omega)] at he
    simp only [Nat.sub_zero] at he
    have hlfo : ceilMul (foldSize ds 0) last.align ≤ (s.take (floorMul s.len (alignL (ds ++ [last])))).len := by
      rw [k3]; omega
    simp only [Dict.sizeV, ustructD, Res.bind_eq, Slice.dropU, hlfo, if_true, Res.bind_ok]
    cases hz : last.size ((s.take (floorMul s.len (alignL (ds ++ [last])))).drop (ceilMul (foldSize ds 0) last.align)) with
    | fault f => simp [Dict.sizeV, hz] at he
    | err e' => simp [Dict.sizeV, hz] at he
    | ok z =>
      simp only [Dict.sizeV, hz, Res.bind_ok, Res.ok.injEq] at he
      simp [he]
  exact
  { sized_sizeV := by intro n h; simp [ustructD] at h
    size_ok := by
      intro s hal hlen hv
      simp only [ustructD] at hal hlen hv
      obtain ⟨k1, k2, k3⟩ := key s hal hlen
      obtain ⟨e, he, hele, hemin, _⟩ := fields_loc _ 0 _ hok k2 (by rw [k3]; omega) hv
      rw [k3] at hele
      refine ⟨_, hsize s e hlen hal he, ?_, ceilMul_mod _ _, ?_⟩
      · have := ceilMul_least (x := e) hapos (floorMul_mod s.len (alignL (ds ++ [last]))) (by omega)
        have := floorMul_le s.len (alignL (ds ++ [last])); omega
      · simp only [ustructD]; exact ceilMul_mono hemin
    loc := by
      intro s z hal hlen hv hz s' ha hl' hb
      simp only [ustructD] at hal hlen hv
      obtain ⟨k1, k2, k3⟩ := key s hal hlen
      obtain ⟨e, he, hele, hemin, hloc⟩ := fields_loc _ 0 _ hok k2 (by rw [k3]; omega) hv
      rw [k3] at hele
      rw [hsize s e hlen hal he] at hz; cases hz
      have hez := le_ceilMul (x := e) hapos
      have hzf : ceilMul e (alignL (ds ++ [last])) ≤ floorMul s'.len (alignL (ds ++ [last])) :=
        floorMul_greatest hapos (ceilMul_mod _ _) hl'
      have hlen' : ceilMul (minSizeL (ds ++ [last]) 0) (alignL (ds ++ [last])) ≤ s'.len := by
        have := ceilMul_mono (m := alignL (ds ++ [last])) hemin; omega
      obtain ⟨_, _, k3'⟩ := key s' (by rw [ha]; exact hal) hlen'
      have hfl := floorMul_le s.len (alignL (ds ++ [last]))
      have hfl' := floorMul_le s'.len (alignL (ds ++ [last]))
      obtain ⟨h1, h2⟩ := hloc (s'.take (floorMul s'.len (alignL (ds ++ [last])))) (by simp [ha]) (by rw [k3']; omega)
        (by
          simp only [Slice.take, List.take_take, Nat.sub_zero]
          rw [Nat.min_eq_left (by omega), Nat.min_eq_left (by omega)]
          exact take_take_eq hb (by omega))
      exact ⟨by simpa [ustructD] using h1, hsize s' e hlen' (by rw [ha]; exact hal) h2⟩
    pre := by
      intro s z hal hlen hv hz k hk
      simp only [ustructD] at hal hlen hv
      obtain ⟨k1, k2, k3⟩ := key s hal hlen
      obtain ⟨e, he, hele, hemin, _⟩ := fields_loc _ 0 _ hok k2 (by rw [k3]; omega) hv
      rw [k3] at hele
      rw [hsize s e hlen hal he] at hz; cases hz
      have hzle : ceilMul e (alignL (ds ++ [last])) ≤ floorMul s.len (alignL (ds ++ [last])) :=
        ceilMul_least hapos (floorMul_mod _ _) (by omega)
      have hfl := floorMul_le s.len (alignL (ds ++ [last]))
      by_cases hkm : k < ceilMul (minSizeL (ds ++ [last]) 0) (alignL (ds ++ [last]))
      · apply validate_short (by simpa [ustructD] using hal)
        simp only [ustructD, Slice.len_take]; omega
      · have hkl : (s.take k).len = k := by simp only [Slice.len_take]; omega
        rw [validate_eq_validateU (by simpa [ustructD] using hal) (by simp only [ustructD, hkl]; omega)]
        simp only [ustructD, hkl]
        have hkf := floorMul_le k (alignL (ds ++ [last]))
        rw [Slice.take_take s k _ hkf]
        have : s.take (floorMul k (alignL (ds ++ [last]))) =
            (s.take (floorMul s.len (alignL (ds ++ [last])))).take (floorMul k (alignL (ds ++ [last]))) := by
          rw [Slice.take_take]; omega
        rw [this]
        have hkmin : minSizeL (ds ++ [last]) 0 ≤ floorMul k (alignL (ds ++ [last])) := by
          have h1 := le_ceilMul (x := minSizeL (ds ++ [last]) 0) hapos
          have := floorMul_greatest hapos (ceilMul_mod (minSizeL (ds ++ [last]) 0) (alignL (ds ++ [last]))) (Nat.le_of_not_lt hkm)
          omega
        apply fields_pre _ 0 _ e hok k2 (by rw [k3]; omega) hv he
        · omega
        · have := floor_lt_of_lt_ceil hapos hk; omega
        · rw [k3]; omega }

theorem minList_le_mem : ∀ (xs : List Nat) (x : Nat), x ∈ xs → minList xs ≤ x := by
  intro xs
  induction xs with
  | nil => intro x hx; simp at hx
  | cons y ys ih =>
    intro x hx
    cases ys with
    | nil => simp at hx; subst hx; simp [minList]
    | cons y' ys' =>
      simp only [minList]
      rcases List.mem_cons.1 hx with rfl | hm
      · exact Nat.min_le_left _ _
      · exact Nat.le_trans (Nat.min_le_right _ _) (ih x hm)

theorem floorMul_add_of_mod {a x m : Nat} (hm : 0 < m) (ha : a % m = 0) : floorMul (a + x) m = a + floorMul x m := by
  apply Nat.le_antisymm
  · have h1 := floorMul_le (a + x) m
    have hge : a ≤ floorMul (a + x) m := floorMul_greatest hm ha (by omega)
    have hsub : (floorMul (a + x) m - a) % m = 0 := by
      have d1 := Nat.dvd_of_mod_eq_zero (floorMul_mod (a + x) m)
      have d2 := Nat.dvd_of_mod_eq_zero ha
      exact Nat.mod_eq_zero_of_dvd (Nat.dvd_sub d1 d2)
    have := floorMul_greatest (x := x) hm hsub (by omega)
    omega
  · exact floorMul_greatest hm (add_mod_zero ha (floorMul_mod x m)) (by have := floorMul_le x m; omega)

theorem Slice.drop_take_take (s : Slice) (off a b : Nat) (h : b ≤ a) :
    ((s.drop off).take a).take b = (s.drop off).take b := Slice.take_take _ a b h

theorem Slice.take_drop_take (s : Slice) (k off b : Nat) (hk : off ≤ k) (hb : b ≤ k - off) :
    ((s.take k).drop off).take b = (s.drop off).take b := by
  rw [Slice.take_drop s k off hk, Slice.take_take _ _ _ hb]

/-- what `validate_unchecked` of an unsized enum establishes -/
theorem uenum_valid_inv (tag : LenTy) (vs : List (List Dict)) (s : Slice) (dOff al : Nat)
    (hd : dOff = ceilMul tag.size (max tag.align (alignLL vs))) (ha : al = max tag.align (alignLL vs))
    (hlen : dOff ≤ s.len) (hv : (uenumD tag vs).validateU s = .ok ()) :
    ∃ t, tag.readU s = .ok t ∧ t < vs.length ∧
      varMinSize (vs.getD t []) ≤ floorMul (s.len - dOff) al ∧
      validateAll (vs.getD t []) 0 ((s.drop dOff).take (floorMul (s.len - dOff) al)) = .ok () := by
  subst hd ha
  simp only [uenumD] at hv
  cases hr : tag.readU s with
  | fault f => simp [hr] at hv
  | err e => simp [hr] at hv
  | ok t =>
    simp only [hr, Res.bind_eq, Res.bind_ok] at hv
    split at hv
    · rename_i hlt
      simp only [Slice.dropU, hlen, if_true, Res.bind_ok, Slice.len_drop, Slice.len_take] at hv
      have hmin : min (floorMul (s.len - ceilMul tag.size (max tag.align (alignLL vs))) (max tag.align (alignLL vs)))
          (s.len - ceilMul tag.size (max tag.align (alignLL vs)))
          = floorMul (s.len - ceilMul tag.size (max tag.align (alignLL vs))) (max tag.align (alignLL vs)) :=
        Nat.min_eq_left (floorMul_le _ _)
      rw [hmin] at hv
      split at hv
      · simp at hv
      · rename_i hge
        exact ⟨t, rfl, hlt, by omega, Res.offset_eq_ok.1 hv⟩
    · simp at hv

theorem uenum_frame (tag : LenTy) (ht : tag.Law) (vs : List (List Dict))
    (hl : ∀ v ∈ vs, ∀ d ∈ v, Law d) (hf : ∀ v ∈ vs, ∀ d ∈ v, FrameLaw d) (hs : ∀ v ∈ vs, AllSizedButLast v) :
    FrameLaw (uenumD tag vs) := by
  have hpa : Pow2 (max tag.align (alignLL vs)) := Pow2.of_max ht.align_pow2 (alignLL_pow2 vs hl)
  have hapos := hpa.pos
  have hdo := le_ceilMul (x := tag.size) hapos
  have hdom := ceilMul_mod tag.size (max tag.align (alignLL vs))
  have hminle := le_ceilMul (x := ceilMul tag.size (max tag.align (alignLL vs)) + minList (vs.map varMinSize)) hapos
  -- alignment of the payload for every field of every variant
  have hplaced : ∀ (s : Slice) (v : List Dict), s.addr % max tag.align (alignLL vs) = 0 → v ∈ vs → ∀ n,
      Placed v 0 ((s.drop (ceilMul tag.size (max tag.align (alignLL vs)))).take n) := by
    intro s v hal hmem n
    apply placed0
    intro d hd
    simp only [Slice.addr_take, Slice.addr_drop]
    apply add_mod_zero
    · exact mod_trans hal (mod_trans (Pow2.max_mod_right ht.align_pow2 (alignLL_pow2 vs hl)) (alignLL_mod vs hl _ hmem d hd))
    · exact mod_trans hdom (mod_trans (Pow2.max_mod_right ht.align_pow2 (alignLL_pow2 vs hl)) (alignLL_mod vs hl _ hmem d hd))
  -- size in terms of the extent of the active variant
  have hsize0 : ∀ (s : Slice) (t : Nat), ceilMul tag.size (max tag.align (alignLL vs)) ≤ s.len → tag.readU s = .ok t →
      vs.getD t [] = [] →
      (uenumD tag vs).sizeV s = .ok (ceilMul (ceilMul tag.size (max tag.align (alignLL vs)) + 0) (max tag.align (alignLL vs))) := by
    intro s t hlen hr hv
    simp only [Dict.sizeV, uenumD, hr, Res.bind_eq, Res.bind_ok, Slice.dropU, hlen, if_true, hv, List.isEmpty_nil,
      Res.pure_eq]
  have hsize1 : ∀ (s : Slice) (t e : Nat) (d0 : Dict) (v0 : List Dict), ceilMul tag.size (max tag.align (alignLL vs)) ≤ s.len →
      tag.readU s = .ok t → vs.getD t [] = d0 :: v0 → 0 < d0.align →
      extentAll (d0 :: v0) 0
        ((s.drop (ceilMul tag.size (max tag.align (alignLL vs)))).take
          (floorMul (s.len - ceilMul tag.size (max tag.align (alignLL vs))) (max tag.align (alignLL vs)))) = .ok e →
      (uenumD tag vs).sizeV s = .ok (ceilMul (ceilMul tag.size (max tag.align (alignLL vs)) + e) (max tag.align (alignLL vs))) := by
    intro s t e d0 v0 hlen hr hv hd0 he
    have hc0 : ceilMul 0 d0.align = 0 := ceilMul_of_mod hd0 (Nat.zero_mod _)
    simp only [Dict.sizeV, uenumD, hr, Res.bind_eq, Res.bind_ok, Slice.dropU, hlen, if_true, Slice.len_drop, hv,
      List.isEmpty_cons, Bool.false_eq_true, if_false]
    rw [foldSizeDyn_eq_extent _ 0 0 _ (by simp) (by simp only; exact hc0.symm), he]
    rfl
  exact
  { sized_sizeV := by intro n h; simp [uenumD] at h
    size_ok := by
      intro s hal hlen hv
      simp only [uenumD] at hal hlen
      obtain ⟨t, hr, hlt, hvm, hva⟩ := uenum_valid_inv tag vs s _ _ rfl rfl (by omega) hv
      have hmem := getD_mem vs t [] hlt
      have hfl := floorMul_le (s.len - ceilMul tag.size (max tag.align (alignLL vs))) (max tag.align (alignLL vs))
      have hmin1 : minList (vs.map varMinSize) ≤ varMinSize (vs.getD t []) :=
        minList_le_mem _ _ (List.mem_map.2 ⟨_, hmem, rfl⟩)
      have hdl : ((s.drop (ceilMul tag.size (max tag.align (alignLL vs)))).take
          (floorMul (s.len - ceilMul tag.size (max tag.align (alignLL vs))) (max tag.align (alignLL vs)))).len
          = floorMul (s.len - ceilMul tag.size (max tag.align (alignLL vs))) (max tag.align (alignLL vs)) := by
        simp only [Slice.len_take, Slice.len_drop]; omega
      have hbound : ∀ e, e ≤ floorMul (s.len - ceilMul tag.size (max tag.align (alignLL vs))) (max tag.align (alignLL vs)) →
          ceilMul (ceilMul tag.size (max tag.align (alignLL vs)) + e) (max tag.align (alignLL vs)) ≤ s.len := by
        intro e he
        have := ceilMul_least (x := ceilMul tag.size (max tag.align (alignLL vs)) + e) hapos
          (add_mod_zero hdom (floorMul_mod (s.len - ceilMul tag.size (max tag.align (alignLL vs))) (max tag.align (alignLL vs)))) (by omega)
        omega
      cases hvt : vs.getD t [] with
      | nil =>
        refine ⟨_, hsize0 s t (by omega) hr hvt, hbound 0 (by omega), ceilMul_mod _ _, ?_⟩
        have : varMinSize (vs.getD t []) = 0 := by rw [hvt]; rfl
        simp only [uenumD]
        apply ceilMul_mono; omega
      | cons d0 v0 =>
        rw [hvt] at hmem hva hvm
        have hok : FieldsOk (d0 :: v0) := ⟨hl _ hmem, hf _ hmem, hs _ hmem⟩
        have hvm' : minSizeL (d0 :: v0) 0 ≤ floorMul (s.len - ceilMul tag.size (max tag.align (alignLL vs))) (max tag.align (alignLL vs)) := by
          simpa [varMinSize] using hvm
        obtain ⟨e, he, hele, hemin, _⟩ := fields_loc _ 0 _ hok (hplaced s _ hal hmem _) (by rw [hdl]; omega) hva
        rw [hdl] at hele
        refine ⟨_, hsize1 s t e d0 v0 (by omega) hr hvt (hl _ hmem d0 (by simp)).align_pow2.pos he, hbound e (by omega), ceilMul_mod _ _, ?_⟩
        simp only [uenumD]
        apply ceilMul_mono
        have : varMinSize (vs.getD t []) = minSizeL (d0 :: v0) 0 := by rw [hvt]; rfl
        omega
    loc := by
      intro s z hal hlen hv hz s' ha hl' hb
      simp only [uenumD] at hal hlen
      obtain ⟨t, hr, hlt, hvm, hva⟩ := uenum_valid_inv tag vs s _ _ rfl rfl (by omega) hv
      have hmem := getD_mem vs t [] hlt
      have hfl := floorMul_le (s.len - ceilMul tag.size (max tag.align (alignLL vs))) (max tag.align (alignLL vs))
      have hdl : ((s.drop (ceilMul tag.size (max tag.align (alignLL vs)))).take
          (floorMul (s.len - ceilMul tag.size (max tag.align (alignLL vs))) (max tag.align (alignLL vs)))).len
          = floorMul (s.len - ceilMul tag.size (max tag.align (alignLL vs))) (max tag.align (alignLL vs)) := by
        simp only [Slice.len_take, Slice.len_drop]; omega
      -- common facts about s'
      have common : ∀ e, (uenumD tag vs).sizeV s = .ok (ceilMul (ceilMul tag.size (max tag.align (alignLL vs)) + e) (max tag.align (alignLL vs))) →
          ceilMul tag.size (max tag.align (alignLL vs)) ≤ s'.len ∧ tag.readU s' = .ok t ∧
          e ≤ floorMul (s'.len - ceilMul tag.size (max tag.align (alignLL vs))) (max tag.align (alignLL vs)) ∧
          ((s'.drop (ceilMul tag.size (max tag.align (alignLL vs)))).take
            (floorMul (s'.len - ceilMul tag.size (max tag.align (alignLL vs))) (max tag.align (alignLL vs)))).len
            = floorMul (s'.len - ceilMul tag.size (max tag.align (alignLL vs))) (max tag.align (alignLL vs)) := by
        intro e hze
        rw [hze] at hz; cases hz
        have hzge := le_ceilMul (x := ceilMul tag.size (max tag.align (alignLL vs)) + e) hapos
        have hfl' := floorMul_le (s'.len - ceilMul tag.size (max tag.align (alignLL vs))) (max tag.align (alignLL vs))
        refine ⟨by omega, ?_, ?_, ?_⟩
        · rw [readU_congr tag s s' ha (by omega) (by omega) (take_take_eq hb (by omega))]; exact hr
        · have hx : ceilMul (ceilMul tag.size (max tag.align (alignLL vs)) + e) (max tag.align (alignLL vs)) - ceilMul tag.size (max tag.align (alignLL vs))
              ≤ floorMul (s'.len - ceilMul tag.size (max tag.align (alignLL vs))) (max tag.align (alignLL vs)) := by
            apply floorMul_greatest hapos
            · have d1 := Nat.dvd_of_mod_eq_zero (ceilMul_mod (ceilMul tag.size (max tag.align (alignLL vs)) + e) (max tag.align (alignLL vs)))
              have d2 := Nat.dvd_of_mod_eq_zero hdom
              exact Nat.mod_eq_zero_of_dvd (Nat.dvd_sub d1 d2)
            · omega
          omega
        · simp only [Slice.len_take, Slice.len_drop]; omega
      cases hvt : vs.getD t [] with
      | nil =>
        have hz0 := hsize0 s t (by omega) hr hvt
        obtain ⟨c1, c2, c3, c4⟩ := common 0 hz0
        rw [hz0] at hz; cases hz
        refine ⟨?_, hsize0 s' t c1 c2 hvt⟩
        simp only [uenumD, c2, Res.bind_eq, Res.bind_ok, hlt, if_true, Slice.dropU, c1, hvt]
        simp [varMinSize, validateAll]
      | cons d0 v0 =>
        rw [hvt] at hmem hva hvm
        have hok : FieldsOk (d0 :: v0) := ⟨hl _ hmem, hf _ hmem, hs _ hmem⟩
        have hvm' : minSizeL (d0 :: v0) 0 ≤ floorMul (s.len - ceilMul tag.size (max tag.align (alignLL vs))) (max tag.align (alignLL vs)) := by
          simpa [varMinSize] using hvm
        obtain ⟨e, he, hele, hemin, hloc⟩ := fields_loc _ 0 _ hok (hplaced s _ hal hmem _) (by rw [hdl]; omega) hva
        rw [hdl] at hele
        have hd0 := (hl _ hmem d0 (by simp)).align_pow2.pos
        have hz1 := hsize1 s t e d0 v0 (by omega) hr hvt hd0 he
        obtain ⟨c1, c2, c3, c4⟩ := common e hz1
        rw [hz1] at hz; cases hz
        have hzge := le_ceilMul (x := ceilMul tag.size (max tag.align (alignLL vs)) + e) hapos
        obtain ⟨h1, h2⟩ := hloc ((s'.drop (ceilMul tag.size (max tag.align (alignLL vs)))).take
            (floorMul (s'.len - ceilMul tag.size (max tag.align (alignLL vs))) (max tag.align (alignLL vs))))
          (by simp [ha]) (by rw [c4]; omega)
          (by
            simp only [Slice.take, Slice.drop, List.take_take, Nat.sub_zero]
            rw [Nat.min_eq_left (by omega), Nat.min_eq_left (by omega)]
            exact drop_take_eq hb (by omega))
        refine ⟨?_, hsize1 s' t e d0 v0 c1 c2 hvt hd0 h2⟩
        simp only [uenumD, c2, Res.bind_eq, Res.bind_ok, hlt, if_true, Slice.dropU, c1, hvt, Slice.len_drop, c4]
        have : ¬ floorMul (s'.len - ceilMul tag.size (max tag.align (alignLL vs))) (max tag.align (alignLL vs)) < varMinSize (d0 :: v0) := by
          simp only [varMinSize, List.isEmpty_cons, Bool.false_eq_true, if_false]; omega
        simp only [this, if_false, h1, Res.offset_ok]
    pre := by
      intro s z hal hlen hv hz k hk
      simp only [uenumD] at hal hlen
      obtain ⟨t, hr, hlt, hvm, hva⟩ := uenum_valid_inv tag vs s _ _ rfl rfl (by omega) hv
      have hmem := getD_mem vs t [] hlt
      have hfl := floorMul_le (s.len - ceilMul tag.size (max tag.align (alignLL vs))) (max tag.align (alignLL vs))
      have hdl : ((s.drop (ceilMul tag.size (max tag.align (alignLL vs)))).take
          (floorMul (s.len - ceilMul tag.size (max tag.align (alignLL vs))) (max tag.align (alignLL vs)))).len
          = floorMul (s.len - ceilMul tag.size (max tag.align (alignLL vs))) (max tag.align (alignLL vs)) := by
        simp only [Slice.len_take, Slice.len_drop]; omega
      by_cases hkm : k < ceilMul (ceilMul tag.size (max tag.align (alignLL vs)) + minList (vs.map varMinSize)) (max tag.align (alignLL vs))
      · apply validate_short (by simpa [uenumD] using hal)
        simp only [uenumD, Slice.len_take]; omega
      · cases hvt : vs.getD t [] with
        | nil =>
          exfalso
          rw [hsize0 s t (by omega) hr hvt] at hz; cases hz
          simp only [Nat.add_zero] at hk
          rw [ceilMul_of_mod hapos hdom] at hk; omega
        | cons d0 v0 =>
          rw [hvt] at hmem hva hvm
          have hok : FieldsOk (d0 :: v0) := ⟨hl _ hmem, hf _ hmem, hs _ hmem⟩
          have hvm' : minSizeL (d0 :: v0) 0 ≤ floorMul (s.len - ceilMul tag.size (max tag.align (alignLL vs))) (max tag.align (alignLL vs)) := by
            simpa [varMinSize] using hvm
          obtain ⟨e, he, hele, hemin, _⟩ := fields_loc _ 0 _ hok (hplaced s _ hal hmem _) (by rw [hdl]; omega) hva
          rw [hdl] at hele
          have hd0 := (hl _ hmem d0 (by simp)).align_pow2.pos
          rw [hsize1 s t e d0 v0 (by omega) hr hvt hd0 he] at hz; cases hz
          have hzs : ceilMul (ceilMul tag.size (max tag.align (alignLL vs)) + e) (max tag.align (alignLL vs)) ≤ s.len := by
            have := ceilMul_least (x := ceilMul tag.size (max tag.align (alignLL vs)) + e) hapos
              (add_mod_zero hdom (floorMul_mod (s.len - ceilMul tag.size (max tag.align (alignLL vs))) (max tag.align (alignLL vs)))) (by omega)
            omega
          have hkl : (s.take k).len = k := by simp only [Slice.len_take]; omega
          rw [validate_eq_validateU (by simpa [uenumD] using hal) (by simp only [uenumD, hkl]; omega)]
          have hkd : ceilMul tag.size (max tag.align (alignLL vs)) ≤ k := by omega
          have hr' : tag.readU (s.take k) = .ok t := by
            rw [readU_congr tag s (s.take k) rfl (by omega) (by omega)
              (by simp only [Slice.take, List.take_take]; congr 1; omega)]; exact hr
          have hkf := floorMul_le (k - ceilMul tag.size (max tag.align (alignLL vs))) (max tag.align (alignLL vs))
          have hkF : floorMul (k - ceilMul tag.size (max tag.align (alignLL vs))) (max tag.align (alignLL vs)) ≤
              floorMul (s.len - ceilMul tag.size (max tag.align (alignLL vs))) (max tag.align (alignLL vs)) :=
            floorMul_mono (by omega)
          simp only [uenumD, hr', Res.bind_eq, Res.bind_ok, hlt, if_true, Slice.dropU, hkl, hkd, hvt, Slice.len_take,
            Slice.len_drop]
          rw [Nat.min_eq_left (by omega), Slice.take_drop_take s k _ _ hkd hkf]
          split
          · exact ⟨_, rfl⟩
          · rename_i hge
            simp only [varMinSize, List.isEmpty_cons, Bool.false_eq_true, if_false] at hge
            apply Insuff.offset
            have hdt := Slice.drop_take_take s (ceilMul tag.size (max tag.align (alignLL vs)))
              (floorMul (s.len - ceilMul tag.size (max tag.align (alignLL vs))) (max tag.align (alignLL vs)))
              (floorMul (k - ceilMul tag.size (max tag.align (alignLL vs))) (max tag.align (alignLL vs))) hkF
            rw [← hdt]
            apply fields_pre _ 0 _ e hok (hplaced s _ hal hmem _) (by rw [hdl]; omega) hva he
            · omega
            · have h1 := floor_lt_of_lt_ceil hapos hk
              have h2 : k = ceilMul tag.size (max tag.align (alignLL vs)) + (k - ceilMul tag.size (max tag.align (alignLL vs))) := by omega
              rw [h2, floorMul_add_of_mod hapos hdom] at h1
              omega
            · rw [hdl]; exact hkF }
end FV
