import FV.FrameFields
/-! C04 (a, b): the library's layout arithmetic equals the plain C layout rule. -/
namespace FV

/-- the C rule: each field at the next multiple of its alignment after the previous field's end -/
def cOffsets : List (Nat × Nat) → Nat → List Nat      -- (size, align), running end
  | [], _ => []
  | (s, a) :: fs, cur => ceilMul cur a :: cOffsets fs (ceilMul cur a + s)
def cEnd : List (Nat × Nat) → Nat → Nat
  | [], cur => cur
  | (s, a) :: fs, cur => cEnd fs (ceilMul cur a + s)
def cAlign : List (Nat × Nat) → Nat
  | [] => 1
  | (_, a) :: fs => max a (cAlign fs)
def cSize (fs : List (Nat × Nat)) : Nat := ceilMul (cEnd fs 0) (cAlign fs)

/-- positions visited by `PosIter` (`pos ↦ ceil_mul(pos + SIZE, NextALIGN)`), starting at `pos` -/
def posList : List Dict → Nat → List Nat
  | [], _ => []
  | [_], pos => [pos]
  | d :: d' :: ds, pos => pos :: posList (d' :: ds) (ceilMul (pos + d.ssize) d'.align)

def sa (d : Dict) : Nat × Nat := (d.ssize, d.align)

/-- **`PosIter` positions are the C offsets** (from a position already aligned for the first field) -/
theorem posList_eq_cOffsets : ∀ (ds : List Dict) (pos : Nat), (∀ d ∈ ds, 0 < d.align) → HeadAligned ds pos →
    posList ds pos = cOffsets (ds.map sa) pos := by
  intro ds
  induction ds with
  | nil => intro _ _ _; rfl
  | cons d ds ih =>
    intro pos hpos hh
    have hcm : ceilMul pos d.align = pos := ceilMul_of_mod (hpos d (by simp)) hh
    cases ds with
    | nil => simp [posList, cOffsets, sa, hcm]
    | cons d' ds' =>
      simp only [posList, List.map_cons, cOffsets, sa, hcm, List.cons.injEq, true_and]
      have := ih (ceilMul (pos + d.ssize) d'.align) (fun x hx => hpos x (by simp [hx])) (ceilMul_mod _ _)
      rw [this]
      simp only [List.map_cons, cOffsets, sa]
      rw [ceilMul_of_mod (hpos d' (by simp)) (ceilMul_mod _ _)]

/-- `fold_size!` = end of the C layout; `ALIGN` of a field list = C alignment; hence `SIZE` = C size -/
theorem foldSize_eq_cEnd : ∀ (ds : List Dict) (pos : Nat), foldSize ds pos = cEnd (ds.map sa) pos := by
  intro ds; induction ds with
  | nil => intro _; rfl
  | cons d ds ih => intro pos; simp only [foldSize, List.map_cons, cEnd, sa]; exact ih _
theorem alignL_eq_cAlign : ∀ ds : List Dict, alignL ds = cAlign (ds.map sa) := by
  intro ds; induction ds with
  | nil => rfl
  | cons d ds ih => simp only [alignL, List.map_cons, cAlign, sa, ih]
theorem sstruct_size_eq_c (ds : List Dict) : (sstructD ds).sized = some (cSize (ds.map sa)) := by
  simp [sstructD, cSize, foldSize_eq_cEnd, alignL_eq_cAlign]

/-- `DATA_OFFSET = ceil_mul(tag SIZE, ALIGN)` of an enum is the `repr(C, tag)` payload offset
`ceil_mul(tag SIZE, align of the payload union)` -/
theorem enum_dataOffset_eq_c (tag : LenTy) (ht : tag.Law) (u : Nat) (hu : Pow2 u) :
    ceilMul tag.size (max tag.align u) = ceilMul tag.size u := by
  by_cases h : u ≤ tag.align
  · rw [Nat.max_eq_left h]
    have h1 : tag.size % tag.align = 0 := ht.size_mod
    have h2 : tag.size % u = 0 := mod_trans h1 (hu.mod_of_le ht.align_pow2 h)
    rw [ceilMul_of_mod ht.align_pow2.pos h1, ceilMul_of_mod hu.pos h2]
  · rw [Nat.max_eq_right (by omega)]

/-- `FlatVec::DATA_OFFSET = max(L::SIZE, T::ALIGN)` is the C offset of the data after the length field -/
theorem vec_dataOffset_eq_c (l : LenTy) (hl : l.Law) (a : Nat) (ha : Pow2 a) :
    max l.size a = ceilMul l.size a := by
  by_cases h : a ≤ l.size
  · rw [Nat.max_eq_left h, ceilMul_of_mod ha.pos (ha.mod_of_le hl.size_pow2 h)]
  · rw [Nat.max_eq_right (by omega)]
    apply Nat.le_antisymm
    · have := le_ceilMul (x := l.size) ha.pos
      have hm := ceilMul_mod l.size a
      have hp := hl.size_pow2.pos
      obtain ⟨c, hc⟩ := Nat.dvd_of_mod_eq_zero hm
      rcases Nat.eq_zero_or_pos c with h0 | h0
      · subst h0; omega
      · have : a * 1 ≤ a * c := Nat.mul_le_mul_left _ h0
        omega
    · exact ceilMul_least ha.pos (Nat.mod_self a) (by omega)

/-- C17: with every alignment equal to 1 there is no padding: positions are running sums of sizes -/
theorem no_padding_of_align_one : ∀ (ds : List Dict) (pos : Nat), (∀ d ∈ ds, d.align = 1) →
    foldSize ds pos = pos + (ds.map Dict.ssize).sum ∧ alignL ds = 1 := by
  intro ds
  induction ds with
  | nil => intro pos _; simp [foldSize, alignL]
  | cons d ds ih =>
    intro pos h
    have hd := h d (by simp)
    obtain ⟨h1, h2⟩ := ih (pos + d.ssize) (fun x hx => h x (by simp [hx]))
    simp only [foldSize, alignL, hd, ceilMul_one, h1, h2, List.map_cons, List.sum_cons]
    omega
end FV
#print axioms FV.posList_eq_cOffsets
#print axioms FV.vec_dataOffset_eq_c
