import FV.FlexOps
import FV.C04Layout
/-! Operations on mapped containers, on bytes (`FlatVec` through `stavec::GenericVec`, `FlatString`, `FlexVec`),
mirroring the order and extent of the writes of the code. `s` is the slice the value is mapped from
(`from_mut_bytes(s)`); bytes outside the value's own bytes are never part of any write. -/
namespace FV

inductive Op where
  | push (x : Bytes) | pop | pushSlice (xs : List Bytes) | extend (xs : List Bytes) | trunc (n : Nat) | clear
  | remove (i : Nat) | swapRm (i : Nat) | resize (n : Nat) (x : Bytes) | set (i : Nat) (x : Bytes)
  | pushBytes (bs : Bytes)                       -- `FlatString::push(char)` / `push_str`
  | fpush (i : Init) | fpop | ftrunc (n : Nat) | fclear | item (i : Nat) (op : Op)
  | assign (i : Init)
  | setField (v i : Nat) (x : Bytes)             -- write the image of sized field `i` (of variant `v`) through the mutable accessor
  | last (op : Op)                               -- an operation on the unsized last field of a struct (`msg.tail.push(..)`)

inductive OpRet where
  | ok | full | none | some (bs : Bytes) | elem (bs : Bytes) | panic | err (e : Err) | empty | noitem | novariant
deriving DecidableEq

structure OpOut where
  ret : OpRet
  bytes : Bytes
deriving DecidableEq

/-- geometry of a `FlatVec<T, L>` mapped from `n` bytes -/
structure VecGeo where
  l : LenTy
  S : Nat
  dOff : Nat
  cap : Nat

def vecGeo (d : Dict) (l : LenTy) (n : Nat) : Res VecGeo :=
  (vecSlots d l n).bind fun slots => .ok ⟨l, d.ssize, max l.size d.align, min slots l.max⟩
def strGeo (l : LenTy) (n : Nat) : Res VecGeo :=
  if n < l.size then .fault .panic else .ok ⟨l, 1, l.size, min (floorMul (n - l.size) l.align) l.max⟩

def VecGeo.setLen (g : VecGeo) (bs : Bytes) (n : Nat) : Res Bytes := writeAt bs 0 (encLenTy g.l n)
def VecGeo.elemAt (g : VecGeo) (bs : Bytes) (i : Nat) : Bytes := (bs.drop (g.dOff + i * g.S)).take g.S

/-- `push_unchecked` repeated: write the items from index `len` on, then the new length -/
def VecGeo.appendAll (g : VecGeo) (bs : Bytes) (len : Nat) (xs : List Bytes) : Res Bytes :=
  (vecWriteElems g.S g.dOff xs len bs).bind fun b1 => g.setLen b1 (len + xs.length)

/-- the `GenericVec` / `GenericString` operations on the value's bytes; `len` already read -/
def vecOp (g : VecGeo) (bs : Bytes) (len : Nat) : Op → Res OpOut
  | .push x =>
    if len = g.cap then .ok ⟨.full, bs⟩
    else (g.appendAll bs len [x]).bind fun b => .ok ⟨.ok, b⟩
  | .pop =>
    if len = 0 then .ok ⟨.none, bs⟩
    else (g.setLen bs (len - 1)).bind fun b => .ok ⟨.some (g.elemAt bs (len - 1)), b⟩
  | .pushSlice xs =>
    if xs.length > g.cap - len then .ok ⟨.full, bs⟩
    else if xs.isEmpty then (g.setLen bs len).bind fun b => .ok ⟨.ok, b⟩
    else (g.appendAll bs len xs).bind fun b => .ok ⟨.ok, b⟩
  | .pushBytes xs =>
    if xs.length > g.cap - len then .ok ⟨.full, bs⟩
    else (writeAt bs (g.dOff + len) xs).bind fun b1 => (g.setLen b1 (len + xs.length)).bind fun b => .ok ⟨.ok, b⟩
  | .extend xs =>
    let fit := xs.take (g.cap - len)
    if fit.isEmpty then .ok ⟨.ok, bs⟩
    else (g.appendAll bs len fit).bind fun b => .ok ⟨.ok, b⟩
  | .trunc n =>
    if len ≤ n then .ok ⟨.ok, bs⟩ else (g.setLen bs n).bind fun b => .ok ⟨.ok, b⟩
  | .clear =>
    if len = 0 then .ok ⟨.ok, bs⟩ else (g.setLen bs 0).bind fun b => .ok ⟨.ok, b⟩
  | .remove i =>
    if i < len then
      let moved := (bs.drop (g.dOff + (i + 1) * g.S)).take ((len - i - 1) * g.S)
      (writeAt bs (g.dOff + i * g.S) moved).bind fun b1 => (g.setLen b1 (len - 1)).bind fun b => .ok ⟨.elem (g.elemAt bs i), b⟩
    else .ok ⟨.panic, bs⟩
  | .swapRm i =>
    if i < len then
      (writeAt bs (g.dOff + i * g.S) (g.elemAt bs (len - 1))).bind fun b1 =>
        (g.setLen b1 (len - 1)).bind fun b => .ok ⟨.elem (g.elemAt bs i), b⟩
    else .ok ⟨.panic, bs⟩
  | .resize n x =>
    if n ≤ len then
      if len ≤ n then .ok ⟨.ok, bs⟩ else (g.setLen bs n).bind fun b => .ok ⟨.ok, b⟩
    else if n ≤ g.cap then (g.appendAll bs len (List.replicate (n - len) x)).bind fun b => .ok ⟨.ok, b⟩
    else .ok ⟨.panic, bs⟩
  | .set i x =>
    if i < len then (writeAt bs (g.dOff + i * g.S) x).bind fun b => .ok ⟨.ok, b⟩ else .ok ⟨.panic, bs⟩
  | _ => .fault .panic

def retOfRes : Except Err Unit → OpRet
  | .ok () => .ok
  | .error e => .err e

/-- the payload range `(offset, length)` of item `i` inside the (floored) FlexVec bytes -/
def flexItemRange (l : LenTy) (os : Nat) : Nat → Nat → Nat → Slice → Res (Option (Nat × Nat))
  | 0, _, _, _ => .fault .fuel
  | fuel+1, i, pos, data =>
    (l.readU data).bind fun next =>
      if next = 0 then .ok none
      else if next = l.max then
        if i = 0 then .ok (some (pos + os, data.len - os)) else .ok none
      else if i = 0 then .ok (some (pos + os, next - os))
      else (data.splitAt next).bind fun (_, rest) => flexItemRange l os fuel (i - 1) (pos + next) rest

/-- `self.field = image` / `*binding = image` through `as_mut()`: the image of sized field `i` of the field list `ds`, which
starts `base` bytes into the value, is written at the position the field walker (`PosIter`) computes for it -/
def setFieldAt (ds : List Dict) (base i : Nat) (x : Bytes) (bs : Bytes) : Res OpOut :=
  match ds[i]?, (posList ds 0)[i]? with
  | some d, some p =>
    if d.sized = some x.length then (writeAt bs (base + p) x).bind fun b => .ok ⟨.ok, b⟩ else .fault .panic
  | _, _ => .fault .panic

/-- apply an operation to the value mapped from `s` -/
def applyOp : Op → Ty → Slice → Res OpOut
  | .assign i, t, s => (assign t i s).bind fun o => .ok ⟨retOfRes o.res, o.bytes⟩
  | .setField _ i x, .ustruct fs last, s => setFieldAt (dictL fs ++ [last.dict]) 0 i x s.bytes
  | .setField v i x, .uenum tag vs, s =>
    (tag.readU s).bind fun t =>
      if t ≠ v then .ok ⟨.novariant, s.bytes⟩
      else setFieldAt ((dictLL vs).getD t []) (ceilMul tag.size (max tag.align (alignLL (dictLL vs)))) i x s.bytes
  | .last op, .ustruct fs last, s =>
    -- the last field is mapped from the struct's own (floored) bytes behind `LAST_FIELD_OFFSET`
    let ds := dictL fs
    let al := alignL (ds ++ [last.dict])
    let n := floorMul s.len al
    let lfo := ceilMul (foldSize ds 0) last.dict.align
    if n < lfo then .fault .panic else
    (applyOp op last ⟨s.addr + lfo, (s.bytes.take n).drop lfo⟩).bind fun o =>
      .ok ⟨o.ret, s.bytes.take lfo ++ o.bytes ++ s.bytes.drop n⟩
  | .last op, .uenum tag vs, s =>
    -- the unsized last field of the *current* variant, mapped from the enum's (floored) payload behind that variant's sized fields
    (tag.readU s).bind fun t =>
      let al := max tag.align (alignLL (dictLL vs))
      let dOff := ceilMul tag.size al
      match (vs.getD t []).getLast? with
      | none => .ok ⟨.novariant, s.bytes⟩
      | some lt =>
        if lt.dict.sized.isSome then .ok ⟨.novariant, s.bytes⟩
        else if s.len < dOff then .fault .panic
        else
          let n := floorMul (s.len - dOff) al
          let lpos := lastPos ((dictLL vs).getD t []) 0
          if n < lpos then .fault .panic else
          (applyOp op lt ⟨s.addr + dOff + lpos, ((s.bytes.drop dOff).take n).drop lpos⟩).bind fun o =>
            .ok ⟨o.ret, s.bytes.take (dOff + lpos) ++ o.bytes ++ s.bytes.drop (dOff + n)⟩
  | .fpush i, .flex it l, s =>
    let al := max l.align it.dict.align
    let n := floorMul s.len al
    (flexPush it l i (s.take n)).bind fun o => .ok ⟨retOfRes o.res, o.bytes ++ s.bytes.drop n⟩
  | .fpop, .flex it l, s =>
    let n := floorMul s.len (max l.align it.dict.align)
    (flexPop it l (s.take n)).bind fun (b, r) => .ok ⟨if r then .ok else .empty, b ++ s.bytes.drop n⟩
  | .ftrunc k, .flex it l, s =>
    let n := floorMul s.len (max l.align it.dict.align)
    (flexTruncate it l k (s.take n)).bind fun b => .ok ⟨.ok, b ++ s.bytes.drop n⟩
  | .fclear, .flex it l, s =>
    let n := floorMul s.len (max l.align it.dict.align)
    (flexTruncate it l 0 (s.take n)).bind fun b => .ok ⟨.ok, b ++ s.bytes.drop n⟩
  | .item i op, .flex it l, s =>
    let n := floorMul s.len (max l.align it.dict.align)
    let os := max l.size it.dict.align
    (flexItemRange l os (n + 1) i 0 (s.take n)).bind fun r =>
      match r with
      | none => .ok ⟨.noitem, s.bytes⟩
      | some (off, len) =>
        (applyOp op it ⟨s.addr + off, (s.bytes.drop off).take len⟩).bind fun o =>
          .ok ⟨o.ret, s.bytes.take off ++ o.bytes ++ s.bytes.drop (off + len)⟩
  | op, .vec et l, s =>
    (vecGeo et.dict l s.len).bind fun g => (l.readU s).bind fun len => vecOp g s.bytes len op
  | op, .str l, s =>
    (strGeo l s.len).bind fun g => (l.readU s).bind fun len => vecOp g s.bytes len op
  | _, _, _ => .fault .panic
end FV

namespace FV
def Op.subst (a b : UInt8) : Op → Op
  | .push x => .push (substB a b x)
  | .pushSlice xs => .pushSlice (xs.map (substB a b))
  | .extend xs => .extend (xs.map (substB a b))
  | .resize n x => .resize n (substB a b x)
  | .set i x => .set i (substB a b x)
  | .setField v i x => .setField v i (substB a b x)
  | .fpush i => .fpush (i.subst a b)
  | .item i op => .item i (op.subst a b)
  | .last op => .last (op.subst a b)
  | .assign i => .assign (i.subst a b)
  | op => op
end FV
