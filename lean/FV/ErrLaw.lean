import FV.C05C06
/-! Content errors are final: a validation error other than `InsufficientSize` is not changed by any bytes that follow.
Together with the frame contract this is what makes "malformed" a property of the bytes and not of how many have arrived. -/
namespace FV

/-- `s'` holds the bytes of `s`, at the same address, followed by anything -/
structure Ext (s s' : Slice) : Prop where
  addr : s'.addr = s.addr
  len : s.len ≤ s'.len
  bytes : s'.bytes.take s.len = s.bytes

def Err.Hard (e : Err) : Prop := e.kind ≠ .insufficientSize

structure ErrLaw (d : Dict) : Prop where
  hard : ∀ s s' e, s.addr % d.align = 0 → d.minSize ≤ s.len → Ext s s' →
    d.validateU s = .err e → e.Hard → d.validateU s' = .err e

theorem Ext.take_eq {s s' : Slice} (h : Ext s s') (n : Nat) (hn : n ≤ s.len) : s'.bytes.take n = s.bytes.take n := by
  have := h.bytes
  have h1 : (s'.bytes.take s.len).take n = s.bytes.take n := by rw [this]
  simpa [List.take_take, Nat.min_eq_left hn] using h1

theorem Ext.refl (s : Slice) : Ext s s := ⟨rfl, Nat.le_refl _, by simp [Slice.len]⟩

theorem Ext.drop {s s' : Slice} (h : Ext s s') (n : Nat) (hn : n ≤ s.len) : Ext (s.drop n) (s'.drop n) :=
  ⟨by simp [h.addr], by simp only [Slice.len_drop]; have := h.len; omega, by
    have hb := h.bytes
    have : (s'.bytes.take s.len).drop n = s.bytes.drop n := by rw [hb]
    rw [List.drop_take] at this
    show (s'.bytes.drop n).take (s.drop n).len = s.bytes.drop n
    rw [Slice.len_drop]; exact this⟩

theorem Ext.take_floor {s s' : Slice} (h : Ext s s') (al : Nat) :
    Ext (s.take (floorMul s.len al)) (s'.take (floorMul s'.len al)) := by
  have h1 : floorMul s.len al ≤ s.len := floorMul_le _ _
  have h2 : floorMul s.len al ≤ floorMul s'.len al := floorMul_mono h.len
  have h3 : floorMul s'.len al ≤ s'.len := floorMul_le _ _
  refine ⟨by simp [h.addr], by simp only [Slice.len_take]; omega, ?_⟩
  show (s'.bytes.take (floorMul s'.len al)).take (s.take (floorMul s.len al)).len = s.bytes.take (floorMul s.len al)
  rw [Slice.len_take, Nat.min_eq_left h1, List.take_take, Nat.min_eq_left h2]
  exact h.take_eq _ h1

/-- a valid value stays valid when bytes follow (from the frame contract) -/
theorem FrameLaw.ext {d : Dict} (F : FrameLaw d) {s s' : Slice} (ha : s.addr % d.align = 0) (hl : d.minSize ≤ s.len)
    (h : Ext s s') (hv : d.validateU s = .ok ()) : d.validateU s' = .ok () := by
  obtain ⟨z, hz, hzle, _, _⟩ := F.size_ok s ha hl hv
  exact (F.loc s z ha hl hv hz s' h.addr (by have := h.len; omega) (h.take_eq z hzle)).1

theorem offset_eq_err {r : Res Unit} {n : Nat} {e : Err} (h : r.offset n = .err e) :
    ∃ e0, r = .err e0 ∧ e = { e0 with pos := e0.pos + n } := by
  cases r with
  | ok u => simp at h
  | fault f => simp at h
  | err e0 => simp only [Res.offset_err, Res.err.injEq] at h; exact ⟨e0, rfl, h.symm⟩

theorem hard_of_offset {e0 : Err} {n : Nat} (h : Err.Hard { e0 with pos := e0.pos + n }) : e0.Hard := h

/-! ### sized leaves -/
theorem prim_err (s a : Nat) : ErrLaw (primD s a) := ⟨by intro _ _ _ _ _ _ h; simp [primD] at h⟩

theorem bool_err : ErrLaw boolD := ⟨by
  intro s s' e _ hl hx hv _
  simp only [boolD] at hv hl ⊢
  have hb := hx.take_eq 1 hl
  cases hs : s.bytes with
  | nil => simp [Slice.len, hs] at hl
  | cons b bs =>
    cases hs' : s'.bytes with
    | nil => have := hx.len; simp only [Slice.len, hs', hs, List.length_nil, List.length_cons] at this; omega
    | cons b' bs' =>
      rw [hs, hs'] at hb
      simp at hb; subst hb
      simpa [hs] using hv⟩

theorem arr_err (d : Dict) (sz : Nat) (hsz : d.sized = some sz) (n : Nat) : ErrLaw (arrD d n) := ⟨by
  intro s s' e _ hl hx hv _
  have hss : d.ssize = sz := by simp [Dict.ssize, hsz]
  simp only [arrD, hss] at hv hl ⊢
  rw [arrLoop_congr d sz hss s s' hx.addr (n * sz) (hx.take_eq _ hl) hl (by have := hx.len; omega) n 0 (by simp)]
  exact hv⟩

theorem cenum_err (tag : LenTy) (n : Nat) : ErrLaw (cenumD tag n) := ⟨by
  intro s s' e _ hl hx hv _
  simp only [cenumD] at hv hl ⊢
  rw [readU_congr tag s s' hx.addr hl (by have := hx.len; omega) (hx.take_eq _ hl)]
  exact hv⟩

/-! ### field lists -/
structure FieldsErr (ds : List Dict) : Prop where
  ok : FieldsOk ds
  err : ∀ d ∈ ds, ErrLaw d

theorem FieldsErr.tail {d : Dict} {ds : List Dict} (h : FieldsErr (d :: ds)) : FieldsErr ds :=
  ⟨h.ok.tail, fun x hx => h.err x (by simp [hx])⟩

theorem fields_hard :
    ∀ (ds : List Dict) (pos : Nat) (data data' : Slice) (e : Err), FieldsErr ds → Placed ds pos data →
      minSizeL ds pos ≤ pos + data.len → Ext data data' → validateAll ds pos data = .err e → e.Hard →
      validateAll ds pos data' = .err e := by
  intro ds
  induction ds with
  | nil => intro pos data data' e _ _ _ _ hv _; simp [validateAll] at hv
  | cons d ds ih =>
    intro pos data data' e hfe hpl hmin hx hv hh
    have hok := hfe.ok
    have hL := hok.law d (by simp)
    have hF := hok.frame d (by simp)
    have hE := hfe.err d (by simp)
    have haddr := hpl.head_addr
    have hcm : ceilMul pos d.align = pos := ceilMul_of_mod hL.align_pow2.pos hpl.head
    cases ds with
    | nil =>
      simp only [validateAll] at hv ⊢
      have hlen : d.minSize ≤ data.len := by simp only [minSizeL, hcm] at hmin; omega
      obtain ⟨e0, h0, rfl⟩ := offset_eq_err hv
      rw [hE.hard data data' e0 haddr hlen hx h0 (hard_of_offset hh)]
      rfl
    | cons d' ds' =>
      have hL' := hok.law d' (by simp)
      obtain ⟨n, hn⟩ : ∃ n, d.sized = some n := by
        have := hok.sized.1; cases h : d.sized <;> simp_all
      have hss : d.ssize = n := by simp [Dict.ssize, hn]
      have hdmin := hL.sized_min n hn
      have hnext := next_le_minSizeL d d' ds' pos (fun x hx => (hok.law x (by simp [hx])).align_pow2.pos) hcm
      have hge : pos ≤ ceilMul (pos + d.ssize) d'.align := by
        have := le_ceilMul (x := pos + d.ssize) hL'.align_pow2.pos; omega
      have hge2 : pos + n ≤ ceilMul (pos + d.ssize) d'.align := by
        have := le_ceilMul (x := pos + d.ssize) hL'.align_pow2.pos; omega
      have hsplit : ceilMul (pos + d.ssize) d'.align - pos ≤ data.len := by omega
      have hsplit' : ceilMul (pos + d.ssize) d'.align - pos ≤ data'.len := by have := hx.len; omega
      simp only [validateAll] at hv ⊢
      cases hvd : d.validateU data with
      | fault f => simp [hvd] at hv
      | err e0 =>
        simp only [hvd, Res.offset_err, Res.err.injEq] at hv
        subst hv
        rw [hE.hard data data' e0 haddr (by omega) hx hvd (hard_of_offset hh)]
        rfl
      | ok u =>
        simp only [hvd, Res.offset_ok, Slice.splitAt, hsplit, if_true] at hv
        rw [hF.ext haddr (by omega) hx hvd]
        simp only [Res.offset_ok, Slice.splitAt, hsplit', if_true]
        have hmin' : minSizeL (d' :: ds') (ceilMul (pos + d.ssize) d'.align) ≤
            ceilMul (pos + d.ssize) d'.align + (data.drop (ceilMul (pos + d.ssize) d'.align - pos)).len := by
          rw [minSizeL_next d d' ds' pos hL'.align_pow2.pos hcm]; simp only [Slice.len_drop]; omega
        exact ih _ _ _ e hfe.tail (hpl.next hge) hmin' (hx.drop _ hsplit) hv hh

theorem sstruct_err (ds : List Dict) (hl : ∀ d ∈ ds, Law d) (hf : ∀ d ∈ ds, FrameLaw d) (he : ∀ d ∈ ds, ErrLaw d)
    (hs : AllSized ds) : ErrLaw (sstructD ds) := ⟨by
  intro s s' e ha hlen hx hv hh
  simp only [sstructD] at hv hlen ha ⊢
  have hal : ∀ d ∈ ds, s.addr % d.align = 0 := fun d hd => mod_trans ha (alignL_mod ds hl d hd)
  have hmin : minSizeL ds 0 ≤ 0 + s.len := by
    rw [minSizeL_eq_foldSize ds hl hs]
    have := le_ceilMul (x := foldSize ds 0) (alignL_pos ds); omega
  exact fields_hard ds 0 s s' e ⟨⟨hl, hf, allSized_butLast hs⟩, he⟩ (placed0 ds s hal) hmin hx hv hh⟩

theorem senum_err (tag : LenTy) (ht : tag.Law) (vs : List (List Dict))
    (hl : ∀ v ∈ vs, ∀ d ∈ v, Law d) (hf : ∀ v ∈ vs, ∀ d ∈ v, FrameLaw d) (he : ∀ v ∈ vs, ∀ d ∈ v, ErrLaw d)
    (hs : ∀ v ∈ vs, AllSized v) : ErrLaw (senumD tag vs) := ⟨by
  have hpa : Pow2 (max tag.align (alignLL vs)) := Pow2.of_max ht.align_pow2 (alignLL_pow2 vs hl)
  have hapos := hpa.pos
  intro s s' e hal hlen hx hv hh
  simp only [senumD] at hal hlen hv ⊢
  have hdo : tag.size ≤ ceilMul tag.size (max tag.align (alignLL vs)) := le_ceilMul hapos
  have hsz := le_ceilMul (x := ceilMul tag.size (max tag.align (alignLL vs)) + maxVarSize vs) hapos
  have hl' := hx.len
  rw [readU_congr tag s s' hx.addr (by omega) (by omega) (hx.take_eq _ (by omega))]
  cases hr : tag.readU s with
  | fault f => simp [hr] at hv
  | err e0 => simp only [hr, Res.bind_eq, Res.bind_err] at hv ⊢; exact hv
  | ok t =>
    simp only [hr, Res.bind_eq, Res.bind_ok] at hv ⊢
    split at hv
    · rename_i hlt
      simp only [hlt, if_true]
      have hd1 : ceilMul tag.size (max tag.align (alignLL vs)) ≤ s.len := by omega
      have hd2 : ceilMul tag.size (max tag.align (alignLL vs)) ≤ s'.len := by omega
      simp only [Slice.dropU, hd1, hd2, if_true, Res.bind_ok] at hv ⊢
      have hmem := getD_mem vs t [] hlt
      obtain ⟨e0, h0, rfl⟩ := offset_eq_err hv
      have h3 := le_maxVarSize vs _ hmem
      have h4 := le_ceilMul (x := foldSize (vs.getD t []) 0) (alignL_pos (vs.getD t []))
      have := fields_hard (vs.getD t []) 0 (s.drop (ceilMul tag.size (max tag.align (alignLL vs))))
        (s'.drop (ceilMul tag.size (max tag.align (alignLL vs)))) e0
        ⟨⟨hl _ hmem, hf _ hmem, allSized_butLast (hs _ hmem)⟩, he _ hmem⟩
        (placed0 _ _ (by
          intro d hd
          simp only [Slice.addr_drop]
          apply add_mod_zero
          · exact mod_trans hal (mod_trans (Pow2.max_mod_right ht.align_pow2 (alignLL_pow2 vs hl)) (alignLL_mod vs hl _ hmem d hd))
          · exact mod_trans (ceilMul_mod _ _) (mod_trans (Pow2.max_mod_right ht.align_pow2 (alignLL_pow2 vs hl)) (alignLL_mod vs hl _ hmem d hd))))
        (by rw [minSizeL_eq_foldSize _ (hl _ hmem) (hs _ hmem)]; simp only [Slice.len_drop]; omega)
        (hx.drop _ hd1) h0 (hard_of_offset hh)
      rw [this]; rfl
    · rename_i hge
      simp only [hge, if_false]; exact hv⟩

/-! ### FlatVec, FlatString -/
theorem vecSlots_mono (d : Dict) (l : LenTy) {n n' a : Nat} (hn : max l.size d.align ≤ n) (hnn : n ≤ n')
    (h : vecSlots d l n = .ok a) : ∃ a', vecSlots d l n' = .ok a' ∧ a ≤ a' := by
  unfold vecSlots at h ⊢
  have n1 : ¬ n < max l.size d.align := by omega
  have n2 : ¬ n' < max l.size d.align := by omega
  simp only [n1, n2, if_false] at h ⊢
  by_cases hz : d.ssize = 0
  · simp only [hz, if_true, Res.ok.injEq] at h ⊢; exact ⟨usizeMax, rfl, by omega⟩
  · simp only [hz, if_false, Res.ok.injEq] at h ⊢
    refine ⟨_, rfl, ?_⟩
    subst h
    exact Nat.div_le_div_right (floorMul_mono (by omega))

theorem vec_err (d : Dict) (sz : Nat) (hsz : d.sized = some sz) (l : LenTy) : ErrLaw (vecD d l) := ⟨by
  intro s s' e hal hlen hx hv hh
  have hss : d.ssize = sz := by simp [Dict.ssize, hsz]
  simp only [vecD] at hal hlen hv ⊢
  have hl' := hx.len
  have hls : l.size ≤ s.len := by have := Nat.le_max_left l.size d.align; omega
  rw [readU_congr l s s' hx.addr hls (by omega) (hx.take_eq _ hls)]
  cases hr : l.readU s with
  | fault f => simp [hr] at hv
  | err e0 => simp only [hr, Res.bind_eq, Res.bind_err] at hv ⊢; exact hv
  | ok len =>
    obtain ⟨slots, hsl⟩ : ∃ slots, vecSlots d l s.len = .ok slots := ⟨_, vecSlots_ok d l s.len hlen⟩
    obtain ⟨slots', hsl', hle⟩ := vecSlots_mono d l hlen hl' hsl
    simp only [hr, hsl, hsl', Res.bind_eq, Res.bind_ok] at hv ⊢
    by_cases hgt : len > min slots l.max
    · simp only [hgt, if_true, Res.err.injEq] at hv
      subst hv; exact absurd rfl hh
    · have hgt' : ¬ len > min slots' l.max := by omega
      simp only [hgt, hgt', if_false] at hv ⊢
      by_cases hz : d.ssize = 0
      · simp [hz] at hv
      · simp only [hz, if_false] at hv ⊢
        -- the visited elements lie inside `s`
        have hslots : slots = floorMul (s.len - max l.size d.align) (max l.align d.align) / d.ssize := by
          unfold vecSlots at hsl
          have n1 : ¬ s.len < max l.size d.align := by omega
          simp only [n1, hz, if_false, Res.ok.injEq] at hsl; exact hsl.symm
        have hlenle : len ≤ slots := by omega
        have hN : max l.size d.align + len * sz ≤ s.len := by
          have h1 : len * d.ssize ≤ floorMul (s.len - max l.size d.align) (max l.align d.align) := by
            rw [hslots] at hlenle
            calc len * d.ssize ≤ (floorMul (s.len - max l.size d.align) (max l.align d.align) / d.ssize) * d.ssize :=
                  Nat.mul_le_mul_right _ hlenle
              _ ≤ _ := Nat.div_mul_le_self _ _
          have h2 := floorMul_le (s.len - max l.size d.align) (max l.align d.align)
          rw [hss] at h1; omega
        rw [vecElems_congr d sz hss (max l.size d.align) s s' hx.addr (max l.size d.align + len * sz)
          (hx.take_eq _ hN) hN (by omega) len 0 (by simp)]
        exact hv⟩

theorem str_err (l : LenTy) : ErrLaw (strD l) := ⟨by
  intro s s' e _ hlen hx hv hh
  simp only [strD] at hlen hv ⊢
  have hl' := hx.len
  rw [readU_congr l s s' hx.addr hlen (by omega) (hx.take_eq _ hlen)]
  cases hr : l.readU s with
  | fault f => simp [hr] at hv
  | err e0 => simp only [hr, Res.bind_eq, Res.bind_err] at hv ⊢; exact hv
  | ok len =>
    have n1 : ¬ s.len < l.size := by omega
    have n2 : ¬ s'.len < l.size := by omega
    simp only [hr, Res.bind_eq, Res.bind_ok, n1, n2, if_false] at hv ⊢
    by_cases hgt : len > min (floorMul (s.len - l.size) l.align) l.max
    · simp only [hgt, if_true, Res.err.injEq] at hv
      subst hv; exact absurd rfl hh
    · have hm := floorMul_mono (m := l.align) (show s.len - l.size ≤ s'.len - l.size by omega)
      have hgt' : ¬ len > min (floorMul (s'.len - l.size) l.align) l.max := by omega
      simp only [hgt, hgt', if_false] at hv ⊢
      have hfl := floorMul_le (s.len - l.size) l.align
      have hb : (s'.bytes.drop l.size).take len = (s.bytes.drop l.size).take len :=
        drop_take_eq (hx.take_eq s.len (Nat.le_refl _)) (by omega)
      rw [hb]; exact hv⟩
end FV
