import FV.EmplaceAccStruct
/-! Acceptance pass: generated `Init` enums. -/
namespace FV

/-- the data part of an enum: `x` bytes fit below the floor of what follows the tag iff the padded whole fits -/
theorem enum_fits {al dOff len x : Nat} (hapos : 0 < al) (hdom : dOff % al = 0) (hd : dOff ≤ len) :
    x ≤ floorMul (len - dOff) al ↔ ceilMul (dOff + x) al ≤ len := by
  rw [le_floor_iff_ceil_le hapos, ceilMul_add_of_mod hapos hdom]; omega

/-- `size()` of an enum image assembled from tag part, data part and the rest -/
theorem uenum_size_wrap (tag : LenTy) (dvs : List (List Dict)) (addr : Nat) (bytes b0 : Bytes)
    (idx : Nat) (hrep : idx < 256 ^ tag.size) (data' : Bytes) (al dOff n : Nat)
    (hal_def : al = max tag.align (alignLL dvs)) (hd : dOff = ceilMul tag.size al) (hapos : 0 < al) (hge : dOff ≤ bytes.length)
    (hn : n = floorMul (bytes.length - dOff) al) (hta : addr % tag.align = 0)
    (hb0 : writeAt bytes 0 (encLenTy tag idx) = .ok b0) (hdl : data'.length = n) :
    (uenumD tag dvs).size ⟨addr, b0.take dOff ++ data' ++ b0.drop (dOff + n)⟩ =
      (if (dvs.getD idx []).isEmpty then Res.ok 0 else foldSizeDyn (dvs.getD idx []) 0 0 ⟨addr + dOff, data'⟩).bind
        fun z => .ok (ceilMul (dOff + z) al) := by
  have hb0l := writeAt_length hb0
  have hnle : n ≤ bytes.length - dOff := by rw [hn]; exact floorMul_le _ _
  have htd : tag.size ≤ dOff := by rw [hd]; exact le_ceilMul hapos
  have hRl : (b0.take dOff ++ data' ++ b0.drop (dOff + n)).length = bytes.length := by
    simp only [List.length_append, List.length_take, List.length_drop, hdl, hb0l]; omega
  have hread := writeAt_read hb0
  simp only [List.drop_zero, encLenTy_length] at hread
  have hr : tag.readU ⟨addr, b0.take dOff ++ data' ++ b0.drop (dOff + n)⟩ = .ok idx := by
    apply readU_of_take tag _ idx hrep hta
    show (b0.take dOff ++ data' ++ b0.drop (dOff + n)).take tag.size = _
    rw [List.append_assoc, List.take_append_of_le_length (by simp only [List.length_take]; omega), List.take_take,
      Nat.min_eq_left htd, hread]
  have hdle : dOff ≤ (⟨addr, b0.take dOff ++ data' ++ b0.drop (dOff + n)⟩ : Slice).len := by
    simp only [Slice.len, hRl]; exact hge
  have hdata : ((⟨addr, b0.take dOff ++ data' ++ b0.drop (dOff + n)⟩ : Slice).drop dOff).take
      (floorMul ((⟨addr, b0.take dOff ++ data' ++ b0.drop (dOff + n)⟩ : Slice).drop dOff).len al) = ⟨addr + dOff, data'⟩ := by
    simp only [Slice.len, Slice.drop, Slice.take, List.length_drop, hRl, ← hn, Slice.mk.injEq, true_and]
    rw [List.append_assoc, List.drop_left' (by simp only [List.length_take]; omega), List.take_left' hdl]
  subst hal_def hd
  simp only [uenumD, hr, Res.bind_eq, Res.bind_ok, Slice.dropU, hdle, if_true, hdata, Res.pure_eq]

theorem acc_uenum_none (tag : LenTy) (ht : tag.Law) (vs : List (List Ty))
    (hl : ∀ v ∈ dictLL vs, ∀ d ∈ v, Law d) (hf : ∀ v ∈ dictLL vs, ∀ d ∈ v, FrameLaw d)
    (idx : Nat) (hidx : idx < vs.length) (hrep : idx < 256 ^ tag.size) (vals : List Bytes)
    (hs : AllSized (dictL (vs.getD idx []))) (hv : ValsOk (dictL (vs.getD idx [])) vals) :
    EmpAcc (.uenum tag vs) (.uenum idx vals none) := by
  intro s hal hlen o ho
  obtain ⟨addr, bytes⟩ := s
  simp only [Ty.dict, uenumD, Slice.len] at hal hlen
  obtain ⟨hapos, hge, htd, hta, hva⟩ := uenum_geometry tag ht (dictLL vs) hl addr bytes.length hal hlen
  have hdom := ceilMul_mod tag.size (max tag.align (alignLL (dictLL vs)))
  have hidx' : idx < (dictLL vs).length := by rw [dictLL_length]; exact hidx
  have hmem : (dictLL vs).getD idx [] ∈ dictLL vs := getD_mem _ _ _ hidx'
  obtain ⟨b0, hb0, hb0l⟩ := writeAt_ok (bs := bytes) (x := encLenTy tag idx) (off := 0) (by rw [encLenTy_length]; omega)
  have hnl : ¬ bytes.length < ceilMul tag.size (max tag.align (alignLL (dictLL vs))) := by omega
  have hsw := uenum_size_wrap tag (dictLL vs) addr bytes b0 idx hrep
  simp only [emplaceU, Slice.len, hnl, if_false, hb0, Res.bind_ok] at ho
  simp only [Rep, sizeSpec, Slice.len, true_and]
  rw [dictLL_getD] at hmem ho hsw
  generalize hv_def : dictL (vs.getD idx []) = v at *
  generalize hal_def : max tag.align (alignLL (dictLL vs)) = al at *
  generalize hd_def : ceilMul tag.size al = dOff at *
  generalize hn_def : floorMul (bytes.length - dOff) al = n at *
  have hnle : n ≤ bytes.length - dOff := by rw [← hn_def]; exact floorMul_le _ _
  cases v with
  | nil =>
    simp only [List.isEmpty_nil, if_true, Res.ok.injEq] at ho
    subst ho
    simp only [List.isEmpty_nil, if_true, Nat.add_zero, ceilMul_of_mod hapos hdom]
    refine ⟨⟨fun _ => hge, fun _ => rfl⟩, fun _ => ?_⟩
    -- the image is `b0` itself: take the data part to be what is already there
    have hsplit : b0 = b0.take dOff ++ (b0.drop dOff).take n ++ b0.drop (dOff + n) := by
      rw [List.append_assoc, ← List.drop_drop, List.take_append_drop, List.take_append_drop]
    have := hsw ((b0.drop dOff).take n) al dOff n rfl hd_def.symm hapos hge hn_def.symm hta hb0
      (by simp only [List.length_take, List.length_drop, hb0l]; omega)
    rw [← hsplit] at this
    simp only [List.isEmpty_nil, if_true, Res.bind_ok, Nat.add_zero, ceilMul_of_mod hapos hdom] at this
    exact this
  | cons d0 v0 =>
    simp only [List.isEmpty_cons, Bool.false_eq_true, if_false] at ho ⊢
    have hlv := hl _ hmem
    have hfv := hf _ hmem
    have hfold := minSizeL_eq_foldSize (d0 :: v0) hlv hs 0
    have hkey : foldSize (d0 :: v0) 0 ≤ n ↔ ceilMul (dOff + foldSize (d0 :: v0) 0) al ≤ bytes.length := by
      rw [← hn_def]; exact enum_fits hapos hdom hge
    cases hck : checkAlignMin (alignL (d0 :: v0)) (minSizeL (d0 :: v0) 0) (Slice.take (Slice.drop ⟨addr, bytes⟩ dOff) n) with
    | fault f => rw [hck] at ho; cases ho
    | err e =>
      rw [hck] at ho
      simp only [Res.ok.injEq] at ho
      subst ho
      have hnot : ¬ foldSize (d0 :: v0) 0 ≤ n := by
        intro hle
        have : checkAlignMin (alignL (d0 :: v0)) (minSizeL (d0 :: v0) 0) (Slice.take (Slice.drop ⟨addr, bytes⟩ dOff) n) = .ok () := by
          rw [checkAlignMin_ok]
          refine ⟨hva _ hmem, ?_⟩
          simp only [Slice.len, Slice.take, Slice.drop, List.length_take, List.length_drop]; omega
        rw [this] at hck; cases hck
      refine ⟨⟨fun h => (by cases h), fun h => absurd (hkey.2 h) hnot⟩, fun h => (by cases h)⟩
    | ok u =>
      rw [hck] at ho
      obtain ⟨_, hmin⟩ := checkAlignMin_ok.1 hck
      simp only [Slice.len, Slice.take, Slice.drop, List.length_take, List.length_drop] at hmin
      have hdl : ((b0.drop dOff).take n).length = n := by simp only [List.length_take, List.length_drop, hb0l]; omega
      obtain ⟨b1, hb1, hb1l, _, _, _⟩ := writeFields_spec (d0 :: v0) vals 0 ((b0.drop dOff).take n)
        (fun d hd => (hlv d hd).align_pow2.pos) (headAligned_zero _) hv.1 hv.len (by rw [hdl, ← hfold]; omega)
      rw [hdl] at hb1l
      simp only [hb1, Res.bind_ok, Res.ok.injEq] at ho
      subst ho
      refine ⟨⟨fun _ => hkey.1 (by omega), fun _ => rfl⟩, fun _ => ?_⟩
      have := hsw b1 al dOff n rfl hd_def.symm hapos hge hn_def.symm hta hb0 hb1l
      simp only [List.isEmpty_cons, Bool.false_eq_true, if_false] at this
      rw [foldSizeDyn_eq_extent _ 0 0 _ (by simp) (by simp only; exact (ceilMul_of_mod (hlv d0 (by simp)).align_pow2.pos (Nat.zero_mod _)).symm),
        extentAll_sized (d0 :: v0) 0 ⟨addr + dOff, b1⟩ hlv hfv hs (headAligned_zero _) (by simp only [Slice.len, hb1l]; omega)] at this
      exact this

theorem acc_uenum_some (tag : LenTy) (ht : tag.Law) (vs : List (List Ty))
    (hl : ∀ v ∈ dictLL vs, ∀ d ∈ v, Law d)
    (idx : Nat) (hidx : idx < vs.length) (hrep : idx < 256 ^ tag.size) (vals : List Bytes)
    (pre : List Ty) (lt : Ty) (hvar : vs.getD idx [] = pre ++ [lt])
    (hs : AllSized (dictL pre)) (hv : ValsOk (dictL pre) vals) (lasti : Init) (hrec : EmpSpec lt lasti)
    (hacc : EmpAcc lt lasti) (hge0 : lt.dict.minSize ≤ sizeSpec lt lasti) :
    EmpAcc (.uenum tag vs) (.uenum idx vals (some lasti)) := by
  intro s hal hlen o ho
  obtain ⟨addr, bytes⟩ := s
  simp only [Ty.dict, uenumD, Slice.len] at hal hlen
  obtain ⟨hapos, hge, htd, hta, hva⟩ := uenum_geometry tag ht (dictLL vs) hl addr bytes.length hal hlen
  have hdom := ceilMul_mod tag.size (max tag.align (alignLL (dictLL vs)))
  have hidx' : idx < (dictLL vs).length := by rw [dictLL_length]; exact hidx
  have hmem : (dictLL vs).getD idx [] ∈ dictLL vs := getD_mem _ _ _ hidx'
  obtain ⟨b0, hb0, hb0l⟩ := writeAt_ok (bs := bytes) (x := encLenTy tag idx) (off := 0) (by rw [encLenTy_length]; omega)
  have hnl : ¬ bytes.length < ceilMul tag.size (max tag.align (alignLL (dictLL vs))) := by omega
  have hsw := uenum_size_wrap tag (dictLL vs) addr bytes b0 idx hrep
  simp only [emplaceU, Slice.len, hnl, if_false, hb0, Res.bind_ok] at ho
  simp only [Rep, sizeSpec, Slice.len]
  rw [dictLL_getD, hvar, dictL_append] at hmem hsw
  rw [dictLL_getD, hvar, dictL_append] at ho
  simp only [hvar, dictL_append, List.getLast?_concat]
  simp only [dictL] at hmem ho hsw ⊢
  have hlv := hl _ hmem
  have hlpre : ∀ d ∈ dictL pre, Law d := fun d hd => hlv d (by simp [hd])
  have hllt : Law lt.dict := hlv _ (by simp)
  have hposv : ∀ x ∈ dictL pre ++ [lt.dict], 0 < x.align := fun x hx => (hlv x hx).align_pow2.pos
  have hms := minSizeL_append (dictL pre) lt.dict hlpre hs 0
  have hlp := lastPos_append (dictL pre) lt.dict 0 hposv (headAligned_zero _)
  have h4 := le_ceilMul (x := foldSize (dictL pre) 0) hllt.align_pow2.pos
  have hltmod : alignL (dictL pre ++ [lt.dict]) % lt.dict.align = 0 := alignL_mod _ hlv lt.dict (by simp)
  have hlfomod := ceilMul_mod (foldSize (dictL pre) 0) lt.dict.align
  have hvA := hva _ hmem
  have hne : (dictL pre ++ [lt.dict]).isEmpty = false := by cases dictL pre <;> rfl
  simp only [hne, Bool.false_eq_true, if_false, List.dropLast_concat, List.getLast?_concat, hlp] at ho hsw ⊢
  generalize hal_def : max tag.align (alignLL (dictLL vs)) = al at *
  generalize hd_def : ceilMul tag.size al = dOff at *
  generalize hn_def : floorMul (bytes.length - dOff) al = n at *
  generalize hlfo_def : ceilMul (foldSize (dictL pre) 0) lt.dict.align = lpos at *
  have hnle : n ≤ bytes.length - dOff := by rw [← hn_def]; exact floorMul_le _ _
  have hkey : lpos + sizeSpec lt lasti ≤ n ↔ ceilMul (dOff + (lpos + sizeSpec lt lasti)) al ≤ bytes.length := by
    rw [← hn_def]; exact enum_fits hapos hdom hge
  cases hck : checkAlignMin (alignL (dictL pre ++ [lt.dict])) (minSizeL (dictL pre ++ [lt.dict]) 0) (Slice.take (Slice.drop ⟨addr, bytes⟩ dOff) n) with
  | fault f => rw [hck] at ho; cases ho
  | err e =>
    rw [hck] at ho
    simp only [Res.ok.injEq] at ho
    subst ho
    have hnot : ¬ lpos + lt.dict.minSize ≤ n := by
      intro hle
      have : checkAlignMin (alignL (dictL pre ++ [lt.dict])) (minSizeL (dictL pre ++ [lt.dict]) 0) (Slice.take (Slice.drop ⟨addr, bytes⟩ dOff) n) = .ok () := by
        rw [checkAlignMin_ok]
        refine ⟨hvA, ?_⟩
        simp only [Slice.len, Slice.take, Slice.drop, List.length_take, List.length_drop]; omega
      rw [this] at hck; cases hck
    refine ⟨⟨fun h => (by cases h), fun h => ?_⟩, fun h => (by cases h)⟩
    have := hkey.2 h.2; omega
  | ok u =>
    rw [hck] at ho
    obtain ⟨_, hmin⟩ := checkAlignMin_ok.1 hck
    simp only [Slice.len, Slice.take, Slice.drop, List.length_take, List.length_drop] at hmin
    have hdl : ((b0.drop dOff).take n).length = n := by simp only [List.length_take, List.length_drop, hb0l]; omega
    obtain ⟨b1, hb1, hb1l, _, _, _⟩ := writeFields_spec (dictL pre) vals 0 ((b0.drop dOff).take n)
      (fun d hd => (hlpre d hd).align_pow2.pos) (headAligned_zero _) hv.1 hv.len (by rw [hdl]; omega)
    rw [hdl] at hb1l
    have hw : (if (dictL pre).isEmpty then Res.ok ((b0.drop dOff).take n) else writeFields (dictL pre) vals 0 ((b0.drop dOff).take n)) = .ok b1 := by
      cases hds : dictL pre with
      | nil => rw [hds] at hb1; simpa [writeFields] using hb1
      | cons d ds => rw [hds] at hb1; simpa using hb1
    have hslot : (addr + dOff + lpos) % lt.dict.align = 0 := add_mod_zero (mod_trans hvA hltmod) hlfomod
    have hslen : lt.dict.minSize ≤ (⟨addr + dOff + lpos, b1.drop lpos⟩ : Slice).len := by
      simp only [Slice.len, List.length_drop]; omega
    obtain ⟨ol, hol, hok⟩ := hrec ⟨addr + dOff + lpos, b1.drop lpos⟩ hslot hslen
    have holl : ol.bytes.length = n - lpos := by
      have := hok.len; simpa [Slice.len, hb1l] using this
    simp only [hw, Res.bind_ok, hol, Res.ok.injEq] at ho
    subst ho
    obtain ⟨hiff, hsize⟩ := hacc _ hslot hslen ol hol
    simp only [Slice.len, List.length_drop, hb1l] at hiff
    have hres_eq : (Except.mapError (fun e : Err => { e with pos := e.pos }) ol.res = .ok ()) ↔ ol.res = .ok () := by
      cases hr : ol.res with
      | ok u => simp [Except.mapError]
      | error e => simp [Except.mapError]
    simp only [hres_eq]
    refine ⟨?_, fun hres => ?_⟩
    · rw [hiff, ← hkey]
      constructor
      · intro h; exact ⟨h.1, by omega⟩
      · intro h; exact ⟨h.1, by omega⟩
    · have hRl : (b1.take lpos ++ ol.bytes).length = n := by
        simp only [List.length_append, List.length_take, holl, hb1l]; omega
      have := hsw (b1.take lpos ++ ol.bytes) al dOff n rfl hd_def.symm hapos hge hn_def.symm hta hb0 hRl
      have hz := hsize hres
      simp only at hz
      have hdrop : (⟨addr + dOff, b1.take lpos ++ ol.bytes⟩ : Slice).drop (lpos - 0) = ⟨addr + dOff + lpos, ol.bytes⟩ := by
        simp only [Slice.drop, Nat.sub_zero, Slice.mk.injEq, true_and]
        rw [List.drop_left' (by simp only [List.length_take, hb1l]; omega)]
      have hd0pos : ∀ d0 v0, dictL pre ++ [lt.dict] = d0 :: v0 → 0 = ceilMul 0 d0.align := by
        intro d0 v0 h
        exact (ceilMul_of_mod (hposv d0 (by rw [h]; simp)) (Nat.zero_mod _)).symm
      rw [foldSizeDyn_eq_extent _ 0 0 _ (by cases dictL pre <;> simp)
          (by cases hq : dictL pre ++ [lt.dict] with
              | nil => trivial
              | cons d0 v0 => exact hd0pos d0 v0 hq),
        extentAll_append (dictL pre) lt.dict 0 _ hlpre hllt hs (headAligned_zero _)
          (by simp only [Slice.len, hRl]; omega), hlfo_def, hdrop] at this
      simp only [Dict.sizeV, hz, Res.bind_ok] at this
      exact this
end FV
