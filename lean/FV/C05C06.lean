import FV.FrameFlex
/-! C05 and C06 (structural part: acceptance and `size()`; equality of the decoded *content* is added with the
`walk`/`decode` layer) for every well-formed type. -/
namespace FV

mutual
theorem Ty.frameLaw : ∀ t : Ty, t.WF → FrameLaw t.dict
  | .prim s a, h => by simp only [Ty.WF] at h; exact prim_frame s a h.2
  | .bool, _ => bool_frame
  | .arr t n, h => by
      simp only [Ty.WF] at h
      have hs := dict_sized_isSome t h.2
      obtain ⟨sz, hsz⟩ : ∃ sz, t.dict.sized = some sz := by cases hq : t.dict.sized <;> simp_all
      exact arr_frame t.dict (Ty.law t h.1) sz hsz n
  | .sstruct fs, h => by
      simp only [Ty.WF] at h
      exact sstruct_frame (dictL fs) (lawL fs h.1) (frameL fs h.1) (sizedL_allSized fs h.2)
  | .cenum tag n, h => by simp only [Ty.WF] at h; exact cenum_frame tag h n
  | .senum tag vs, h => by
      simp only [Ty.WF] at h
      exact senum_frame tag h.1 (dictLL vs) (lawLL vs h.2.1) (frameLL vs h.2.1) (sizedLL_all vs h.2.2)
  | .vec t l, h => by
      simp only [Ty.WF] at h
      have hs := dict_sized_isSome t h.2.1
      obtain ⟨sz, hsz⟩ : ∃ sz, t.dict.sized = some sz := by cases hq : t.dict.sized <;> simp_all
      exact vec_frame t.dict (Ty.law t h.1) sz hsz l h.2.2
  | .str l, h => by simp only [Ty.WF] at h; exact str_frame l h
  | .flex t l, h => by
      simp only [Ty.WF] at h
      exact flex_frame t.dict (Ty.law t h.1) (Ty.frameLaw t h.1) l h.2
  | .ustruct fs last, h => by
      simp only [Ty.WF] at h
      exact ustruct_frame (dictL fs) last.dict (lawL fs h.1) (frameL fs h.1) (sizedL_allSized fs h.2.1)
        (Ty.law last h.2.2.1) (Ty.frameLaw last h.2.2.1)
  | .uenum tag vs, h => by
      simp only [Ty.WF] at h
      exact uenum_frame tag h.1 (dictLL vs) (lawLL vs h.2.1) (frameLL vs h.2.1) (butLastLL_all vs h.2.2)
theorem frameL : ∀ fs : List Ty, wfL fs → ∀ d ∈ dictL fs, FrameLaw d
  | [], _ => by intro d hd; simp [dictL] at hd
  | t :: ts, h => by
      intro d hd
      simp only [dictL, List.mem_cons] at hd
      rcases hd with rfl | hm
      · exact Ty.frameLaw t h.1
      · exact frameL ts h.2 d hm
theorem frameLL : ∀ vs : List (List Ty), wfLL vs → ∀ v ∈ dictLL vs, ∀ d ∈ v, FrameLaw d
  | [], _ => by intro v hv; simp [dictLL] at hv
  | v0 :: vs, h => by
      intro v hv
      simp only [dictLL, List.mem_cons] at hv
      rcases hv with rfl | hm
      · exact frameL v0 h.1
      · exact frameLL vs h.2 v hm
end

/-- **C05 (extent).** A slice that validates has a `size()` that lies within the slice, is a whole number of
alignment units, and is sufficient: the first `size()` bytes validate again with the same `size()`. -/
theorem C05_size_exact (t : Ty) (h : t.WF) (s : Slice) (hv : t.dict.validate s = .ok ()) :
    ∃ z, t.dict.size s = .ok z ∧ z ≤ s.len ∧ z % t.dict.align = 0 ∧
      t.dict.validate (s.take z) = .ok () ∧ t.dict.size (s.take z) = .ok z := by
  obtain ⟨ha, hl, hu⟩ := validate_ok_iff.1 hv
  have F := Ty.frameLaw t h
  obtain ⟨z, hz, hzle, hzm, hzmin⟩ := F.size_ok s ha hl hu
  obtain ⟨h1, h2⟩ := F.loc s z ha hl hu hz (s.take z) rfl (by simp only [Slice.len_take]; omega)
    (by simp only [Slice.take, List.take_take]; congr 1; omega)
  exact ⟨z, hz, hzle, hzm,
    validate_ok_iff.2 ⟨by simpa using ha, by simp only [Slice.len_take]; omega, h1⟩, h2⟩

/-- **C06 (prefixes).** Every proper prefix of a message (the first `size()` bytes of a valid value) is rejected
as `InsufficientSize`: never accepted as something else, never a content error. -/
theorem C06_prefix_insufficient (t : Ty) (h : t.WF) (s : Slice) (hv : t.dict.validate s = .ok ()) (z : Nat)
    (hz : t.dict.size s = .ok z) (k : Nat) (hk : k < z) :
    ∃ p, t.dict.validate (s.take k) = .err ⟨.insufficientSize, p⟩ := by
  obtain ⟨ha, hl, hu⟩ := validate_ok_iff.1 hv
  exact (Ty.frameLaw t h).pre s z ha hl hu hz k hk

/-- **C06 (extensions).** A message followed by arbitrary further bytes validates and has the same `size()`. -/
theorem C06_extension_same (t : Ty) (h : t.WF) (s : Slice) (hv : t.dict.validate s = .ok ()) (z : Nat)
    (hz : t.dict.size s = .ok z) (sfx : Bytes) :
    t.dict.validate ⟨s.addr, s.bytes.take z ++ sfx⟩ = .ok () ∧ t.dict.size ⟨s.addr, s.bytes.take z ++ sfx⟩ = .ok z := by
  obtain ⟨ha, hl, hu⟩ := validate_ok_iff.1 hv
  have F := Ty.frameLaw t h
  obtain ⟨z', hz', hzle, _, hzmin⟩ := F.size_ok s ha hl hu
  have : z' = z := by simp only [Dict.sizeV] at hz'; rw [hz] at hz'; cases hz'; rfl
  subst this
  have hlen : z' ≤ (⟨s.addr, s.bytes.take z' ++ sfx⟩ : Slice).len := by
    simp only [Slice.len, List.length_append, List.length_take] at hzle ⊢; omega
  obtain ⟨h1, h2⟩ := F.loc s z' ha hl hu hz ⟨s.addr, s.bytes.take z' ++ sfx⟩ rfl hlen
    (by
      simp only [List.take_append_of_le_length (show z' ≤ (s.bytes.take z').length by
        simp only [List.length_take, Slice.len] at hzle ⊢; omega), List.take_take, Nat.min_self])
  exact ⟨validate_ok_iff.2 ⟨ha, by omega, h1⟩, h2⟩
end FV
#print axioms FV.C05_size_exact
#print axioms FV.C06_prefix_insufficient
#print axioms FV.C06_extension_same
