import FV.IoAsyncSpec
import FV.IoSendSeq
/-! C09 (b) for a whole session of the async sender: whole messages, then at most one partial message, nothing after it. -/
namespace FV

theorem brun_blocked_keeps (msg : Bytes) : ∀ (evs : List AEv) (st : AState),
    (brun msg evs st).1 = .blocked → (brun msg evs st).2.1.poisoned = st.poisoned := by
  intro evs
  induction evs with
  | nil => intro st _; unfold brun; split <;> rfl
  | cons ev evs ih =>
    intro st h
    unfold brun at h ⊢
    split
    · rename_i hd
      simp only [hd, if_true] at h
      cases ev with
      | pending => exact ih st h
      | ok n => simp at h
      | err k => simp at h
    · rename_i hd
      simp only [hd, if_false] at h
      cases ev with
      | pending => exact ih st h
      | err k => simp at h
      | ok n =>
        simp only at h ⊢
        split
        · rename_i hn; simp [hn] at h
        · rename_i hn
          simp only [hn, if_false] at h
          exact ih _ h

inductive ASendR | ok | flushFailed | failed | refused
deriving Repr, DecidableEq

structure ASeqSt where
  sink : Bytes
  poisoned : Bool
  evs : List AEv

/-- the async sender used for a list of messages; each send is `WriteAll` polled to completion; a send that never completes (the
script ran out) ends the session -/
def asendSeq : List Bytes → ASeqSt → List ASendR × ASeqSt
  | [], st => ([], st)
  | m :: ms, st =>
    if st.poisoned then
      let (rs, st') := asendSeq ms st
      (.refused :: rs, st')
    else
      match arun m st.evs ⟨0, st.sink, false⟩ with
      | (.done, a, evs') => let (rs, st') := asendSeq ms ⟨a.sink, a.poisoned, evs'⟩; (.ok :: rs, st')
      | (.flushErr _, a, evs') => let (rs, st') := asendSeq ms ⟨a.sink, a.poisoned, evs'⟩; (.flushFailed :: rs, st')
      | (.brokenPipe, a, evs') => let (rs, st') := asendSeq ms ⟨a.sink, a.poisoned, evs'⟩; (.failed :: rs, st')
      | (.err _, a, evs') => let (rs, st') := asendSeq ms ⟨a.sink, a.poisoned, evs'⟩; (.failed :: rs, st')
      | (_, a, evs') => ([.failed], ⟨a.sink, a.poisoned, evs'⟩)

/-- the messages that are in the sink whole: completed sends and sends whose flush failed after the last byte -/
def whole : List Bytes → List ASendR → List Bytes
  | m :: ms, .ok :: rs => m :: whole ms rs
  | m :: ms, .flushFailed :: rs => m :: whole ms rs
  | _ :: ms, _ :: rs => whole ms rs
  | _, _ => []

theorem asendSeq_poisoned (ms : List Bytes) (st : ASeqSt) (hp : st.poisoned = true) :
    (asendSeq ms st).1 = ms.map (fun _ => ASendR.refused) ∧ (asendSeq ms st).2 = st := by
  induction ms with
  | nil => simp [asendSeq]
  | cons m ms ih => simp [asendSeq, hp, ih.1, ih.2]

theorem whole_refused (ms : List Bytes) : whole ms (ms.map fun _ => ASendR.refused) = [] := by
  induction ms with
  | nil => rfl
  | cons m ms ih => simp [whole, ih]

/-- **C09 (b), async session.** From an unpoisoned async sender, after any script of `poll_write` / `poll_flush` outcomes (`Pending`
anywhere, accepted sizes, `Ok(0)`, errors, the script running out): the sink is what it was, then every message that went out whole
(completed sends, and sends whose flush failed after the last byte), in order, then a — possibly empty — prefix of *one* further
message, and nothing after it. -/
theorem asendSeq_sink_shape : ∀ (ms : List Bytes) (st : ASeqSt), st.poisoned = false →
    ∃ part : Bytes, (asendSeq ms st).2.sink = st.sink ++ flat (whole ms (asendSeq ms st).1) ++ part ∧
      (part = [] ∨ ∃ m ∈ ms, ∃ j, 0 < j ∧ j ≤ m.length ∧ part = m.take j) := by
  intro ms
  induction ms with
  | nil => intro st _; exact ⟨[], by simp [asendSeq, whole, flat], Or.inl rfl⟩
  | cons m ms ih =>
    intro st hp
    obtain ⟨j, hj, hs, hd, hfl, hf, hnp⟩ := arun_send_fault m st.evs st.sink
    have hblk : (arun m st.evs ⟨0, st.sink, false⟩).1 = .blocked → (arun m st.evs ⟨0, st.sink, false⟩).2.1.poisoned = false := by
      intro h
      rw [arun_eq_brun m st.evs.length st.evs _ (Nat.le_refl _)] at h ⊢
      exact brun_blocked_keeps m st.evs _ h
    simp only [asendSeq, hp, Bool.false_eq_true, if_false]
    rcases hr : arun m st.evs ⟨0, st.sink, false⟩ with ⟨p, a, evs'⟩
    rw [hr] at hs hd hfl hf hnp hblk
    simp only at hs hd hfl hf hnp hblk
    -- a send after which the sender carries on with the sink `st.sink ++ m.take j'` and is not poisoned
    have carry : ∀ (r : ASendR) (j' : Nat), a.sink = st.sink ++ m.take j' → a.poisoned = false →
        (j' = m.length ∧ (r = .ok ∨ r = .flushFailed) ∨ j' = 0 ∧ r = .failed) →
        ∃ part : Bytes, (asendSeq ms ⟨a.sink, a.poisoned, evs'⟩).2.sink =
            st.sink ++ flat (whole (m :: ms) (r :: (asendSeq ms ⟨a.sink, a.poisoned, evs'⟩).1)) ++ part ∧
          (part = [] ∨ ∃ m' ∈ m :: ms, ∃ j, 0 < j ∧ j ≤ m'.length ∧ part = m'.take j) := by
      intro r j' hsj hpz hcase
      obtain ⟨part, h1, h2⟩ := ih ⟨a.sink, a.poisoned, evs'⟩ hpz
      refine ⟨part, ?_, ?_⟩
      · simp only at h1
        rcases hcase with ⟨hjl, hr'⟩ | ⟨hj0, hr'⟩
        · subst hjl
          rw [List.take_length] at hsj
          rcases hr' with rfl | rfl <;> simp only [whole, flat_cons] <;> rw [h1, hsj] <;> simp [List.append_assoc]
        · subst hj0; subst hr'
          simp only [List.take_zero, List.append_nil] at hsj
          simp only [whole]; rw [h1, hsj]
      · rcases h2 with h2 | ⟨m', hm', j'', hj1, hj2, hj3⟩
        · exact Or.inl h2
        · exact Or.inr ⟨m', by simp [hm'], j'', hj1, hj2, hj3⟩
    -- a send that ends the session or poisons the sender with the prefix `m.take j` in the sink
    have stop : ∀ (rs : List ASendR) (fin : ASeqSt), fin.sink = st.sink ++ m.take j → whole (m :: ms) rs = [] →
        ∃ part : Bytes, fin.sink = st.sink ++ flat (whole (m :: ms) rs) ++ part ∧
          (part = [] ∨ ∃ m' ∈ m :: ms, ∃ j, 0 < j ∧ j ≤ m'.length ∧ part = m'.take j) := by
      intro rs fin hfs hw
      by_cases hz : j = 0
      · subst hz; exact ⟨[], by simp [hfs, hw, flat], Or.inl rfl⟩
      · exact ⟨m.take j, by simp [hfs, hw, flat], Or.inr ⟨m, by simp, j, by omega, hj, rfl⟩⟩
    cases p with
    | done =>
      obtain ⟨hjl, hpz⟩ := hd rfl
      exact carry .ok j hs hpz (Or.inl ⟨hjl, Or.inl rfl⟩)
    | flushErr k =>
      obtain ⟨hjl, hpz⟩ := hfl ⟨k, rfl⟩
      exact carry .flushFailed j hs hpz (Or.inl ⟨hjl, Or.inr rfl⟩)
    | pending => exact absurd rfl hnp
    | blocked => exact stop [.failed] ⟨a.sink, a.poisoned, evs'⟩ hs (by simp [whole])
    | brokenPipe =>
      obtain ⟨hjlt, hpo⟩ := hf (Or.inl rfl)
      by_cases hz : j = 0
      · have hpz : a.poisoned = false := by
          cases hq : a.poisoned with
          | false => rfl
          | true => exact absurd (hpo.1 hq) (by simp [hz])
        exact carry .failed j hs hpz (Or.inr ⟨hz, rfl⟩)
      · have hpt : a.poisoned = true := hpo.2 hz
        obtain ⟨h1, h2⟩ := asendSeq_poisoned ms ⟨a.sink, a.poisoned, evs'⟩ hpt
        simp only
        rw [h2, h1]
        exact stop (.failed :: ms.map fun _ => ASendR.refused) ⟨a.sink, a.poisoned, evs'⟩ hs (by simp [whole, whole_refused])
    | err k =>
      obtain ⟨hjlt, hpo⟩ := hf (Or.inr ⟨k, rfl⟩)
      by_cases hz : j = 0
      · have hpz : a.poisoned = false := by
          cases hq : a.poisoned with
          | false => rfl
          | true => exact absurd (hpo.1 hq) (by simp [hz])
        exact carry .failed j hs hpz (Or.inr ⟨hz, rfl⟩)
      · have hpt : a.poisoned = true := hpo.2 hz
        obtain ⟨h1, h2⟩ := asendSeq_poisoned ms ⟨a.sink, a.poisoned, evs'⟩ hpt
        simp only
        rw [h2, h1]
        exact stop (.failed :: ms.map fun _ => ASendR.refused) ⟨a.sink, a.poisoned, evs'⟩ hs (by simp [whole, whole_refused])
end FV
#print axioms FV.asendSeq_sink_shape
