import FV.NoFault
/-! C01 assembled: for every well-formed type descriptor, validation never faults. -/
namespace FV

mutual
/-- is the described type `Sized`? -/
def Ty.isSized : Ty → Bool
  | .prim _ _ | .bool | .arr _ _ | .sstruct _ | .cenum _ _ | .senum _ _ => true
  | .vec _ _ | .str _ | .flex _ _ | .ustruct _ _ | .uenum _ _ => false
end

mutual
/-- what rustc and `#[flat]` accept -/
def Ty.WF : Ty → Prop
  | .prim s a => Pow2 a ∧ s % a = 0
  | .bool => True
  | .arr t _ => t.WF ∧ t.isSized = true
  | .sstruct fs => wfL fs ∧ sizedL fs
  | .cenum tag _ => tag.Law
  | .senum tag vs => tag.Law ∧ wfLL vs ∧ sizedLL vs
  | .vec t l => t.WF ∧ t.isSized = true ∧ l.Law
  | .str l => l.Law
  | .flex t l => t.WF ∧ l.Law
  | .ustruct fs last => wfL fs ∧ sizedL fs ∧ last.WF ∧ last.isSized = false
  | .uenum tag vs => tag.Law ∧ wfLL vs ∧ butLastLL vs
def wfL : List Ty → Prop
  | [] => True
  | t :: ts => t.WF ∧ wfL ts
def wfLL : List (List Ty) → Prop
  | [] => True
  | v :: vs => wfL v ∧ wfLL vs
def sizedL : List Ty → Prop
  | [] => True
  | t :: ts => t.isSized = true ∧ sizedL ts
def sizedLL : List (List Ty) → Prop
  | [] => True
  | v :: vs => sizedL v ∧ sizedLL vs
def butLastL : List Ty → Prop
  | [] => True
  | [_] => True
  | t :: ts => t.isSized = true ∧ butLastL ts
def butLastLL : List (List Ty) → Prop
  | [] => True
  | v :: vs => butLastL v ∧ butLastLL vs
end

theorem dict_sized_isSome (t : Ty) (h : t.isSized = true) : t.dict.sized.isSome := by
  cases t <;> simp [Ty.isSized] at h <;> simp [Ty.dict, primD, boolD, arrD, sstructD, cenumD, senumD]

theorem dict_sized_none (t : Ty) (h : t.isSized = false) : t.dict.sized = none := by
  cases t <;> simp [Ty.isSized] at h <;> simp [Ty.dict, vecD, strD, flexD, ustructD, uenumD]

theorem sizedL_allSized : ∀ fs : List Ty, sizedL fs → AllSized (dictL fs) := by
  intro fs
  induction fs with
  | nil => intro _ d hd; simp [dictL] at hd
  | cons t ts ih =>
    intro h d hd
    simp only [dictL, List.mem_cons] at hd
    rcases hd with rfl | hm
    · exact dict_sized_isSome t h.1
    · exact ih h.2 d hm

theorem butLastL_dict : ∀ fs : List Ty, butLastL fs → AllSizedButLast (dictL fs) := by
  intro fs
  induction fs with
  | nil => intro _; trivial
  | cons t ts ih =>
    intro h
    cases ts with
    | nil => trivial
    | cons t' ts' =>
      simp only [butLastL] at h
      exact ⟨dict_sized_isSome t h.1, ih h.2⟩

mutual
theorem Ty.law : ∀ t : Ty, t.WF → Law t.dict
  | .prim s a, h => by simp only [Ty.WF] at h; exact prim_law s a h.1 h.2
  | .bool, _ => bool_law
  | .arr t n, h => by
      simp only [Ty.WF] at h
      have hs := dict_sized_isSome t h.2
      obtain ⟨sz, hsz⟩ : ∃ sz, t.dict.sized = some sz := by cases hq : t.dict.sized <;> simp_all
      exact arr_law t.dict (Ty.law t h.1) sz hsz n
  | .sstruct fs, h => by
      simp only [Ty.WF] at h
      exact sstruct_law (dictL fs) (lawL fs h.1) (sizedL_allSized fs h.2)
  | .cenum tag n, h => by simp only [Ty.WF] at h; exact cenum_law tag h n
  | .senum tag vs, h => by
      simp only [Ty.WF] at h
      exact senum_law tag h.1 (dictLL vs) (lawLL vs h.2.1) (sizedLL_all vs h.2.2)
  | .vec t l, h => by
      simp only [Ty.WF] at h
      have hs := dict_sized_isSome t h.2.1
      obtain ⟨sz, hsz⟩ : ∃ sz, t.dict.sized = some sz := by cases hq : t.dict.sized <;> simp_all
      exact vec_law t.dict (Ty.law t h.1) sz hsz l h.2.2
  | .str l, h => by simp only [Ty.WF] at h; exact str_law l h
  | .flex t l, h => by simp only [Ty.WF] at h; exact flex_law t.dict (Ty.law t h.1) l h.2
  | .ustruct fs last, h => by
      simp only [Ty.WF] at h
      exact ustruct_law (dictL fs) last.dict (lawL fs h.1) (sizedL_allSized fs h.2.1) (Ty.law last h.2.2.1)
        (dict_sized_none last h.2.2.2)
  | .uenum tag vs, h => by
      simp only [Ty.WF] at h
      exact uenum_law tag h.1 (dictLL vs) (lawLL vs h.2.1) (butLastLL_all vs h.2.2)
theorem lawL : ∀ fs : List Ty, wfL fs → ∀ d ∈ dictL fs, Law d
  | [], _ => by intro d hd; simp [dictL] at hd
  | t :: ts, h => by
      intro d hd
      simp only [dictL, List.mem_cons] at hd
      rcases hd with rfl | hm
      · exact Ty.law t h.1
      · exact lawL ts h.2 d hm
theorem lawLL : ∀ vs : List (List Ty), wfLL vs → ∀ v ∈ dictLL vs, ∀ d ∈ v, Law d
  | [], _ => by intro v hv; simp [dictLL] at hv
  | v0 :: vs, h => by
      intro v hv
      simp only [dictLL, List.mem_cons] at hv
      rcases hv with rfl | hm
      · exact lawL v0 h.1
      · exact lawLL vs h.2 v hm
theorem sizedLL_all : ∀ vs : List (List Ty), sizedLL vs → ∀ v ∈ dictLL vs, AllSized v
  | [], _ => by intro v hv; simp [dictLL] at hv
  | v0 :: vs, h => by
      intro v hv
      simp only [dictLL, List.mem_cons] at hv
      rcases hv with rfl | hm
      · exact sizedL_allSized v0 h.1
      · exact sizedLL_all vs h.2 v hm
theorem butLastLL_all : ∀ vs : List (List Ty), butLastLL vs → ∀ v ∈ dictLL vs, AllSizedButLast v
  | [], _ => by intro v hv; simp [dictLL] at hv
  | v0 :: vs, h => by
      intro v hv
      simp only [dictLL, List.mem_cons] at hv
      rcases hv with rfl | hm
      · exact butLastL_dict v0 h.1
      · exact butLastLL_all vs h.2 v hm
end

/-- **C01.** Checking an arbitrary byte slice (any length, any address, any contents) as any well-formed flat
type terminates with `ok` or `err`: never a panic, an out-of-slice or misaligned access, or fuel exhaustion. -/
theorem C01_validate_total (t : Ty) (h : t.WF) (s : Slice) : (t.dict.validate s).NoFault :=
  (Ty.law t h).validate_noFault s

/-- non-vacuity: a nested shape (unsized enum with a FlatVec variant and a FlexVec of unsized structs) satisfies `WF` -/
example : (Ty.uenum ⟨1, 1, false⟩ [[], [.prim 1 1, .prim 2 2], [.prim 1 1, .vec (.prim 1 1) ⟨2, 2, false⟩],
    [.flex (.ustruct [.prim 4 4] (.vec .bool ⟨2, 2, false⟩)) ⟨2, 2, false⟩]]).WF := by
  simp only [Ty.WF, wfL, wfLL, butLastL, butLastLL, Ty.isSized, sizedL]
  decide
end FV
#print axioms FV.C01_validate_total
