import FV.Combinators
/-! Rendering of the deep read (`Dict.walk`, defined next to each validator in `Combinators.lean`) in the canonical text form
the harness prints for the implementation. -/
namespace FV

def hexDigit (n : Nat) : Char := if n < 10 then Char.ofNat (48 + n) else Char.ofNat (87 + n)
def hexOf (bs : Bytes) : String := String.ofList (bs.flatMap fun b => [hexDigit (b.toNat / 16), hexDigit (b.toNat % 16)])

def joinSp : List String → String
  | [] => ""
  | [x] => x
  | x :: xs => x ++ " " ++ joinSp xs

abbrev Walker := Slice → Res String

mutual
/-- canonical text of a value; `caps = false` leaves the capacities out (content only) -/
def Val.render (caps : Bool) : Val → String
  | .raw bs => "r:" ++ hexOf bs
  | .bool b => if b then "b:1" else "b:0"
  | .arr xs => "[" ++ joinSp (renderL caps xs) ++ "]"
  | .tuple xs => "(" ++ joinSp (renderL caps xs) ++ ")"
  | .tag i xs => if xs.isEmpty then s!"<{i}>" else s!"<{i} {joinSp (renderL caps xs)}>"
  | .vec cap xs => (if caps then s!"V{cap}[" else "V[") ++ joinSp (renderL caps xs) ++ "]"
  | .vecZ cap len => if caps then s!"V{cap}[*{len}]" else s!"V[*{len}]"
  | .str cap bs => (if caps then s!"S{cap}:" else "S:") ++ hexOf bs
  | .flex xs => "F[" ++ joinSp (renderL caps xs) ++ "]"
def renderL (caps : Bool) : List Val → List String
  | [] => []
  | x :: xs => x.render caps :: renderL caps xs
end

/-- the deep read as text, with capacities -/
def Ty.walk (t : Ty) : Walker := fun s => (t.dict.walk s).map (Val.render true)
end FV
