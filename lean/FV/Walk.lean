import FV.Combinators
/-! Deep read of a mapped value through the accessors, rendered canonically (prototype of the content layer).
Organised like `Dict`: one walker combinator per type constructor, assembled by recursion over `Ty`. -/
namespace FV

def hexDigit (n : Nat) : Char := if n < 10 then Char.ofNat (48 + n) else Char.ofNat (87 + n)
def hexOf (bs : Bytes) : String := String.ofList (bs.flatMap fun b => [hexDigit (b.toNat / 16), hexDigit (b.toNat % 16)])

def joinSp : List String → String
  | [] => ""
  | [x] => x
  | x :: xs => x ++ " " ++ joinSp xs

abbrev Walker := Slice → Res String

/-- walker of a field together with its dictionary (for the layout) -/
structure WD where
  d : Dict
  w : Walker

def walkFields : List WD → Nat → Slice → Res (List String)
  | [], _, _ => .ok []
  | t :: ts, pos, s =>
    let p := ceilMul pos t.d.align
    (s.dropU p).bind fun x => (t.w x).bind fun v =>
      (walkFields ts (p + t.d.ssize) s).bind fun vs => .ok (v :: vs)

def walkVariant : List (List WD) → Nat → Slice → Res (List String)
  | [], _, _ => .fault .panic
  | v :: _, 0, s => walkFields v 0 s
  | _ :: vs, n+1, s => walkVariant vs n s

def walkArr (w : Walker) (sz : Nat) : Nat → Nat → Slice → Res (List String)
  | 0, _, _ => .ok []
  | k+1, i, s =>
    (s.dropU (i * sz)).bind fun a => (a.takeU sz).bind fun e => (w e).bind fun v =>
      (walkArr w sz k (i + 1) s).bind fun vs => .ok (v :: vs)

def walkFlex (w : Walker) (l : LenTy) (os : Nat) : Nat → Slice → Res (List String)
  | 0, _ => .fault .fuel
  | fuel+1, data =>
    (l.readU data).bind fun next =>
      if next = 0 then .ok []
      else if next = l.max then
        (data.splitAt os).bind fun (_, payload) => (w payload).bind fun v => .ok [v]
      else
        (data.splitAt next).bind fun (item, rest) =>
          (item.splitAt os).bind fun (_, payload) => (w payload).bind fun v =>
            (walkFlex w l os fuel rest).bind fun vs => .ok (v :: vs)

def primW (sz : Nat) : Walker := fun s => (s.takeU sz).bind fun x => .ok ("r:" ++ hexOf x.bytes)
def boolW : Walker := fun s => match s.bytes with
  | [] => .fault .oob
  | b :: _ => .ok (if b.toNat = 0 then "b:0" else "b:1")
def arrW (e : WD) (n : Nat) : Walker := fun s =>
  (walkArr e.w e.d.ssize n 0 s).bind fun xs => .ok ("[" ++ joinSp xs ++ "]")
def sstructW (fs : List WD) : Walker := fun s => (walkFields fs 0 s).bind fun xs => .ok ("(" ++ joinSp xs ++ ")")
def cenumW (tag : LenTy) : Walker := fun s => (tag.readU s).bind fun t => .ok s!"<{t}>"
def enumW (tag : LenTy) (vs : List (List WD)) (floorData : Bool) : Walker := fun s =>
  let al := max tag.align (alignLL (vs.map (·.map (·.d))))
  let dOff := ceilMul tag.size al
  (tag.readU s).bind fun t =>
    (s.dropU dOff).bind fun data =>
      let data := if floorData then data.take (floorMul data.len al) else data
      (walkVariant vs t data).bind fun xs => .ok (if xs.isEmpty then s!"<{t}>" else s!"<{t} {joinSp xs}>")
def vecW (e : WD) (l : LenTy) : Walker := fun s =>
  let dOff := max l.size e.d.align
  (l.readU s).bind fun len =>
    (vecSlots e.d l s.len).bind fun slots =>
      if e.d.ssize = 0 then .ok s!"V{min slots l.max}[*{len}]" else
      (walkArr e.w e.d.ssize len 0 (s.drop dOff)).bind fun xs => .ok (s!"V{min slots l.max}[" ++ joinSp xs ++ "]")
def strW (l : LenTy) : Walker := fun s =>
  (l.readU s).bind fun len =>
    if s.len < l.size then .fault .panic else
    let cap := min (floorMul (s.len - l.size) l.align) l.max
    .ok (s!"S{cap}:" ++ hexOf ((s.bytes.drop l.size).take len))
def flexW (e : WD) (l : LenTy) : Walker := fun s =>
  let al := max l.align e.d.align
  (walkFlex e.w l (max l.size e.d.align) (s.len + 1) (s.take (floorMul s.len al))).bind fun xs =>
    .ok ("F[" ++ joinSp xs ++ "]")
def ustructW (fs : List WD) (last : WD) : Walker := fun s =>
  let all := fs.map (·.d) ++ [last.d]
  let al := alignL all
  let s0 := s.take (floorMul s.len al)
  let lfo := ceilMul (foldSize (fs.map (·.d)) 0) last.d.align
  (walkFields fs 0 s0).bind fun xs =>
    (s0.dropU lfo).bind fun rest =>
      (last.w rest).bind fun x => .ok ("(" ++ joinSp (xs ++ [x]) ++ ")")

mutual
def Ty.walk : Ty → Walker
  | .prim sz _ => primW sz
  | .bool => boolW
  | .arr t n => arrW ⟨t.dict, t.walk⟩ n
  | .sstruct fs => sstructW (wdL fs)
  | .cenum tag _ => cenumW tag
  | .senum tag vs => enumW tag (wdLL vs) false
  | .vec t l => vecW ⟨t.dict, t.walk⟩ l
  | .str l => strW l
  | .flex t l => flexW ⟨t.dict, t.walk⟩ l
  | .ustruct fs last => ustructW (wdL fs) ⟨last.dict, last.walk⟩
  | .uenum tag vs => enumW tag (wdLL vs) true
def wdL : List Ty → List WD
  | [] => []
  | t :: ts => ⟨t.dict, t.walk⟩ :: wdL ts
def wdLL : List (List Ty) → List (List WD)
  | [] => []
  | v :: vs => wdL v :: wdLL vs
end
end FV
