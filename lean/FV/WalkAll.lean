import FV.WalkLaw
import FV.C05C06
/-! The deep read of every well-formed type: succeeds on valid slices, and is local (depends on the value's own bytes only). -/
namespace FV

mutual
theorem Ty.walkLaw : ∀ t : Ty, t.WF → WalkLaw t.dict
  | .prim s a, _ => prim_walk s a
  | .bool, _ => bool_walk
  | .arr t n, h => by
      simp only [Ty.WF] at h
      obtain ⟨sz, hsz⟩ : ∃ sz, t.dict.sized = some sz := by
        have hs := dict_sized_isSome t h.2
        cases hq : t.dict.sized <;> simp_all
      exact arr_walk t.dict (Ty.walkLaw t h.1) (Ty.law t h.1) sz hsz n
  | .sstruct fs, h => by
      simp only [Ty.WF] at h
      exact sstruct_walk (dictL fs) (lawL fs h.1) (frameL fs h.1) (walkL fs h.1) (sizedL_allSized fs h.2)
  | .cenum tag n, _ => cenum_walk tag n
  | .senum tag vs, h => by
      simp only [Ty.WF] at h
      exact senum_walk tag h.1 (dictLL vs) (lawLL vs h.2.1) (frameLL vs h.2.1) (walkLL vs h.2.1) (sizedLL_all vs h.2.2)
  | .vec t l, h => by
      simp only [Ty.WF] at h
      obtain ⟨sz, hsz⟩ : ∃ sz, t.dict.sized = some sz := by
        have hs := dict_sized_isSome t h.2.1
        cases hq : t.dict.sized <;> simp_all
      exact vec_walk t.dict (Ty.walkLaw t h.1) (Ty.law t h.1) sz hsz l h.2.2
  | .str l, h => by simp only [Ty.WF] at h; exact str_walk l h
  | .flex t l, h => by
      simp only [Ty.WF] at h
      exact flex_walk t.dict (Ty.walkLaw t h.1) (Ty.law t h.1) l h.2
  | .ustruct fs last, h => by
      simp only [Ty.WF] at h
      exact ustruct_walk (dictL fs) last.dict (lawL fs h.1) (frameL fs h.1) (walkL fs h.1) (sizedL_allSized fs h.2.1)
        (Ty.law last h.2.2.1) (Ty.frameLaw last h.2.2.1) (Ty.walkLaw last h.2.2.1)
  | .uenum tag vs, h => by
      simp only [Ty.WF] at h
      exact uenum_walk tag h.1 (dictLL vs) (lawLL vs h.2.1) (frameLL vs h.2.1) (walkLL vs h.2.1) (butLastLL_all vs h.2.2)
theorem walkL : ∀ fs : List Ty, wfL fs → ∀ d ∈ dictL fs, WalkLaw d
  | [], _ => by intro d hd; simp [dictL] at hd
  | t :: ts, h => by
      intro d hd
      simp only [dictL, List.mem_cons] at hd
      rcases hd with rfl | hm
      · exact Ty.walkLaw t h.1
      · exact walkL ts h.2 d hm
theorem walkLL : ∀ vs : List (List Ty), wfLL vs → ∀ v ∈ dictLL vs, ∀ d ∈ v, WalkLaw d
  | [], _ => by intro v hv; simp [dictLL] at hv
  | v0 :: vs, h => by
      intro v hv
      simp only [dictLL, List.mem_cons] at hv
      rcases hv with rfl | hm
      · exact walkL v0 h.1
      · exact walkLL vs h.2 v hm
end

/-- **Locality of the content.** Whatever lies behind a value does not show in its deep read: any slice at the same address
that agrees on the value's own `size()` bytes reads as the same content (capacities aside). -/
theorem walk_loc (d : Dict) (hF : FrameLaw d) (hW : WalkLaw d) (s : Slice) (z : Nat) (hal : s.addr % d.align = 0)
    (hlen : d.minSize ≤ s.len) (hv : d.validateU s = .ok ()) (hz : d.sizeV s = .ok z) (s' : Slice) (ha : s'.addr = s.addr)
    (hl' : z ≤ s'.len) (hb : s'.bytes.take z = s.bytes.take z) :
    (d.walk s').map Val.strip = (d.walk s).map Val.strip := by
  obtain ⟨z0, hz0, hzle, _, hzmin⟩ := hF.size_ok s hal hlen hv
  rw [hz] at hz0; cases hz0
  have hvt := (hF.loc s z hal hlen hv hz (s.take z) rfl (by simp only [Slice.len_take]; omega)
    (by simp only [Slice.take, List.take_take, Nat.min_self])).1
  have hv' := (hF.loc s z hal hlen hv hz s' ha hl' hb).1
  have e : s'.take z = s.take z := by simp only [Slice.take, ha, hb]
  have m1 := hW.mono s z hzmin hzle hv hvt
  have m2 := hW.mono s' z hzmin hl' hv' (by rw [e]; exact hvt)
  rw [← m2, e, m1]
end FV
