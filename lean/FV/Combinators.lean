import FV.Fields
import FV.Pow2
/-! Type combinators: one per Rust `impl` (repaired-code semantics). -/
namespace FV

/-- `FoldSizeIter::fold_size(0)` on a valid value -/
def foldSizeDyn : List Dict → Nat → Nat → Slice → Res Nat
  | [], _, acc, _ => .ok acc
  | [d], _, acc, data => do
      let s ← d.size data
      pure (ceilMul acc d.align + s)
  | d :: d' :: ds, pos, acc, data =>
      let next := ceilMul (pos + d.ssize) d'.align
      match data.splitAt (next - pos) with
      | .ok (_, rest) => foldSizeDyn (d' :: ds) next (ceilMul acc d.align + d.ssize) rest
      | .err e => .err e
      | .fault f => .fault f

/-! ### combinators -/
def primD (s a : Nat) : Dict :=
  { align := a, minSize := s, sized := some s, viewLen := fun _ => .ok s,
    validateU := fun _ => .ok (), size := fun _ => .ok s,
    walk := fun x => (x.takeU s).bind fun y => .ok (.raw y.bytes) }

def boolD : Dict :=
  { align := 1, minSize := 1, sized := some 1, viewLen := fun _ => .ok 1,
    validateU := fun s => match s.bytes with
      | [] => .fault .oob
      | b :: _ => if b.toNat ≤ 1 then .ok () else .err ⟨.invalidData, 0⟩,
    size := fun _ => .ok 1,
    walk := fun s => match s.bytes with
      | [] => .fault .oob
      | b :: _ => .ok (.bool (b.toNat != 0)) }

def arrLoop (d : Dict) (s : Slice) : Nat → Nat → Res Unit
  | 0, _ => .ok ()
  | k+1, i => do
      let a ← s.dropU (i * d.ssize)
      let e ← a.takeU d.ssize
      (d.validateU e).offset (i * d.ssize)
      arrLoop d s k (i+1)

/-- deep read of the elements, walked like `arrLoop` -/
def walkArr (d : Dict) (s : Slice) : Nat → Nat → Res (List Val)
  | 0, _ => .ok []
  | k+1, i =>
    (s.dropU (i * d.ssize)).bind fun a => (a.takeU d.ssize).bind fun e => (d.walk e).bind fun v =>
      (walkArr d s k (i+1)).bind fun vs => .ok (v :: vs)

def arrD (d : Dict) (n : Nat) : Dict :=
  { align := d.align, minSize := n * d.ssize, sized := some (n * d.ssize), viewLen := fun _ => .ok (n * d.ssize),
    validateU := fun s => arrLoop d s n 0, size := fun _ => .ok (n * d.ssize),
    walk := fun s => (walkArr d s n 0).bind fun xs => .ok (.arr xs) }

def sstructD (ds : List Dict) : Dict :=
  let al := alignL ds
  let sz := ceilMul (foldSize ds 0) al
  { align := al, minSize := sz, sized := some sz, viewLen := fun _ => .ok sz,
    validateU := fun s => validateAll ds 0 s, size := fun _ => .ok sz,
    walk := fun s => (walkAll ds 0 s).bind fun xs => .ok (.tuple xs) }

def cenumD (tag : LenTy) (n : Nat) : Dict :=
  { align := tag.align, minSize := tag.size, sized := some tag.size, viewLen := fun _ => .ok tag.size,
    validateU := fun s => do
      let t ← tag.readU s
      if t < n then pure () else .err ⟨.invalidEnumTag, 0⟩,
    size := fun _ => .ok tag.size,
    walk := fun s => (tag.readU s).bind fun t => .ok (.tag t []) }

def alignLL : List (List Dict) → Nat
  | [] => 1
  | v :: vs => max (alignL v) (alignLL vs)

def maxVarSize : List (List Dict) → Nat
  | [] => 0
  | v :: vs => max (ceilMul (foldSize v 0) (alignL v)) (maxVarSize vs)

def senumD (tag : LenTy) (vs : List (List Dict)) : Dict :=
  let al := max tag.align (alignLL vs)
  let dOff := ceilMul tag.size al
  let sz := ceilMul (dOff + maxVarSize vs) al
  { align := al, minSize := sz, sized := some sz, viewLen := fun _ => .ok sz,
    validateU := fun s => do
      let t ← tag.readU s
      if t < vs.length then
        let data ← s.dropU dOff
        (validateAll (vs.getD t []) 0 data).offset dOff
      else .err ⟨.invalidEnumTag, 0⟩,
    size := fun _ => .ok sz,
    walk := fun s => (tag.readU s).bind fun t => (s.dropU dOff).bind fun data =>
      (walkAll (vs.getD t []) 0 data).bind fun xs => .ok (.tag t xs) }

def usizeMax : Nat := 2^64 - 1

/-- number of element slots in the view (`ptr_from_bytes` metadata) -/
def vecSlots (d : Dict) (l : LenTy) (n : Nat) : Res Nat :=
  let al := max l.align d.align
  let dOff := max l.size d.align
  if n < dOff then .fault .panic
  else if d.ssize = 0 then .ok usizeMax
  else .ok (floorMul (n - dOff) al / d.ssize)

def vecElems (d : Dict) (dOff : Nat) (s : Slice) : Nat → Nat → Res Unit
  | 0, _ => .ok ()
  | k+1, i => do
      let a ← s.dropU (dOff + i * d.ssize)
      let e ← a.takeU d.ssize
      (d.validateU e).offset (dOff + i * d.ssize)
      vecElems d dOff s k (i+1)

/-- deep read of the elements, walked like `vecElems` -/
def walkElems (d : Dict) (dOff : Nat) (s : Slice) : Nat → Nat → Res (List Val)
  | 0, _ => .ok []
  | k+1, i =>
    (s.dropU (dOff + i * d.ssize)).bind fun a => (a.takeU d.ssize).bind fun e => (d.walk e).bind fun v =>
      (walkElems d dOff s k (i+1)).bind fun vs => .ok (v :: vs)

def vecD (d : Dict) (l : LenTy) : Dict :=
  let al := max l.align d.align
  let dOff := max l.size d.align
  { align := al, minSize := dOff, sized := none,
    viewLen := fun n => do
      let slots ← vecSlots d l n
      pure (ceilMul (dOff + slots * d.ssize) al),
    validateU := fun s => do
      let len ← l.readU s
      let slots ← vecSlots d l s.len
      let cap := min slots l.max
      if len > cap then .err ⟨.insufficientSize, dOff⟩
      else if d.ssize = 0 then .ok ()        -- zero-sized elements are not visited
      else vecElems d dOff s len 0,
    size := fun s => do
      let len ← l.readU s
      pure (ceilMul (dOff + d.ssize * len) al),
    walk := fun s => (l.readU s).bind fun len => (vecSlots d l s.len).bind fun slots =>
      if d.ssize = 0 then .ok (.vecZ (min slots l.max) len)
      else (walkElems d dOff s len 0).bind fun xs => .ok (.vec (min slots l.max) xs) }

/-- number of leading bytes forming valid UTF-8 (`Utf8Error::valid_up_to`), `none` if all valid -/
def utf8Step : Bytes → Option Nat   -- length of the first scalar, none if malformed
  | [] => none
  | b0 :: rest =>
    let x := b0.toNat
    let cont (b : UInt8) (lo hi : Nat) : Bool := lo ≤ b.toNat && b.toNat ≤ hi
    if x < 0x80 then some 1
    else if 0xC2 ≤ x && x ≤ 0xDF then
      match rest with | b1 :: _ => if cont b1 0x80 0xBF then some 2 else none | _ => none
    else if 0xE0 ≤ x && x ≤ 0xEF then
      let (lo, hi) := if x = 0xE0 then (0xA0, 0xBF) else if x = 0xED then (0x80, 0x9F) else (0x80, 0xBF)
      match rest with | b1 :: b2 :: _ => if cont b1 lo hi && cont b2 0x80 0xBF then some 3 else none | _ => none
    else if 0xF0 ≤ x && x ≤ 0xF4 then
      let (lo, hi) := if x = 0xF0 then (0x90, 0xBF) else if x = 0xF4 then (0x80, 0x8F) else (0x80, 0xBF)
      match rest with | b1 :: b2 :: b3 :: _ => if cont b1 lo hi && cont b2 0x80 0xBF && cont b3 0x80 0xBF then some 4 else none | _ => none
    else none

def utf8ValidUpTo : Nat → Nat → Bytes → Option Nat   -- fuel, position so far
  | 0, _, _ => none
  | _, _, [] => none
  | fuel+1, pos, bs =>
    match utf8Step bs with
    | none => some pos
    | some k => utf8ValidUpTo fuel (pos + k) (bs.drop k)

def strD (l : LenTy) : Dict :=
  let al := l.align
  let dOff := l.size
  { align := al, minSize := dOff, sized := none,
    viewLen := fun n => if n < dOff then .fault .panic else .ok (dOff + floorMul (n - dOff) al),
    validateU := fun s => do
      let len ← l.readU s
      if s.len < dOff then .fault .panic else
      let cap := min (floorMul (s.len - dOff) al) l.max
      if len > cap then .err ⟨.insufficientSize, dOff⟩
      else match utf8ValidUpTo (len + 1) 0 ((s.bytes.drop dOff).take len) with
        | none => .ok ()
        | some p => .err ⟨.invalidData, dOff + p⟩,
    size := fun s => do
      let len ← l.readU s
      pure (ceilMul (dOff + len) al),
    walk := fun s => (l.readU s).bind fun len =>
      if s.len < dOff then .fault .panic
      else .ok (.str (min (floorMul (s.len - dOff) al) l.max) ((s.bytes.drop dOff).take len)) }

/-- FlexVec chain walk for validation (repaired code): returns unit; `pos` = offset of the current slot -/
def flexValidate (d : Dict) (l : LenTy) (os : Nat) : Nat → Nat → Slice → Res Unit
  | 0, _, _ => .fault .fuel
  | fuel+1, pos, data =>
    if data.addr % max l.align d.align ≠ 0 then .err ⟨.badAlign, pos⟩ else
    match checkAlignMin l.align l.size data with
    | .err e => .err { e with pos := e.pos + pos }
    | .fault f => .fault f
    | .ok () =>
      match l.readU data with
      | .err e => .err e
      | .fault f => .fault f
      | .ok next =>
        if next = 0 then .ok ()
        else
          let last := next = l.max
          if next ≠ l.max ∧ os > next then .err ⟨.invalidData, pos⟩
          else if os > data.len || (!last && next > data.len) then .err ⟨.insufficientSize, pos + os⟩
          else if last then
            match data.splitAt os with
            | .ok (_, payload) => (d.validate payload).offset (pos + os)
            | .err e => .err e
            | .fault f => .fault f
          else
            match data.splitAt next with
            | .ok (item, rest) =>
              match item.splitAt os with
              | .ok (_, payload) =>
                match (d.validate payload).offset (pos + os) with
                | .ok () => flexValidate d l os fuel (pos + next) rest
                | r => r
              | .err e => .err e
              | .fault f => .fault f
            | .err e => .err e
            | .fault f => .fault f

/-- FlexVec::size() on valid bytes (repaired code) -/
def flexSize (d : Dict) (l : LenTy) (os al : Nat) : Nat → Nat → Slice → Res Nat
  | 0, _, _ => .fault .fuel
  | fuel+1, pos, data => do
      let next ← l.readU data
      if next = 0 then pure (pos + os)
      else if next = l.max then
        let (_, payload) ← data.splitAt os
        let s ← d.size payload
        pure (pos + os + ceilMul s al)
      else
        let (_, rest) ← data.splitAt next
        flexSize d l os al fuel (pos + next) rest

/-- deep read of the items, walked like `flexValidate` -/
def walkFlex (d : Dict) (l : LenTy) (os : Nat) : Nat → Slice → Res (List Val)
  | 0, _ => .fault .fuel
  | fuel+1, data =>
    (l.readU data).bind fun next =>
      if next = 0 then .ok []
      else if next = l.max then
        match data.splitAt os with
        | .ok (_, payload) => (d.walk payload).bind fun v => .ok [v]
        | .err e => .err e
        | .fault f => .fault f
      else
        match data.splitAt next with
        | .ok (item, rest) =>
          match item.splitAt os with
          | .ok (_, payload) => (d.walk payload).bind fun v => (walkFlex d l os fuel rest).bind fun vs => .ok (v :: vs)
          | .err e => .err e
          | .fault f => .fault f
        | .err e => .err e
        | .fault f => .fault f

def flexD (d : Dict) (l : LenTy) : Dict :=
  let al := max l.align d.align
  let os := max l.size d.align
  { align := al, minSize := os, sized := none,
    viewLen := fun n => .ok (floorMul n al),
    validateU := fun s => flexValidate d l os (s.len + 1) 0 (s.take (floorMul s.len al)),
    size := fun s => flexSize d l os al (s.len + 1) 0 (s.take (floorMul s.len al)),
    walk := fun s => (walkFlex d l os (s.len + 1) (s.take (floorMul s.len al))).bind fun xs => .ok (.flex xs) }

def ustructD (ds : List Dict) (last : Dict) : Dict :=
  let fs := ds ++ [last]
  let al := alignL fs
  let lfo := ceilMul (foldSize ds 0) last.align
  { align := al, minSize := ceilMul (minSizeL fs 0) al, sized := none,
    viewLen := fun n => do
      let n' := floorMul n al
      if n' < lfo then .fault .panic else
      let m ← last.viewLen (n' - lfo)
      pure (ceilMul (lfo + m) al),
    validateU := fun s => validateAll fs 0 (s.take (floorMul s.len al)),
    size := fun s => do
      let lastBytes ← (s.take (floorMul s.len al)).dropU lfo
      let z ← last.size lastBytes
      pure (ceilMul (lfo + z) al),
    walk := fun s => (walkAll fs 0 (s.take (floorMul s.len al))).bind fun xs => .ok (.tuple xs) }

def minList : List Nat → Nat
  | [] => 0
  | [x] => x
  | x :: xs => min x (minList xs)

def varMinSize (v : List Dict) : Nat := if v.isEmpty then 0 else minSizeL v 0

def uenumD (tag : LenTy) (vs : List (List Dict)) : Dict :=
  let al := max tag.align (alignLL vs)
  let dOff := ceilMul tag.size al
  { align := al, minSize := ceilMul (dOff + minList (vs.map varMinSize)) al, sized := none,
    viewLen := fun n => if n < dOff then .fault .panic else .ok (dOff + floorMul (n - dOff) al),
    validateU := fun s => do
      let t ← tag.readU s
      if t < vs.length then
        let data ← s.dropU dOff
        let data := data.take (floorMul data.len al)
        let v := vs.getD t []
        if data.len < varMinSize v then .err ⟨.insufficientSize, dOff⟩
        else (validateAll v 0 data).offset dOff
      else .err ⟨.invalidEnumTag, 0⟩,
    size := fun s => do
      let t ← tag.readU s
      let data ← s.dropU dOff
      let data := data.take (floorMul data.len al)
      let v := vs.getD t []
      let z ← (if v.isEmpty then pure 0 else foldSizeDyn v 0 0 data)
      pure (ceilMul (dOff + z) al),
    walk := fun s => (tag.readU s).bind fun t => (s.dropU dOff).bind fun data =>
      (walkAll (vs.getD t []) 0 (data.take (floorMul data.len al))).bind fun xs => .ok (.tag t xs) }

/-! ### descriptors -/
inductive Ty where
  | prim (size align : Nat)
  | bool
  | arr (t : Ty) (n : Nat)
  | sstruct (fs : List Ty)
  | cenum (tag : LenTy) (n : Nat)
  | senum (tag : LenTy) (vs : List (List Ty))
  | vec (t : Ty) (l : LenTy)
  | str (l : LenTy)
  | flex (t : Ty) (l : LenTy)
  | ustruct (fs : List Ty) (last : Ty)
  | uenum (tag : LenTy) (vs : List (List Ty))
deriving Repr

mutual
def Ty.dict : Ty → Dict
  | .prim s a => primD s a
  | .bool => boolD
  | .arr t n => arrD t.dict n
  | .sstruct fs => sstructD (dictL fs)
  | .cenum tag n => cenumD tag n
  | .senum tag vs => senumD tag (dictLL vs)
  | .vec t l => vecD t.dict l
  | .str l => strD l
  | .flex t l => flexD t.dict l
  | .ustruct fs last => ustructD (dictL fs) last.dict
  | .uenum tag vs => uenumD tag (dictLL vs)
def dictL : List Ty → List Dict
  | [] => []
  | t :: ts => t.dict :: dictL ts
def dictLL : List (List Ty) → List (List Dict)
  | [] => []
  | v :: vs => dictL v :: dictLL vs
end


end FV
