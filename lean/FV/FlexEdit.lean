import FV.FlexChain
import FV.Ops
/-! Editing one item of a FlexVec in place (`iter_mut()`, `as_mut()` of an item): the item's bytes are replaced by other bytes of
the same length that are again a valid item; the vector is still a chain with the same slots, and every other item is the same. -/
namespace FV

/-- replace `len` bytes at `off` -/
def splice (bs : Bytes) (off len : Nat) (p : Bytes) : Bytes := bs.take off ++ p ++ bs.drop (off + len)

theorem splice_length {bs p : Bytes} {off len : Nat} (hp : p.length = len) (h : off + len ≤ bs.length) :
    (splice bs off len p).length = bs.length := by
  simp only [splice, List.length_append, List.length_take, List.length_drop, hp]; omega

theorem splice_take {bs p : Bytes} {off len : Nat} (h : off ≤ bs.length) (k : Nat) (hk : k ≤ off) :
    (splice bs off len p).take k = bs.take k := by
  simp only [splice]
  rw [List.append_assoc, List.take_append_of_le_length (by simp only [List.length_take]; omega), List.take_take, Nat.min_eq_left hk]

theorem splice_drop_after {bs p : Bytes} {off len : Nat} (hp : p.length = len) (h : off + len ≤ bs.length) (k : Nat) (hk : off + len ≤ k) :
    (splice bs off len p).drop k = bs.drop k := by
  simp only [splice]
  have h1 : (bs.take off ++ p).length = off + len := by simp only [List.length_append, List.length_take, hp]; omega
  rw [List.drop_append, List.drop_of_length_le (by omega), List.nil_append, List.drop_drop]
  congr 1; omega

theorem splice_mid {bs p : Bytes} {off len : Nat} (hp : p.length = len) (h : off + len ≤ bs.length) :
    ((splice bs off len p).drop off).take len = p := by
  simp only [splice]
  rw [List.append_assoc, List.drop_left' (by simp only [List.length_take]; omega), List.take_left' hp]

/-- splicing behind a cut is splicing in the tail -/
theorem splice_drop_before {bs p : Bytes} {off len : Nat} (hp : p.length = len) (h : off + len ≤ bs.length) (k : Nat) (hk : k ≤ off) :
    (splice bs off len p).drop k = splice (bs.drop k) (off - k) len p := by
  simp only [splice]
  rw [List.append_assoc, List.drop_append_of_le_length (by simp only [List.length_take]; omega), List.drop_take, List.drop_drop,
    List.append_assoc]
  congr 2
  congr 1; omega

section
variable (d : Dict) (l : LenTy) (hfd : FrameLaw d)
include hfd

/-- **editing an item keeps the chain.** `flexItemRange` (the walk `iter_mut().nth(i)` makes) finds the payload range of item `i`;
replacing those bytes by any bytes of the same length that validate as an item gives a chain with the same number of items and
the same slot offsets, in which every other item has the same image. -/
theorem Chain.edit {pos : Nat} {data : Slice} {items : List (Nat × Bytes)}
    (h : Chain d l (max l.size d.align) pos data items) :
    ∀ (f i off len : Nat), flexItemRange l (max l.size d.align) f i pos data = .ok (some (off, len)) →
      pos + max l.size d.align ≤ off ∧ off - pos + len ≤ data.len ∧ i < items.length ∧
      ∀ p' : Bytes, p'.length = len → d.validate ⟨data.addr + (off - pos), p'⟩ = .ok () →
        ∃ items' : List (Nat × Bytes), items'.length = items.length ∧ items'.map Prod.fst = items.map Prod.fst ∧
          (∀ j, j ≠ i → items'[j]? = items[j]?) ∧
          Chain d l (max l.size d.align) pos ⟨data.addr, splice data.bytes (off - pos) len p'⟩ items' := by
  have hls : l.size ≤ max l.size d.align := Nat.le_max_left _ _
  induction h with
  | @term pos data hal hlen hr =>
    intro f i off len hrange
    cases f with
    | zero => simp [flexItemRange] at hrange
    | succ f => simp [flexItemRange, hr] at hrange
  | @last pos data z hal hlen hr hn h2 hv hz =>
    intro f i off len hrange
    cases f with
    | zero => simp [flexItemRange] at hrange
    | succ f =>
      simp only [flexItemRange, hr, Res.bind_ok, hn, if_false, if_true] at hrange
      split at hrange
      · rename_i hi
        simp only [Res.ok.injEq, Option.some.injEq, Prod.mk.injEq] at hrange
        obtain ⟨rfl, rfl⟩ := hrange
        subst hi
        have e0 : pos + max l.size d.align - pos = max l.size d.align := by omega
        refine ⟨Nat.le_refl _, by rw [e0]; omega, by simp, ?_⟩
        intro p' hp' hv'
        rw [e0] at hv' ⊢
        have hdl : data.len = data.bytes.length := rfl
        have hsl : (Slice.mk data.addr (splice data.bytes (max l.size d.align) (data.len - max l.size d.align) p')).len = data.len := by
          show (splice _ _ _ _).length = _
          rw [splice_length hp' (by omega)]; rfl
        have hdrop : (splice data.bytes (max l.size d.align) (data.len - max l.size d.align) p').drop (max l.size d.align) = p' := by
          have := splice_mid (bs := data.bytes) hp' (by omega : max l.size d.align + (data.len - max l.size d.align) ≤ data.bytes.length)
          rw [List.take_of_length_le (by rw [List.length_drop, splice_length hp' (by omega)]; omega)] at this
          exact this
        have hv2 : d.validate (Slice.drop ⟨data.addr, splice data.bytes (max l.size d.align) (data.len - max l.size d.align) p'⟩ (max l.size d.align)) = .ok () := by
          simp only [Slice.drop, hdrop]; exact hv'
        obtain ⟨hia, himin, hiv⟩ := validate_ok_iff.1 hv2
        obtain ⟨z', hz', _⟩ := hfd.size_ok _ hia himin hiv
        refine ⟨[(pos, ((splice data.bytes (max l.size d.align) (data.len - max l.size d.align) p').drop (max l.size d.align)).take z')],
          rfl, rfl, ?_, ?_⟩
        · intro j hj
          cases j with
          | zero => exact absurd rfl hj
          | succ j => rfl
        · exact Chain.last (z := z') hal (by rw [hsl]; exact hlen)
            (by rw [← hr]; exact readU_congr l data ⟨data.addr, _⟩ rfl hlen (by rw [hsl]; exact hlen)
                  (splice_take (by omega) _ hls))
            hn (by rw [hsl]; exact h2) hv2 hz'
      · simp at hrange
  | @item pos data next z rest hal hlen hr hn hmax h1 h2 hv hz hrest ih =>
    intro f i off len hrange
    cases f with
    | zero => simp [flexItemRange] at hrange
    | succ f =>
      have hdl : data.len = data.bytes.length := rfl
      simp only [flexItemRange, hr, Res.bind_ok, hn, hmax, if_false] at hrange
      split at hrange
      · -- the first item of this chain
        rename_i hi
        simp only [Res.ok.injEq, Option.some.injEq, Prod.mk.injEq] at hrange
        obtain ⟨rfl, rfl⟩ := hrange
        subst hi
        have e0 : pos + max l.size d.align - pos = max l.size d.align := by omega
        refine ⟨Nat.le_refl _, by rw [e0]; omega, by simp, ?_⟩
        intro p' hp' hv'
        rw [e0] at hv' ⊢
        have hfit : max l.size d.align + (next - max l.size d.align) ≤ data.bytes.length := by omega
        have hsl : (Slice.mk data.addr (splice data.bytes (max l.size d.align) (next - max l.size d.align) p')).len = data.len := by
          show (splice _ _ _ _).length = _
          rw [splice_length hp' hfit]; rfl
        have hpay : ((Slice.take ⟨data.addr, splice data.bytes (max l.size d.align) (next - max l.size d.align) p'⟩ next).drop (max l.size d.align))
            = ⟨data.addr + max l.size d.align, p'⟩ := by
          simp only [Slice.take, Slice.drop, Slice.mk.injEq, true_and]
          have := splice_mid (bs := data.bytes) hp' hfit
          rw [List.drop_take]; exact this
        have hv2 : d.validate ((Slice.take ⟨data.addr, splice data.bytes (max l.size d.align) (next - max l.size d.align) p'⟩ next).drop (max l.size d.align)) = .ok () := by
          rw [hpay]; exact hv'
        obtain ⟨hia, himin, hiv⟩ := validate_ok_iff.1 hv2
        obtain ⟨z', hz', _⟩ := hfd.size_ok _ hia himin hiv
        have hrest' : Chain d l (max l.size d.align) (pos + next)
            (Slice.drop ⟨data.addr, splice data.bytes (max l.size d.align) (next - max l.size d.align) p'⟩ next) rest := by
          simp only [Slice.drop]
          rw [splice_drop_after hp' hfit next (by omega)]
          exact hrest
        refine ⟨(pos, ((splice data.bytes (max l.size d.align) (next - max l.size d.align) p').drop (max l.size d.align)).take z') :: rest,
          rfl, rfl, ?_, ?_⟩
        · intro j hj
          cases j with
          | zero => exact absurd rfl hj
          | succ j => rfl
        · exact Chain.item (z := z') hal (by rw [hsl]; exact hlen)
            (by rw [← hr]; exact readU_congr l data ⟨data.addr, _⟩ rfl hlen (by rw [hsl]; exact hlen)
                  (splice_take (by omega) _ hls))
            hn hmax h1 (by rw [hsl]; exact h2) hv2 hz' hrest'
      · -- a later item: it lies in the rest of the chain
        rename_i hi
        have hsp : data.splitAt next = .ok (data.take next, data.drop next) := by simp [Slice.splitAt, h2]
        simp only [hsp, Res.bind_ok] at hrange
        obtain ⟨hoff, hin, hilt, hed⟩ := ih f (i - 1) off len hrange
        simp only [Slice.len_drop] at hin
        have hoff' : next ≤ off - pos := by omega
        refine ⟨by omega, by omega, by simp only [List.length_cons]; omega, ?_⟩
        intro p' hp' hv'
        have e1 : data.addr + next + (off - (pos + next)) = data.addr + (off - pos) := by omega
        obtain ⟨items', hl', hfst, hoth, hch⟩ := hed p' hp' (by simp only [Slice.addr_drop]; rw [e1]; exact hv')
        have hfit : off - pos + len ≤ data.bytes.length := by omega
        have hsl : (Slice.mk data.addr (splice data.bytes (off - pos) len p')).len = data.len := by
          show (splice _ _ _ _).length = _
          rw [splice_length hp' hfit]; rfl
        have htk : (splice data.bytes (off - pos) len p').take next = data.bytes.take next := splice_take (by omega) _ hoff'
        have hdr : (splice data.bytes (off - pos) len p').drop next = splice (data.bytes.drop next) (off - (pos + next)) len p' := by
          rw [splice_drop_before hp' hfit next hoff']; congr 1; omega
        have htake : (⟨data.addr, splice data.bytes (off - pos) len p'⟩ : Slice).take next = data.take next := by
          simp only [Slice.take, htk]
        refine ⟨(pos, (data.bytes.drop (max l.size d.align)).take z) :: items', by simp [hl'], by simp [hfst], ?_, ?_⟩
        · intro j hj
          cases j with
          | zero => rfl
          | succ j =>
            simp only [List.getElem?_cons_succ]
            exact hoth j (by omega)
        · have himg : (data.bytes.drop (max l.size d.align)).take z = ((splice data.bytes (off - pos) len p').drop (max l.size d.align)).take z := by
            obtain ⟨hia, himin, hiv⟩ := validate_ok_iff.1 hv
            obtain ⟨z', hz', hzle, _⟩ := hfd.size_ok _ hia himin hiv
            rw [hz] at hz'; cases hz'
            have hzle' : z ≤ next - max l.size d.align := by
              have h2' : next ≤ data.bytes.length := h2
              simpa [Slice.len, Slice.take, Slice.drop, Nat.min_eq_left h2'] using hzle
            exact (drop_take_eq htk (by omega)).symm
          rw [himg]
          exact Chain.item (z := z) hal (by rw [hsl]; exact hlen)
            (by rw [← hr]; exact readU_congr l data ⟨data.addr, _⟩ rfl hlen (by rw [hsl]; exact hlen)
                  (take_take_eq htk (by omega)))
            hn hmax h1 (by rw [hsl]; exact h2) (by rw [htake]; exact hv) (by rw [htake]; exact hz)
            (by simp only [Slice.drop, hdr]; exact hch)
end
end FV
