import FV.Arith
/-! Core of the model: bytes, three-valued results, slices, length types, dictionaries. -/
namespace FV
abbrev Bytes := List UInt8

inductive EKind | insufficientSize | badAlign | invalidEnumTag | invalidData | other
deriving Repr, DecidableEq
structure Err where
  kind : EKind
  pos : Nat
deriving Repr, DecidableEq
inductive Fault | panic | oob | misaligned | fuel
deriving Repr, DecidableEq
inductive Res (α : Type) | ok (a : α) | err (e : Err) | fault (f : Fault)
deriving Repr, DecidableEq

namespace Res
def bind {α β} : Res α → (α → Res β) → Res β
  | ok a, f => f a
  | err e, _ => err e
  | fault w, _ => fault w
instance : Monad Res where
  pure := ok
  bind := bind
def NoFault {α} : Res α → Prop
  | fault _ => False
  | _ => True
def offset {α} (r : Res α) (n : Nat) : Res α :=
  match r with
  | err e => err { e with pos := e.pos + n }
  | r => r

instance {α} (r : Res α) : Decidable r.NoFault :=
  match r with
  | ok _ => isTrue trivial
  | err _ => isTrue trivial
  | fault _ => isFalse (fun h => h)

@[simp] theorem pure_eq {α} (a : α) : (pure a : Res α) = ok a := rfl
@[simp] theorem bind_eq {α β} (x : Res α) (f : α → Res β) : (x >>= f) = x.bind f := rfl
@[simp] theorem bind_ok {α β} (a : α) (f : α → Res β) : (ok a).bind f = f a := rfl
@[simp] theorem bind_err {α β} (e : Err) (f : α → Res β) : (err e : Res α).bind f = err e := rfl
@[simp] theorem bind_fault {α β} (w : Fault) (f : α → Res β) : (fault w : Res α).bind f = fault w := rfl
@[simp] theorem noFault_ok {α} (a : α) : (ok a : Res α).NoFault := trivial
@[simp] theorem noFault_err {α} (e : Err) : (err e : Res α).NoFault := trivial
@[simp] theorem noFault_fault {α} (w : Fault) : ¬ (fault w : Res α).NoFault := fun h => h
@[simp] theorem offset_ok {α} (a : α) (n : Nat) : (ok a : Res α).offset n = ok a := rfl
@[simp] theorem offset_fault {α} (w : Fault) (n : Nat) : (fault w : Res α).offset n = fault w := rfl
@[simp] theorem offset_err {α} (e : Err) (n : Nat) : (err e : Res α).offset n = err { e with pos := e.pos + n } := rfl
@[simp] theorem offset_noFault {α} (r : Res α) (n : Nat) : (r.offset n).NoFault ↔ r.NoFault := by
  cases r <;> simp [NoFault, offset]

theorem noFault_bind {α β} {x : Res α} {f : α → Res β}
    (hx : x.NoFault) (hf : ∀ a, x = ok a → (f a).NoFault) : (x.bind f).NoFault := by
  cases x with
  | ok a => exact hf a rfl
  | err e => simp
  | fault w => exact absurd hx (by simp)

theorem offset_eq_ok {α} {r : Res α} {n : Nat} {a : α} : r.offset n = ok a ↔ r = ok a := by
  cases r <;> simp [offset]
end Res

structure Slice where
  addr : Nat
  bytes : Bytes
deriving Repr
namespace Slice
def len (s : Slice) := s.bytes.length
def drop (s : Slice) (n : Nat) : Slice := ⟨s.addr + n, s.bytes.drop n⟩
def take (s : Slice) (n : Nat) : Slice := ⟨s.addr, s.bytes.take n⟩
/-- `split_at`: panics when `n > len`. -/
def splitAt (s : Slice) (n : Nat) : Res (Slice × Slice) :=
  if n ≤ s.len then .ok (s.take n, s.drop n) else .fault .panic
/-- `get_unchecked(n..)` -/
def dropU (s : Slice) (n : Nat) : Res Slice :=
  if n ≤ s.len then .ok (s.drop n) else .fault .oob
/-- `get_unchecked(..n)` -/
def takeU (s : Slice) (n : Nat) : Res Slice :=
  if n ≤ s.len then .ok (s.take n) else .fault .oob

@[simp] theorem len_drop (s : Slice) (n : Nat) : (s.drop n).len = s.len - n := by simp [len, drop]
@[simp] theorem len_take (s : Slice) (n : Nat) : (s.take n).len = min n s.len := by simp [len, take]
@[simp] theorem addr_drop (s : Slice) (n : Nat) : (s.drop n).addr = s.addr + n := rfl
@[simp] theorem addr_take (s : Slice) (n : Nat) : (s.take n).addr = s.addr := rfl
end Slice

def leNat : Bytes → Nat
  | [] => 0
  | b :: bs => b.toNat + 256 * leNat bs

structure LenTy where
  size : Nat
  align : Nat
  be : Bool
deriving Repr, DecidableEq
namespace LenTy
def max (l : LenTy) : Nat := 256 ^ l.size - 1
/-- typed read of the length at the start of the slice -/
def readU (l : LenTy) (s : Slice) : Res Nat :=
  if s.len < l.size then .fault .oob
  else if s.addr % l.align ≠ 0 then .fault .misaligned
  else .ok (if l.be then leNat (s.bytes.take l.size).reverse else leNat (s.bytes.take l.size))
/-- what rustc and `Length` accept -/
structure WF (l : LenTy) : Prop where
  size_pos : 0 < l.size
  align_pos : 0 < l.align
  align_dvd : l.size % l.align = 0
theorem readU_noFault (l : LenTy) (s : Slice) (h1 : l.size ≤ s.len) (h2 : s.addr % l.align = 0) :
    ∃ n, l.readU s = .ok n := by
  unfold readU
  have : ¬ s.len < l.size := by omega
  simp [this, h2]
end LenTy

def checkAlignMin (al mn : Nat) (s : Slice) : Res Unit :=
  if s.addr % al ≠ 0 then .err ⟨.badAlign, 0⟩
  else if s.len < mn then .err ⟨.insufficientSize, 0⟩
  else .ok ()

theorem checkAlignMin_ok {al mn : Nat} {s : Slice} : checkAlignMin al mn s = .ok () ↔ s.addr % al = 0 ∧ mn ≤ s.len := by
  unfold checkAlignMin
  by_cases h1 : s.addr % al = 0 <;> by_cases h2 : s.len < mn <;> simp [h1, h2] <;> omega

theorem checkAlignMin_noFault (al mn : Nat) (s : Slice) : (checkAlignMin al mn s).NoFault := by
  unfold checkAlignMin
  split
  · simp
  · split <;> simp

/-- the content of a mapped value, as the safe accessors show it (deep read). Capacities are part of what the accessors
show but not of the *content*: `strip` forgets them. -/
inductive Val where
  | raw (bs : Bytes)                    -- a plain sized scalar, by its bytes
  | bool (b : Bool)
  | arr (xs : List Val)
  | tuple (xs : List Val)               -- struct fields
  | tag (i : Nat) (xs : List Val)       -- enum variant and its fields
  | vec (cap : Nat) (xs : List Val)
  | vecZ (cap len : Nat)                -- vector of zero-sized elements
  | str (cap : Nat) (bs : Bytes)
  | flex (xs : List Val)
deriving Repr

mutual
def Val.strip : Val → Val
  | .raw bs => .raw bs
  | .bool b => .bool b
  | .arr xs => .arr (stripL xs)
  | .tuple xs => .tuple (stripL xs)
  | .tag i xs => .tag i (stripL xs)
  | .vec _ xs => .vec 0 (stripL xs)
  | .vecZ _ n => .vecZ 0 n
  | .str _ bs => .str 0 bs
  | .flex xs => .flex (stripL xs)
def stripL : List Val → List Val
  | [] => []
  | x :: xs => x.strip :: stripL xs
end

def Res.map {α β} (f : α → β) : Res α → Res β
  | .ok a => .ok (f a)
  | .err e => .err e
  | .fault w => .fault w
@[simp] theorem Res.map_ok {α β} (f : α → β) (a : α) : (Res.ok a).map f = .ok (f a) := rfl
@[simp] theorem Res.map_err {α β} (f : α → β) (e : Err) : (Res.err e : Res α).map f = .err e := rfl
@[simp] theorem Res.map_fault {α β} (f : α → β) (w : Fault) : (Res.fault w : Res α).map f = .fault w := rfl

structure Dict where
  align : Nat
  minSize : Nat
  sized : Option Nat
  /-- `as_bytes().len()` of the view made from a slice of this length (≥ minSize) -/
  viewLen : Nat → Res Nat
  validateU : Slice → Res Unit
  /-- `size()` of the value mapped from this slice (`from_bytes(s).size()`) -/
  size : Slice → Res Nat
  /-- deep read of the value mapped from this slice through the safe accessors -/
  walk : Slice → Res Val

namespace Dict
def ssize (d : Dict) : Nat := d.sized.getD 0
def validate (d : Dict) (s : Slice) : Res Unit :=
  (checkAlignMin d.align d.minSize s).bind fun _ => d.validateU s
end Dict

/-- The part of the `unsafe trait Flat` contract needed for totality (C01). -/
structure DNoFault (d : Dict) : Prop where
  align_pos : 0 < d.align
  sized_min : ∀ n, d.sized = some n → d.minSize = n
  noFault : ∀ s, s.addr % d.align = 0 → d.minSize ≤ s.len → (d.validateU s).NoFault

theorem validate_noFault {d : Dict} (h : DNoFault d) (s : Slice) : (d.validate s).NoFault := by
  unfold Dict.validate
  apply Res.noFault_bind (checkAlignMin_noFault _ _ _)
  intro a ha
  cases a
  have := checkAlignMin_ok.1 ha
  exact h.noFault s this.1 this.2
end FV
