import FV.EmplaceSer
/-! Emplace = serialise, FlexVec filled from an iterator (alignment-1 item and offset types). -/
namespace FV

/-- items with their real link offsets -/
def realPrefix (l : LenTy) : List Bytes → Bytes
  | [] => []
  | b :: bs => encLenTy l (l.size + b.length) ++ b ++ realPrefix l bs

/-- the chain: every item but the last preceded by its distance to the next slot, the last by `L::MAX`; empty = one zero slot -/
def serChain (l : LenTy) : List Bytes → Bytes
  | [] => encLenTy l 0
  | [b] => encLenTy l l.max ++ b
  | b :: b' :: bs => encLenTy l (l.size + b.length) ++ b ++ serChain l (b' :: bs)

def serAll (it : Ty) : List Init → Option (List Bytes)
  | [] => some []
  | i :: is => (serialize it i).bind fun b => (serAll it is).map (b :: ·)

theorem serItems_eq (it : Ty) (l : LenTy) : ∀ items : List Init, serItems it l items = (serAll it items).map (serChain l) := by
  intro items
  induction items with
  | nil => rfl
  | cons i is ih =>
    cases is with
    | nil =>
      simp only [serItems, serAll]
      cases serialize it i <;> rfl
    | cons j js =>
      simp only [serItems, serAll] at ih ⊢
      cases hs : serialize it i with
      | none => rfl
      | some b =>
        simp only [Option.bind_some]
        rw [ih]
        cases hj : serialize it j with
        | none => rfl
        | some bj =>
          simp only [Option.bind_some]
          cases hjs : serAll it js with
          | none => rfl
          | some bs => rfl

theorem realPrefix_append (l : LenTy) : ∀ (a b : List Bytes), realPrefix l (a ++ b) = realPrefix l a ++ realPrefix l b := by
  intro a
  induction a with
  | nil => intro b; rfl
  | cons x xs ih => intro b; simp only [List.cons_append, realPrefix, ih, List.append_assoc]

theorem serChain_append (l : LenTy) : ∀ (ss : List Bytes) (b : Bytes) (bs : List Bytes),
    serChain l (ss ++ b :: bs) = realPrefix l ss ++ serChain l (b :: bs) := by
  intro ss
  induction ss with
  | nil => intro b bs; rfl
  | cons x xs ih =>
    intro b bs
    cases xs with
    | nil => simp only [List.cons_append, List.nil_append, serChain, realPrefix, List.append_nil]
    | cons y ys =>
      have := ih b bs
      simp only [List.cons_append] at this ⊢
      simp only [serChain, realPrefix, this, List.append_assoc]

/-- byte-level invariant of the fill: everything before `pos` is the settled items with their real offsets -/
structure FillS (d : Dict) (l : LenTy) (base pos : Nat) (lastSlot : Option Nat) (whole : Bytes) (ss : List Bytes) : Prop where
  bytes : whole.take pos = realPrefix l ss
  len : (realPrefix l ss).length = pos
  small : ∀ b ∈ ss, l.size + b.length < l.max
  slot : match lastSlot with
    | none => ss = []
    | some q => ∃ ss0 bq, ss = ss0 ++ [bq] ∧ (realPrefix l ss0).length = q ∧
        d.sizeV ⟨base + q + l.size, whole.drop (q + l.size)⟩ = .ok bq.length

theorem realPrefix_snoc_length (l : LenTy) (ss0 : List Bytes) (bq : Bytes) :
    (realPrefix l (ss0 ++ [bq])).length = (realPrefix l ss0).length + (l.size + bq.length) := by
  rw [realPrefix_append]
  simp only [realPrefix, List.length_append, encLenTy_length, List.length_nil, Nat.add_zero]

theorem serChain_snoc (l : LenTy) (ss0 : List Bytes) (bq : Bytes) :
    serChain l (ss0 ++ [bq]) = realPrefix l ss0 ++ (encLenTy l l.max ++ bq) := by
  rw [serChain_append]; rfl

/-- closing the chain on the `Ok` path: the image up to `pos` becomes the serialised chain -/
theorem flexFinish_ser (d : Dict) (l : LenTy) (base pos : Nat) (lastSlot : Option Nat) (whole b' : Bytes) (ss : List Bytes)
    (hinv : FillS d l base pos lastSlot whole ss) (hN : l.size ≤ whole.length) (hposle : pos ≤ whole.length)
    (hfin : flexFinish l lastSlot (.ok ()) whole = .ok ⟨b', .ok ()⟩) :
    b'.take (serChain l ss).length = serChain l ss ∧
      (∀ q, lastSlot = some q → b'.drop (q + l.size) = whole.drop (q + l.size)) := by
  cases lastSlot with
  | none =>
    have hss : ss = [] := hinv.slot
    subst hss
    simp only [flexFinish] at hfin
    cases hw : writeAt whole 0 (encLenTy l 0) with
    | ok b'' =>
      rw [hw, Res.bind_ok] at hfin
      simp only [Res.ok.injEq, EO.mk.injEq, and_true] at hfin
      subst hfin
      have hread := writeAt_read hw
      simp only [List.drop_zero] at hread
      exact ⟨hread, fun q hq => by cases hq⟩
    | err e => rw [hw] at hfin; cases hfin
    | fault f => rw [hw] at hfin; cases hfin
  | some q =>
    obtain ⟨ss0, bq, hss, hq, _⟩ := hinv.slot
    subst hss
    have hlen := hinv.len
    rw [realPrefix_snoc_length, hq] at hlen
    simp only [flexFinish] at hfin
    cases hw : writeAt whole q (encLenTy l l.max) with
    | ok b'' =>
      rw [hw, Res.bind_ok] at hfin
      simp only [Res.ok.injEq, EO.mk.injEq, and_true] at hfin
      subst hfin
      obtain ⟨hb, _⟩ := writeAt_eq hw
      rw [encLenTy_length] at hb
      have hbytes := hinv.bytes
      rw [realPrefix_append] at hbytes
      simp only [realPrefix, List.append_nil] at hbytes
      -- pieces of the old image
      have h1 : whole.take q = realPrefix l ss0 := by
        have := take_take_eq (a := whole.take pos) (b := realPrefix l ss0 ++ (encLenTy l (l.size + bq.length) ++ bq)) (n := pos) (k := q)
          (by rw [List.take_take, Nat.min_self, hbytes, List.take_of_length_le]; simp only [List.length_append, encLenTy_length]; omega) (by omega)
        rw [List.take_take, Nat.min_eq_left (by omega), List.take_left' hq] at this
        exact this
      have h2 : (whole.drop (q + l.size)).take bq.length = bq := by
        have := drop_take_eq (a := whole.take pos) (b := realPrefix l ss0 ++ (encLenTy l (l.size + bq.length) ++ bq)) (n := pos)
          (off := q + l.size) (k := bq.length)
          (by rw [List.take_take, Nat.min_self, hbytes, List.take_of_length_le]; simp only [List.length_append, encLenTy_length]; omega) (by omega)
        rw [List.drop_take, List.take_take, Nat.min_eq_left (by omega)] at this
        rw [this, ← List.append_assoc, List.drop_left' (by simp only [List.length_append, encLenTy_length]; omega), List.take_length]
      refine ⟨?_, fun q' hq' => by cases hq'; rw [hb, List.drop_left' (by simp only [List.length_append, List.length_take, encLenTy_length]; omega)]⟩
      rw [serChain_snoc, hb]
      rw [List.append_assoc (whole.take q)]
      apply take_append_eq
      · rw [h1, List.take_left' rfl]
      · rw [← h1, List.drop_left' rfl]
        apply take_append_eq
        · rw [List.take_left' rfl]
        · rw [List.drop_left' rfl]; exact h2
    | err e => rw [hw] at hfin; cases hfin
    | fault f => rw [hw] at hfin; cases hfin

/-- what the main induction delivers about the final image -/
structure FinalS (d : Dict) (l : LenTy) (base : Nat) (fin : Bytes) (all : List Bytes) : Prop where
  bytes : fin.take (serChain l all).length = serChain l all
  small : ∀ b ∈ all, l.size + b.length < l.max
  lastSize : ∀ init bk, all = init ++ [bk] →
    d.sizeV ⟨base + (realPrefix l init).length + l.size, fin.drop ((realPrefix l init).length + l.size)⟩ = .ok bk.length

theorem flexFill_ser (it : Ty) (hwf : it.WF) (hia : it.dict.align = 1) (l : LenTy) (hl : l.Law) (hl1 : l.align = 1)
    (base N : Nat) (hN : l.size ≤ N) :
    ∀ (items : List Init), (∀ i ∈ items, EmpSpec it i) → (∀ i ∈ items, EmpSpecS it i) →
      ∀ (pos : Nat) (lastSlot : Option Nat) (whole : Bytes) (ss : List Bytes), whole.length = N → pos ≤ N →
      FillS it.dict l base pos lastSlot whole ss →
      ∀ o, flexFill it l items pos lastSlot whole base = .ok o → o.res = .ok () → ∀ bs, serAll it items = some bs →
        FinalS it.dict l base o.bytes (ss ++ bs) := by
  have hlpos := hl.size_pow2.pos
  have hos : max l.size it.dict.align = l.size := by rw [hia]; exact max_one_right _ hlpos
  have hal : max l.align it.dict.align = 1 := by rw [hia, hl1, Nat.max_self]
  intro items
  induction items with
  | nil =>
    intro _ _ pos lastSlot whole ss hwl hposle hinv o ho hres bs hbs
    simp only [serAll, Option.some.injEq] at hbs
    subst hbs
    rw [List.append_nil]
    rw [flexFill_nil] at ho
    have hr := flexFinish_res ho
    have ho' : flexFinish l lastSlot (.ok ()) whole = .ok ⟨o.bytes, .ok ()⟩ := by
      rw [ho]; cases o; simp only at hr; subst hr; rfl
    obtain ⟨h1, h2⟩ := flexFinish_ser it.dict l base pos lastSlot whole o.bytes ss hinv (by omega) (by omega) ho'
    refine ⟨h1, hinv.small, ?_⟩
    intro init bk hall
    cases lastSlot with
    | none => have := hinv.slot; simp only at this; rw [this] at hall; simp at hall
    | some q =>
      obtain ⟨ss0, bq, hss, hq, hsz⟩ := hinv.slot
      rw [hss] at hall
      have hi : ss0 = init := List.append_inj_left' hall rfl
      have hb : bq = bk := by have := List.append_inj_right' hall rfl; simpa using this
      subst hi hb
      rw [hq, h2 q rfl]
      exact hsz
  | cons i is ih =>
    intro hrecOk hrecS pos lastSlot whole ss hwl hposle hinv o ho hres bs hbs
    simp only [serAll] at hbs
    cases hsi : serialize it i with
    | none => rw [hsi] at hbs; cases hbs
    | some bi =>
      rw [hsi, Option.bind_some] at hbs
      cases hsr : serAll it is with
      | none => rw [hsr] at hbs; cases hbs
      | some bs' =>
        rw [hsr] at hbs
        simp only [Option.map_some, Option.some.injEq] at hbs
        subst hbs
        rw [flexFill_cons] at ho
        simp only [hos, hal, ceilMul_one] at ho
        by_cases hsmall : whole.length - pos < l.size
        · simp only [hsmall, if_true] at ho
          have := flexFinish_res ho; rw [hres] at this; cases this
        · simp only [hsmall, if_false] at ho
          cases hck : checkAlignMin it.dict.align it.dict.minSize ⟨base + pos + l.size, whole.drop (pos + l.size)⟩ with
          | fault f => simp only [hck] at ho; cases ho
          | err e => simp only [hck] at ho; have := flexFinish_res ho; rw [hres] at this; cases this
          | ok u =>
            simp only [hck] at ho
            obtain ⟨hpal, hpmin⟩ := checkAlignMin_ok.1 hck
            obtain ⟨oi, hoi, hoki⟩ := hrecOk i (by simp) _ hpal hpmin
            have hseri := hrecS i (by simp) _ hpal hpmin oi hoi
            simp only [hoi, Res.bind_ok] at ho
            have hol : oi.bytes.length = N - (pos + l.size) := by
              have := hoki.len; simpa [Slice.len, hwl] using this
            cases hresi : oi.res with
            | error e => simp only [hresi] at ho; have := flexFinish_res ho; rw [hres] at this; cases this
            | ok u =>
              simp only [hresi] at ho
              obtain ⟨hbi, hzi⟩ := hseri hresi bi hsi
              have hz' : it.dict.size ⟨base + pos + l.size, oi.bytes⟩ = .ok bi.length := hzi
              simp only [hz', Res.bind_ok] at ho
              by_cases hlt : l.size + bi.length < l.max
              · simp only [hlt, if_true] at ho
                have hbil : bi.length ≤ oi.bytes.length := by
                  have := congrArg List.length hbi
                  simp only [List.length_take] at this; omega
                have hb1l : (whole.take (pos + l.size) ++ oi.bytes).length = whole.length := by
                  simp only [List.length_append, List.length_take, hol]; omega
                obtain ⟨b2, hb2, hb2l⟩ := writeAt_ok (bs := whole.take (pos + l.size) ++ oi.bytes)
                  (x := encLenTy l (l.size + bi.length)) (off := pos) (by rw [encLenTy_length, hb1l]; omega)
                simp only [hb2, Res.bind_ok] at ho
                obtain ⟨hb2eq, _⟩ := writeAt_eq hb2
                rw [encLenTy_length] at hb2eq
                have e1 : (whole.take (pos + l.size) ++ oi.bytes).take pos = whole.take pos := by
                  rw [List.take_append_of_le_length (by simp only [List.length_take]; omega), List.take_take, Nat.min_eq_left (by omega)]
                have e2 : (whole.take (pos + l.size) ++ oi.bytes).drop (pos + l.size) = oi.bytes := by
                  rw [List.drop_left' (by simp only [List.length_take]; omega)]
                rw [e1, e2, hinv.bytes] at hb2eq
                have hplen := hinv.len
                have hset : FillS it.dict l base (pos + (l.size + bi.length)) (some pos) b2 (ss ++ [bi]) := by
                  refine ⟨?_, by rw [realPrefix_snoc_length, hplen], ?_, ⟨ss, bi, rfl, hplen, ?_⟩⟩
                  · rw [realPrefix_append]
                    simp only [realPrefix, List.append_nil]
                    rw [hb2eq, List.append_assoc]
                    have : pos + (l.size + bi.length) = (realPrefix l ss ++ (encLenTy l (l.size + bi.length) ++ bi)).length := by
                      simp only [List.length_append, encLenTy_length, hplen]
                    rw [this]
                    apply take_append_eq
                    · rw [List.take_left' rfl]
                    · rw [List.drop_left' rfl]
                      apply take_append_eq
                      · rw [List.take_left' rfl]
                      · rw [List.drop_left' rfl]; exact hbi
                  · intro b hb
                    rcases List.mem_append.1 hb with h | h
                    · exact hinv.small b h
                    · simp at h; subst h; exact hlt
                  · have : b2.drop (pos + l.size) = oi.bytes := by
                      rw [hb2eq, List.append_assoc, ← hplen]
                      rw [List.drop_append, List.drop_of_length_le (by omega), List.nil_append]
                      have : (realPrefix l ss).length + l.size - (realPrefix l ss).length = l.size := by omega
                      rw [this, List.drop_left' (encLenTy_length l _)]
                    rw [this]; exact hzi
                have := ih (fun j hj => hrecOk j (by simp [hj])) (fun j hj => hrecS j (by simp [hj])) _ (some pos) b2 (ss ++ [bi])
                  (by omega) (by omega) hset o ho hres bs' hsr
                simpa [List.append_assoc] using this
              · simp only [hlt, if_false] at ho
                have := flexFinish_res ho; rw [hres] at this; cases this

/-- `size()` of a chain whose bytes are the serialised chain -/
theorem lmax_ne_zero' (l : LenTy) (hl : l.Law) : l.max ≠ 0 := by
  have hp := hl.size_pow2.pos
  have : 256 ^ 1 ≤ 256 ^ l.size := Nat.pow_le_pow_right (by decide) hp
  have : l.max = 256 ^ l.size - 1 := rfl
  omega

theorem flexSize_serChain (d : Dict) (l : LenTy) (hl : l.Law) (hl1 : l.align = 1) :
    ∀ (all : List Bytes) (fuel pos : Nat) (data : Slice), data.len < fuel → (∀ b ∈ all, l.size + b.length < l.max) →
      data.bytes.take (serChain l all).length = serChain l all → data.addr % l.align = 0 →
      (∀ init bk, all = init ++ [bk] →
        d.sizeV ⟨data.addr + (realPrefix l init).length + l.size, data.bytes.drop ((realPrefix l init).length + l.size)⟩ = .ok bk.length) →
      flexSize d l l.size 1 fuel pos data = .ok (pos + (serChain l all).length) := by
  have hlpos := hl.size_pow2.pos
  intro all
  induction all with
  | nil =>
    intro fuel pos data hf _ hb ha _
    cases fuel with
    | zero => omega
    | succ f =>
      simp only [serChain, encLenTy_length] at hb ⊢
      have hr : l.readU data = .ok 0 := readU_of_take l data 0 (Nat.pow_pos (by decide)) ha hb
      exact flexSize_term d l _ _ f pos data hr
  | cons b rest ih =>
    intro fuel pos data hf hsm hb ha hlast
    have hKle : (serChain l (b :: rest)).length ≤ data.len := by
      have := congrArg List.length hb
      simp only [List.length_take, Slice.len] at this ⊢; omega
    cases fuel with
    | zero => omega
    | succ f =>
      cases rest with
      | nil =>
        simp only [serChain, List.length_append, encLenTy_length] at hb hKle ⊢
        have hr : l.readU data = .ok l.max := by
          apply readU_of_take l data l.max (lmax_lt l) ha
          have := take_take_eq (a := data.bytes.take (l.size + b.length)) (b := encLenTy l l.max ++ b) (n := l.size + b.length) (k := l.size)
            (by rw [List.take_take, Nat.min_self, hb, List.take_of_length_le]; simp only [List.length_append, encLenTy_length]; omega) (by omega)
          rw [List.take_take, Nat.min_eq_left (by omega), List.take_left' (encLenTy_length l _)] at this
          exact this
        have hz := hlast [] b rfl
        simp only [realPrefix, List.length_nil, Nat.add_zero, Nat.zero_add] at hz
        rw [flexSize_last d l _ _ f pos l.max data hr (lmax_ne_zero' l hl) rfl (by omega) b.length hz]
        simp only [ceilMul_one]; congr 1; omega
      | cons b' bs =>
        have hnext := hsm b (by simp)
        simp only [serChain, List.length_append, encLenTy_length] at hb hKle ⊢
        have hr : l.readU data = .ok (l.size + b.length) := by
          apply readU_of_take l data _ (Nat.lt_trans hnext (lmax_lt l)) ha
          have := take_take_eq (a := data.bytes.take (l.size + b.length + (serChain l (b' :: bs)).length))
            (b := encLenTy l (l.size + b.length) ++ b ++ serChain l (b' :: bs)) (n := l.size + b.length + (serChain l (b' :: bs)).length) (k := l.size)
            (by rw [List.take_take, Nat.min_self, hb, List.take_of_length_le]; simp only [List.length_append, encLenTy_length]; omega) (by omega)
          rw [List.take_take, Nat.min_eq_left (by omega), List.append_assoc, List.take_left' (encLenTy_length l _)] at this
          exact this
        rw [flexSize_item d l _ _ f pos (l.size + b.length) data hr (by omega) (by omega) (by omega)]
        rw [ih f (pos + (l.size + b.length)) (data.drop (l.size + b.length)) (by simp only [Slice.len_drop]; omega)
          (fun x hx => hsm x (by simp [hx]))
          (by
            show (data.bytes.drop (l.size + b.length)).take _ = _
            have := drop_take_eq (a := data.bytes.take (l.size + b.length + (serChain l (b' :: bs)).length))
              (b := encLenTy l (l.size + b.length) ++ b ++ serChain l (b' :: bs)) (n := l.size + b.length + (serChain l (b' :: bs)).length)
              (off := l.size + b.length) (k := (serChain l (b' :: bs)).length)
              (by rw [List.take_take, Nat.min_self, hb, List.take_of_length_le]; simp only [List.length_append, encLenTy_length]; omega) (by omega)
            rw [List.drop_take, List.take_take, Nat.min_eq_left (by omega)] at this
            rw [this, List.drop_left' (by simp only [List.length_append, encLenTy_length]), List.take_length])
          (by rw [hl1]; exact Nat.mod_one _)
          (by
            intro init bk hall
            have := hlast (b :: init) bk (by simp [hall])
            simp only [realPrefix, List.length_append, encLenTy_length, Slice.drop, List.drop_drop] at this ⊢
            have e1 : data.addr + (l.size + b.length) + (realPrefix l init).length + l.size =
                data.addr + (l.size + b.length + (realPrefix l init).length) + l.size := by omega
            have e2 : l.size + b.length + ((realPrefix l init).length + l.size) = l.size + b.length + (realPrefix l init).length + l.size := by omega
            rw [e1, e2]; exact this)]
        congr 1; omega
end FV
