import FV.Emplace
/-! FlexVec operations on the view's bytes (repaired-code semantics). Definitions only (prototype). -/
namespace FV

/-- checked read of a slot (`L::from_bytes(data)?`) -/
def readSlot (l : LenTy) (data : Slice) (pos : Nat) : Res (Except Err Nat) :=
  match checkAlignMin l.align l.size data with
  | .err e => .ok (.error e)            -- `?` returns the error as is (push does not offset it)
  | .fault f => .fault f
  | .ok () => (l.readU data).bind fun n => .ok (.ok n)

structure PushWalk where
  pos : Nat                      -- offset of the slot for the new item
  sealing : Option (Nat × Nat)      -- (offset of the current last slot, value to seal it with)

/-- the walk of `FlexVec::push` to the end of the chain -/
def pushWalk (it : Ty) (l : LenTy) : Nat → Nat → Slice → Res (Except Err PushWalk)
  | 0, _, _ => .fault .fuel
  | fuel+1, pos, data =>
    let d := it.dict
    let al := max l.align d.align
    let os := max l.size d.align
    (readSlot l data pos).bind fun r =>
    match r with
    | .error e => .ok (.error e)
    | .ok next =>
      if next = 0 then .ok (.ok ⟨pos, none⟩)
      else if next = l.max then
        (data.splitAt os).bind fun (_, payload) =>
        match d.validate payload with
        | .fault f => .fault f
        | .err e => .ok (.error e)
        | .ok () =>
          (d.size payload).bind fun z =>
            let lo := os + ceilMul z al
            if lo < l.max then .ok (.ok ⟨pos + lo, some (pos, lo)⟩)
            else .ok (.error ⟨.insufficientSize, pos + lo⟩)
      else
        (data.splitAt next).bind fun (_, rest) => pushWalk it l fuel (pos + next) rest

/-- `FlexVec::push(emplacer)` on the view bytes `data` (already floored) -/
def flexPush (it : Ty) (l : LenTy) (i : Init) (data : Slice) : Res EO :=
  let d := it.dict
  let os := max l.size d.align
  (pushWalk it l (data.len + 1) 0 data).bind fun w =>
  match w with
  | .error e => .ok ⟨data.bytes, .error e⟩
  | .ok w =>
    if data.len < w.pos then .fault .panic           -- `split_at_mut` past the end
    else if data.len - w.pos < os then .ok ⟨data.bytes, .error ⟨.insufficientSize, w.pos⟩⟩
    else
      let payload : Slice := ⟨data.addr + w.pos + os, data.bytes.drop (w.pos + os)⟩
      (emplace it i payload).bind fun o =>
        let b1 := data.bytes.take (w.pos + os) ++ o.bytes
        match o.res with
        | .error e => .ok ⟨b1, .error { e with pos := e.pos + w.pos + os }⟩
        | .ok () =>
          (writeAt b1 w.pos (encLenTy l l.max)).bind fun b2 =>
            match w.sealing with
            | none => .ok (EO.ok b2)
            | some (q, v) => (writeAt b2 q (encLenTy l v)).bind fun b3 => .ok (EO.ok b3)

/-- offsets of the slots of all items (valid chain) -/
def flexSlots (it : Ty) (l : LenTy) : Nat → Nat → Slice → Res (List Nat)
  | 0, _, _ => .fault .fuel
  | fuel+1, pos, data =>
    (l.readU data).bind fun next =>
      if next = 0 then .ok []
      else if next = l.max then .ok [pos]
      else (data.splitAt next).bind fun (_, rest) => (flexSlots it l fuel (pos + next) rest).bind fun r => .ok (pos :: r)

/-- `FlexVec::truncate(n)` -/
def flexTruncate (it : Ty) (l : LenTy) (n : Nat) (data : Slice) : Res Bytes :=
  (flexSlots it l (data.len + 1) 0 data).bind fun slots =>
    if n ≥ slots.length then .ok data.bytes
    else if n = 0 then writeAt data.bytes 0 (encLenTy l 0)
    else match slots[n - 1]? with
      | some q => writeAt data.bytes q (encLenTy l l.max)
      | none => .fault .panic

/-- `FlexVec::pop()`: returns the bytes and whether an item was removed -/
def flexPop (it : Ty) (l : LenTy) (data : Slice) : Res (Bytes × Bool) :=
  (flexSlots it l (data.len + 1) 0 data).bind fun slots =>
    if slots.length = 0 then .ok (data.bytes, false)
    else (flexTruncate it l (slots.length - 1) data).bind fun b => .ok (b, true)
end FV
