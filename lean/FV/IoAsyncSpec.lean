import FV.IoAsync
/-! C09 for the async sender: the invariant of `write_all` (`writeAll_spec`) holds for `WriteAll` polled to completion. -/
namespace FV

/-- what the suspension-free sender leaves behind, whatever the script: the sink has gained a prefix of the message that extends
the part already handed over; completion and a failed flush mean the whole message is in the sink; `Ok(0)` or a write error mean a
proper prefix, and the sender is poisoned exactly when that prefix is non-empty -/
theorem brun_spec (msg : Bytes) : ∀ (evs : List AEv) (st : AState) (sink0 : Bytes), st.pos ≤ msg.length →
    st.sink = sink0 ++ msg.take st.pos →
    ∃ j, st.pos ≤ j ∧ j ≤ msg.length ∧ (brun msg evs st).2.1.sink = sink0 ++ msg.take j ∧
      ((brun msg evs st).1 = .done → j = msg.length ∧ (brun msg evs st).2.1.poisoned = st.poisoned) ∧
      ((∃ k, (brun msg evs st).1 = .flushErr k) → j = msg.length ∧ (brun msg evs st).2.1.poisoned = st.poisoned) ∧
      ((brun msg evs st).1 = .brokenPipe ∨ (∃ k, (brun msg evs st).1 = .err k) →
        j < msg.length ∧ ((brun msg evs st).2.1.poisoned = true ↔ j ≠ 0)) ∧
      (brun msg evs st).1 ≠ .pending := by
  intro evs
  induction evs with
  | nil =>
    intro st sink0 hpos hs
    unfold brun
    split
    · exact ⟨st.pos, Nat.le_refl _, hpos, hs, by simp, by simp, by simp, by simp⟩
    · exact ⟨st.pos, Nat.le_refl _, hpos, hs, by simp, by simp, by simp, by simp⟩
  | cons ev evs ih =>
    intro st sink0 hpos hs
    unfold brun
    split
    · rename_i hdone
      have hj : st.pos = msg.length := by omega
      cases ev with
      | pending => exact ih st sink0 hpos hs
      | ok n => exact ⟨st.pos, Nat.le_refl _, hpos, hs, by simp [hj], by simp, by simp, by simp⟩
      | err k => exact ⟨st.pos, Nat.le_refl _, hpos, hs, by simp, by simp [hj], by simp, by simp⟩
    · rename_i hlt
      cases ev with
      | pending => exact ih st sink0 hpos hs
      | err k =>
        exact ⟨st.pos, Nat.le_refl _, hpos, hs, by simp, by simp, fun _ => ⟨by omega, by simp⟩, by simp⟩
      | ok n =>
        simp only
        split
        · exact ⟨st.pos, Nat.le_refl _, hpos, hs, by simp, by simp, fun _ => ⟨by omega, by simp⟩, by simp⟩
        · rename_i hn
          have hk : 0 < min n (msg.length - st.pos) := by omega
          have hsink : st.sink ++ (msg.drop st.pos).take (min n (msg.length - st.pos))
              = sink0 ++ msg.take (st.pos + min n (msg.length - st.pos)) := by
            rw [hs, List.append_assoc]; congr 1
            rw [List.take_add]
          obtain ⟨j, hj1, hj2, hsj, hd, hfl, hf, hp⟩ := ih { st with pos := st.pos + min n (msg.length - st.pos), sink := st.sink ++ (msg.drop st.pos).take (min n (msg.length - st.pos)) } sink0 (by simp only; omega) (by simp only; exact hsink)
          exact ⟨j, by simp only at hj1; omega, hj2, hsj, hd, hfl, hf, hp⟩

/-- **C09 for the async sender.** `WriteAll` polled to completion across any pattern of `Pending` (from an unpoisoned sender with
nothing of this message handed over yet): the sink has gained a prefix of the message and nothing else; `Ready(Ok)` and a failed flush
mean the whole message is in the sink; `Ok(0)` or a write error mean a proper prefix, and the sender is poisoned exactly when that
prefix is non-empty — so nothing can follow a partial message. -/
theorem arun_send_fault (msg : Bytes) (evs : List AEv) (sink0 : Bytes) :
    ∃ j, j ≤ msg.length ∧ (arun msg evs ⟨0, sink0, false⟩).2.1.sink = sink0 ++ msg.take j ∧
      ((arun msg evs ⟨0, sink0, false⟩).1 = .done → j = msg.length ∧ (arun msg evs ⟨0, sink0, false⟩).2.1.poisoned = false) ∧
      ((∃ k, (arun msg evs ⟨0, sink0, false⟩).1 = .flushErr k) → j = msg.length ∧ (arun msg evs ⟨0, sink0, false⟩).2.1.poisoned = false) ∧
      ((arun msg evs ⟨0, sink0, false⟩).1 = .brokenPipe ∨ (∃ k, (arun msg evs ⟨0, sink0, false⟩).1 = .err k) →
        j < msg.length ∧ ((arun msg evs ⟨0, sink0, false⟩).2.1.poisoned = true ↔ j ≠ 0)) ∧
      (arun msg evs ⟨0, sink0, false⟩).1 ≠ .pending := by
  rw [arun_eq_brun msg evs.length evs _ (Nat.le_refl _)]
  obtain ⟨j, _, hj, hs, hd, hfl, hf, hp⟩ := brun_spec msg evs ⟨0, sink0, false⟩ sink0 (Nat.zero_le _) (by simp)
  exact ⟨j, hj, hs, hd, hfl, hf, hp⟩
end FV
#print axioms FV.arun_send_fault
