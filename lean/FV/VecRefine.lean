import FV.Ops
import FV.EmplaceVec
/-! Refinement of the byte-level `GenericVec` operations (`vecOp`) to a capacity-bounded list (C11, C13 for FlatVec). -/
namespace FV

def VecGeo.cfg (g : VecGeo) : VecCfg := ⟨g.S, g.dOff, g.l⟩
@[simp] theorem VecGeo.cfg_encLen (g : VecGeo) (n : Nat) : g.cfg.encLen n = encLenTy g.l n := rfl
theorem VecGeo.cfg_elem (g : VecGeo) (bs : Bytes) (i : Nat) : g.cfg.elem bs i = g.elemAt bs i := rfl

/-- the state of a mapped vector: geometry consistent with the buffer, length within capacity and equal to the length field -/
structure VInv (g : VecGeo) (bs : Bytes) (len : Nat) : Prop where
  hd : g.l.size ≤ g.dOff
  cap_lt : g.cap < 256 ^ g.l.size
  room : g.dOff + g.cap * g.S ≤ bs.length
  len_le : len ≤ g.cap
  dec : g.cfg.decLen bs = len

/-- abstraction: the elements as byte chunks -/
def elemsOf (g : VecGeo) (bs : Bytes) (len : Nat) : List Bytes := (List.range len).map (g.elemAt bs)

@[simp] theorem elemsOf_length (g : VecGeo) (bs : Bytes) (len : Nat) : (elemsOf g bs len).length = len := by simp [elemsOf]
theorem elemsOf_get (g : VecGeo) (bs : Bytes) (len i : Nat) (h : i < len) : (elemsOf g bs len)[i]'(by simpa using h) = g.elemAt bs i := by
  simp [elemsOf]
theorem elemsOf_congr (g : VecGeo) (bs r : Bytes) (len : Nat) (h : ∀ i, i < len → g.elemAt r i = g.elemAt bs i) :
    elemsOf g r len = elemsOf g bs len := by
  unfold elemsOf
  apply List.map_congr_left
  intro i hi
  exact h i (by simpa using hi)
theorem elemsOf_succ (g : VecGeo) (bs : Bytes) (len : Nat) : elemsOf g bs (len + 1) = elemsOf g bs len ++ [g.elemAt bs len] := by
  simp [elemsOf, List.range_succ]
theorem elemsOf_take (g : VecGeo) (bs : Bytes) (len n : Nat) (h : n ≤ len) : (elemsOf g bs len).take n = elemsOf g bs n := by
  unfold elemsOf
  rw [← List.map_take, List.take_range, Nat.min_eq_left h]

theorem elemAt_length (g : VecGeo) (bs : Bytes) (i : Nat) (h : g.dOff + (i + 1) * g.S ≤ bs.length) : (g.elemAt bs i).length = g.S := by
  unfold VecGeo.elemAt
  rw [List.length_take, List.length_drop]
  have : (i + 1) * g.S = i * g.S + g.S := Nat.succ_mul _ _
  omega

/-- writing the length field: the new length is read back and no element changes -/
theorem setLen_spec (g : VecGeo) (bs : Bytes) (n : Nat) (hd : g.l.size ≤ g.dOff) (hroom : g.dOff ≤ bs.length) (hn : n < 256 ^ g.l.size) :
    ∃ r, g.setLen bs n = .ok r ∧ r.length = bs.length ∧ g.cfg.decLen r = n ∧ ∀ i, g.elemAt r i = g.elemAt bs i := by
  obtain ⟨r, hr, hrl⟩ := writeAt_ok (bs := bs) (x := encLenTy g.l n) (off := 0) (by rw [encLenTy_length]; omega)
  refine ⟨r, hr, hrl, ?_, ?_⟩
  · exact decLen_after_len g.cfg bs r n hn hr
  · intro i
    have := elem_after_len g.cfg bs r n i hd hr
    simpa [VecGeo.cfg_elem] using this

theorem mul_succ_le {i j S : Nat} (h : i < j) : (i + 1) * S ≤ j * S := Nat.mul_le_mul_right S h

/-- appending a run of items after the current ones (`push_unchecked` repeated, then the length) -/
theorem appendAll_spec (g : VecGeo) (bs : Bytes) (len : Nat) (xs : List Bytes) (hI : VInv g bs len)
    (hx : ∀ x ∈ xs, x.length = g.S) (hfit : len + xs.length ≤ g.cap) :
    ∃ r, g.appendAll bs len xs = .ok r ∧ r.length = bs.length ∧ VInv g r (len + xs.length) ∧
      elemsOf g r (len + xs.length) = elemsOf g bs len ++ xs := by
  have hcapS : (len + xs.length) * g.S ≤ g.cap * g.S := Nat.mul_le_mul_right _ hfit
  obtain ⟨b1, hb1, hb1l, hpre, hel⟩ := vecWriteElems_spec g.S g.dOff xs len bs hx (by have := hI.room; omega)
  obtain ⟨r, hr, hrl, hdec, hsame⟩ := setLen_spec g b1 (len + xs.length) hI.hd (by have := hI.room; omega) (by have := hI.cap_lt; omega)
  refine ⟨r, by simp [VecGeo.appendAll, hb1, hr], by omega, ⟨hI.hd, hI.cap_lt, by have := hI.room; omega, hfit, hdec⟩, ?_⟩
  -- elements: old ones unchanged, new ones as written
  apply List.ext_getElem
  · simp
  · intro i h1 h2
    simp only [elemsOf_length] at h1
    rw [elemsOf_get g r _ i h1, hsame i]
    by_cases hlt : i < len
    · rw [List.getElem_append_left (by simpa using hlt), elemsOf_get g bs len i hlt]
      unfold VecGeo.elemAt
      exact hpre (g.dOff + i * g.S) g.S (by have := mul_succ_le (S := g.S) hlt; rw [Nat.succ_mul] at this; omega)
    · have hge : len ≤ i := by omega
      rw [List.getElem_append_right (by simpa using hge)]
      simp only [elemsOf_length]
      have := hel (i - len) (by omega)
      have e : len + (i - len) = i := by omega
      rw [e] at this
      unfold VecGeo.elemAt
      exact this

/-- reading a sub-range of what was just written -/
theorem writeAt_read_sub {bs x : Bytes} {off : Nat} {r : Bytes} (h : writeAt bs off x = .ok r) (a k : Nat) (hak : a + k ≤ x.length) :
    (r.drop (off + a)).take k = (x.drop a).take k := by
  have hr := writeAt_read h
  have h1 : (r.drop off).take x.length = x.take x.length := by rw [hr, List.take_length]
  have := drop_take_eq (a := r.drop off) (b := x) (n := x.length) (off := a) (k := k) h1 hak
  rw [List.drop_drop] at this
  exact this

/-- writing one element slot: that element becomes the written bytes, every other element and the length field stay -/
theorem writeElem_spec (g : VecGeo) (bs x : Bytes) (i : Nat) (hx : x.length = g.S) (hroom : g.dOff + (i + 1) * g.S ≤ bs.length)
    (hd : g.l.size ≤ g.dOff) :
    ∃ r, writeAt bs (g.dOff + i * g.S) x = .ok r ∧ r.length = bs.length ∧ g.elemAt r i = x ∧
      (∀ j, j ≠ i → g.elemAt r j = g.elemAt bs j) ∧ g.cfg.decLen r = g.cfg.decLen bs := by
  have e : (i + 1) * g.S = i * g.S + g.S := Nat.succ_mul _ _
  obtain ⟨r, hr, hrl⟩ := writeAt_ok (bs := bs) (x := x) (off := g.dOff + i * g.S) (by omega)
  refine ⟨r, hr, hrl, ?_, ?_, ?_⟩
  · unfold VecGeo.elemAt
    have := writeAt_read hr
    rw [hx] at this; exact this
  · intro j hj
    unfold VecGeo.elemAt
    apply writeAt_frame hr
    rcases Nat.lt_or_gt_of_ne hj with hlt | hgt
    · left; have := mul_succ_le (S := g.S) hlt; rw [Nat.succ_mul] at this; omega
    · right; have := mul_succ_le (S := g.S) hgt; rw [Nat.succ_mul] at this; omega
  · unfold VecCfg.decLen
    have := writeAt_frame hr 0 g.l.size (Or.inl (by omega))
    simp only [List.drop_zero] at this
    simp only [VecGeo.cfg] at this ⊢
    rw [this]

/-- a capacity-bounded `Vec` of byte chunks: the specification of the operations -/
def specVec (cap : Nat) (xs : List Bytes) : Op → OpRet × List Bytes
  | .push x => if xs.length = cap then (.full, xs) else (.ok, xs ++ [x])
  | .pop => match xs.getLast? with
    | none => (.none, xs)
    | some e => (.some e, xs.dropLast)
  | .pushSlice ys => if ys.length > cap - xs.length then (.full, xs) else (.ok, xs ++ ys)
  | .extend ys => (.ok, xs ++ ys.take (cap - xs.length))
  | .trunc n => (.ok, xs.take n)
  | .clear => (.ok, [])
  | .remove i => match xs[i]? with
    | some e => (.elem e, xs.eraseIdx i)
    | none => (.panic, xs)
  | .swapRm i => match xs[i]?, xs.getLast? with
    | some e, some l => (.elem e, (xs.set i l).dropLast)
    | _, _ => (.panic, xs)
  | .resize n x => if n ≤ xs.length then (.ok, xs.take n) else if n ≤ cap then (.ok, xs ++ List.replicate (n - xs.length) x) else (.panic, xs)
  | .set i x => if i < xs.length then (.ok, xs.set i x) else (.panic, xs)
  | _ => (.panic, xs)

/-- arguments have the element size -/
def OpWF (g : VecGeo) : Op → Prop
  | .push x => x.length = g.S
  | .pushSlice xs => ∀ x ∈ xs, x.length = g.S
  | .extend xs => ∀ x ∈ xs, x.length = g.S
  | .resize _ x => x.length = g.S
  | .set _ x => x.length = g.S
  | .pop | .trunc _ | .clear | .remove _ | .swapRm _ => True
  | _ => False

theorem elemsOf_getLast (g : VecGeo) (bs : Bytes) (k : Nat) :
    (elemsOf g bs (k + 1)).getLast? = some (g.elemAt bs k) ∧ (elemsOf g bs (k + 1)).dropLast = elemsOf g bs k := by
  rw [elemsOf_succ]; simp

/-- the result of shrinking the length field -/
theorem shrink_spec (g : VecGeo) (bs : Bytes) (len n : Nat) (hI : VInv g bs len) (hn : n ≤ len) :
    ∃ r, g.setLen bs n = .ok r ∧ r.length = bs.length ∧ VInv g r n ∧ elemsOf g r n = (elemsOf g bs len).take n := by
  obtain ⟨r, hr, hrl, hdec, hsame⟩ := setLen_spec g bs n hI.hd (by have := hI.room; omega) (by have := hI.cap_lt; have := hI.len_le; omega)
  refine ⟨r, hr, hrl, ⟨hI.hd, hI.cap_lt, by have := hI.room; omega, by have := hI.len_le; omega, hdec⟩, ?_⟩
  rw [elemsOf_take g bs len n hn]
  exact elemsOf_congr g bs r n (fun i _ => hsame i)

theorem elemsOf_room (g : VecGeo) (bs : Bytes) (len i : Nat) (hI : VInv g bs len) (hi : i < len) : g.dOff + (i + 1) * g.S ≤ bs.length := by
  have h1 : (i + 1) * g.S ≤ g.cap * g.S := Nat.mul_le_mul_right _ (by have := hI.len_le; omega)
  have := hI.room; omega

/-- what a refinement step establishes -/
def Refines (g : VecGeo) (bs : Bytes) (len : Nat) (op : Op) (o : OpOut) : Prop :=
  o.bytes.length = bs.length ∧ ∃ len', VInv g o.bytes len' ∧ (o.ret, elemsOf g o.bytes len') = specVec g.cap (elemsOf g bs len) op

theorem refines_push (g : VecGeo) (bs : Bytes) (len : Nat) (hI : VInv g bs len) (x : Bytes) (hx : x.length = g.S) :
    ∃ o, vecOp g bs len (.push x) = .ok o ∧ Refines g bs len (.push x) o := by
  simp only [vecOp]
  by_cases hf : len = g.cap
  · exact ⟨⟨.full, bs⟩, by simp [hf], rfl, len, hI, by simp [specVec, hf]⟩
  · obtain ⟨r, hr, hrl, hI', hel⟩ := appendAll_spec g bs len [x] hI (by simpa using hx) (by have := hI.len_le; simp; omega)
    refine ⟨⟨.ok, r⟩, by simp [hf, hr], hrl, len + 1, by simpa using hI', ?_⟩
    simp only [specVec, elemsOf_length, hf, if_false]
    simpa using hel

theorem refines_pop (g : VecGeo) (bs : Bytes) (len : Nat) (hI : VInv g bs len) :
    ∃ o, vecOp g bs len .pop = .ok o ∧ Refines g bs len .pop o := by
  simp only [vecOp]
  cases len with
  | zero => exact ⟨⟨.none, bs⟩, by simp, rfl, 0, hI, by simp [specVec, elemsOf]⟩
  | succ k =>
    obtain ⟨r, hr, hrl, hI', hel⟩ := shrink_spec g bs (k + 1) k hI (by omega)
    obtain ⟨h1, h2⟩ := elemsOf_getLast g bs k
    refine ⟨⟨.some (g.elemAt bs k), r⟩, by simp [hr], hrl, k, hI', ?_⟩
    simp only [specVec, h1, h2]
    rw [hel, elemsOf_take g bs (k + 1) k (by omega)]

theorem refines_append (g : VecGeo) (bs : Bytes) (len : Nat) (hI : VInv g bs len) (xs : List Bytes) (hx : ∀ x ∈ xs, x.length = g.S)
    (hfit : len + xs.length ≤ g.cap) (hne : xs ≠ []) :
    ∃ r, g.appendAll bs len xs = .ok r ∧ r.length = bs.length ∧ VInv g r (len + xs.length) ∧
      elemsOf g r (len + xs.length) = elemsOf g bs len ++ xs := appendAll_spec g bs len xs hI hx hfit

theorem refines_pushSlice (g : VecGeo) (bs : Bytes) (len : Nat) (hI : VInv g bs len) (xs : List Bytes) (hx : ∀ x ∈ xs, x.length = g.S) :
    ∃ o, vecOp g bs len (.pushSlice xs) = .ok o ∧ Refines g bs len (.pushSlice xs) o := by
  simp only [vecOp]
  by_cases hf : xs.length > g.cap - len
  · exact ⟨⟨.full, bs⟩, by simp [hf], rfl, len, hI, by simp [specVec, hf]⟩
  · have hfit : len + xs.length ≤ g.cap := by have := hI.len_le; omega
    obtain ⟨r, hr, hrl, hI', hel⟩ := appendAll_spec g bs len xs hI hx hfit
    simp only [hf, if_false]
    by_cases he : xs.isEmpty = true
    · have hnil : xs = [] := by simpa using he
      subst hnil
      obtain ⟨r0, hr0, hr0l, hI0, hel0⟩ := shrink_spec g bs len len hI (Nat.le_refl _)
      refine ⟨⟨.ok, r0⟩, by simp [hr0], hr0l, len, hI0, ?_⟩
      have hnot : ¬ (0 > g.cap - len) := by omega
      simp only [specVec, elemsOf_length, List.length_nil, hnot, if_false, List.append_nil]
      rw [hel0, List.take_of_length_le (by simp)]
    · refine ⟨⟨.ok, r⟩, by simp [he, hr], hrl, len + xs.length, hI', ?_⟩
      simp only [specVec, elemsOf_length, hf, if_false]
      rw [hel]

theorem refines_extend (g : VecGeo) (bs : Bytes) (len : Nat) (hI : VInv g bs len) (xs : List Bytes) (hx : ∀ x ∈ xs, x.length = g.S) :
    ∃ o, vecOp g bs len (.extend xs) = .ok o ∧ Refines g bs len (.extend xs) o := by
  simp only [vecOp]
  by_cases he : (xs.take (g.cap - len)).isEmpty = true
  · have hnil : xs.take (g.cap - len) = [] := by simpa using he
    exact ⟨⟨.ok, bs⟩, by simp [he], rfl, len, hI, by simp [specVec, hnil]⟩
  · have hfit : len + (xs.take (g.cap - len)).length ≤ g.cap := by rw [List.length_take]; have := hI.len_le; omega
    obtain ⟨r, hr, hrl, hI', hel⟩ := appendAll_spec g bs len (xs.take (g.cap - len)) hI (fun x hx' => hx x (List.mem_of_mem_take hx')) hfit
    refine ⟨⟨.ok, r⟩, by simp [he, hr], hrl, _, hI', ?_⟩
    simp only [specVec, elemsOf_length]
    rw [hel]

theorem refines_trunc (g : VecGeo) (bs : Bytes) (len : Nat) (hI : VInv g bs len) (n : Nat) :
    ∃ o, vecOp g bs len (.trunc n) = .ok o ∧ Refines g bs len (.trunc n) o := by
  simp only [vecOp]
  by_cases h : len ≤ n
  · exact ⟨⟨.ok, bs⟩, by simp [h], rfl, len, hI, by simp [specVec, List.take_of_length_le, h]⟩
  · obtain ⟨r, hr, hrl, hI', hel⟩ := shrink_spec g bs len n hI (by omega)
    exact ⟨⟨.ok, r⟩, by simp [h, hr], hrl, n, hI', by simp [specVec, hel]⟩

theorem refines_clear (g : VecGeo) (bs : Bytes) (len : Nat) (hI : VInv g bs len) :
    ∃ o, vecOp g bs len .clear = .ok o ∧ Refines g bs len .clear o := by
  simp only [vecOp]
  by_cases h : len = 0
  · subst h; exact ⟨⟨.ok, bs⟩, by simp, rfl, 0, hI, by simp [specVec, elemsOf]⟩
  · obtain ⟨r, hr, hrl, hI', hel⟩ := shrink_spec g bs len 0 hI (by omega)
    exact ⟨⟨.ok, r⟩, by simp [h, hr], hrl, 0, hI', by simp [specVec, elemsOf]⟩

theorem refines_set (g : VecGeo) (bs : Bytes) (len : Nat) (hI : VInv g bs len) (i : Nat) (x : Bytes) (hx : x.length = g.S) :
    ∃ o, vecOp g bs len (.set i x) = .ok o ∧ Refines g bs len (.set i x) o := by
  simp only [vecOp]
  by_cases h : i < len
  · obtain ⟨r, hr, hrl, hsame, hother, hdec⟩ := writeElem_spec g bs x i hx (elemsOf_room g bs len i hI h) hI.hd
    have hroom' : g.dOff + g.cap * g.S ≤ r.length := by rw [hrl]; exact hI.room
    refine ⟨⟨.ok, r⟩, by simp [h, hr], hrl, len, ⟨hI.hd, hI.cap_lt, hroom', hI.len_le, by rw [hdec]; exact hI.dec⟩, ?_⟩
    simp only [specVec, elemsOf_length, h, if_true, Prod.mk.injEq, true_and]
    apply List.ext_getElem
    · simp
    · intro j h1 h2
      simp only [elemsOf_length] at h1
      rw [elemsOf_get g r len j h1, List.getElem_set]
      by_cases hij : i = j
      · subst hij; simp [hsame]
      · simp only [hij, if_false]
        rw [hother j (fun e => hij e.symm), elemsOf_get g bs len j h1]
  · exact ⟨⟨.panic, bs⟩, by simp [h], rfl, len, hI, by simp [specVec, h]⟩

theorem refines_resize (g : VecGeo) (bs : Bytes) (len : Nat) (hI : VInv g bs len) (n : Nat) (x : Bytes) (hx : x.length = g.S) :
    ∃ o, vecOp g bs len (.resize n x) = .ok o ∧ Refines g bs len (.resize n x) o := by
  simp only [vecOp]
  by_cases h : n ≤ len
  · by_cases h2 : len ≤ n
    · have : n = len := by omega
      subst this
      exact ⟨⟨.ok, bs⟩, by simp, rfl, n, hI, by simp [specVec, List.take_of_length_le]⟩
    · obtain ⟨r, hr, hrl, hI', hel⟩ := shrink_spec g bs len n hI h
      exact ⟨⟨.ok, r⟩, by simp [h, h2, hr], hrl, n, hI', by simp [specVec, h, hel]⟩
  · by_cases hc : n ≤ g.cap
    · obtain ⟨r, hr, hrl, hI', hel⟩ := appendAll_spec g bs len (List.replicate (n - len) x) hI
        (by intro y hy; rw [List.eq_of_mem_replicate hy]; exact hx) (by simp; omega)
      refine ⟨⟨.ok, r⟩, by simp [h, hc, hr], hrl, _, hI', ?_⟩
      simp only [specVec, elemsOf_length, h, if_false, hc, if_true]
      rw [hel]
    · exact ⟨⟨.panic, bs⟩, by simp [h, hc], rfl, len, hI, by simp [specVec, h, hc]⟩

theorem refines_swapRm (g : VecGeo) (bs : Bytes) (len : Nat) (hI : VInv g bs len) (i : Nat) :
    ∃ o, vecOp g bs len (.swapRm i) = .ok o ∧ Refines g bs len (.swapRm i) o := by
  simp only [vecOp]
  by_cases h : i < len
  · obtain ⟨k, rfl⟩ : ∃ k, len = k + 1 := ⟨len - 1, by omega⟩
    have hlastlen : (g.elemAt bs k).length = g.S := elemAt_length g bs k (elemsOf_room g bs (k + 1) k hI (by omega))
    obtain ⟨b1, hb1, hb1l, hsame, hother, hdec⟩ := writeElem_spec g bs (g.elemAt bs k) i hlastlen (elemsOf_room g bs (k + 1) i hI h) hI.hd
    have hI1 : VInv g b1 (k + 1) := ⟨hI.hd, hI.cap_lt, by rw [hb1l]; exact hI.room, hI.len_le, by rw [hdec]; exact hI.dec⟩
    obtain ⟨r, hr, hrl, hI', hel⟩ := shrink_spec g b1 (k + 1) k hI1 (by omega)
    obtain ⟨hl1, _⟩ := elemsOf_getLast g bs k
    have hget : (elemsOf g bs (k + 1))[i]? = some (g.elemAt bs i) := by
      rw [List.getElem?_eq_getElem (by simpa using h), elemsOf_get g bs (k + 1) i h]
    refine ⟨⟨.elem (g.elemAt bs i), r⟩, by simp [h, hb1, hr], (by show r.length = bs.length; omega), k, hI', ?_⟩
    simp only [specVec, hget, hl1, Prod.mk.injEq, true_and]
    rw [hel, elemsOf_take g b1 (k + 1) k (by omega)]
    apply List.ext_getElem
    · simp
    · intro j h1 h2
      simp only [elemsOf_length] at h1
      rw [elemsOf_get g b1 k j h1, List.getElem_dropLast, List.getElem_set]
      by_cases hij : i = j
      · subst hij; simp [hsame]
      · simp only [hij, if_false]
        rw [hother j (fun e => hij e.symm), elemsOf_get g bs (k + 1) j (by omega)]
  · have hget : (elemsOf g bs len)[i]? = none := by simp; omega
    exact ⟨⟨.panic, bs⟩, by simp [h], rfl, len, hI, by simp [specVec, hget]⟩

theorem refines_remove (g : VecGeo) (bs : Bytes) (len : Nat) (hI : VInv g bs len) (i : Nat) :
    ∃ o, vecOp g bs len (.remove i) = .ok o ∧ Refines g bs len (.remove i) o := by
  simp only [vecOp]
  by_cases h : i < len
  · obtain ⟨k, rfl⟩ : ∃ k, len = k + 1 := ⟨len - 1, by omega⟩
    have hroomk : g.dOff + (k + 1) * g.S ≤ bs.length := elemsOf_room g bs (k + 1) k hI (by omega)
    -- the block that is moved down
    have e1 : k + 1 - i - 1 = k - i := by omega
    have hsplit : (k + 1) * g.S = (i + 1) * g.S + (k - i) * g.S := by rw [← Nat.add_mul]; congr 1; omega
    have hmlen : ((bs.drop (g.dOff + (i + 1) * g.S)).take ((k + 1 - i - 1) * g.S)).length = (k - i) * g.S := by
      rw [e1, List.length_take, List.length_drop]; omega
    have hiS : (i + 1) * g.S = i * g.S + g.S := Nat.succ_mul _ _
    obtain ⟨b1, hb1, hb1l⟩ := writeAt_ok (bs := bs) (x := (bs.drop (g.dOff + (i + 1) * g.S)).take ((k + 1 - i - 1) * g.S))
      (off := g.dOff + i * g.S) (by rw [hmlen]; omega)
    have hdec1 : g.cfg.decLen b1 = g.cfg.decLen bs := by
      unfold VecCfg.decLen
      have := writeAt_frame hb1 0 g.l.size (Or.inl (by have := hI.hd; omega))
      simp only [List.drop_zero] at this
      simp only [VecGeo.cfg] at this ⊢
      rw [this]
    have hI1 : VInv g b1 (k + 1) := ⟨hI.hd, hI.cap_lt, by rw [hb1l]; exact hI.room, hI.len_le, by rw [hdec1]; exact hI.dec⟩
    obtain ⟨r, hr, hrl, hI', hel⟩ := shrink_spec g b1 (k + 1) k hI1 (by omega)
    have hget : (elemsOf g bs (k + 1))[i]? = some (g.elemAt bs i) := by
      rw [List.getElem?_eq_getElem (by simpa using h), elemsOf_get g bs (k + 1) i h]
    refine ⟨⟨.elem (g.elemAt bs i), r⟩, by simp [h, hb1, hr], (by show r.length = bs.length; omega), k, hI', ?_⟩
    simp only [specVec, hget, Prod.mk.injEq, true_and]
    rw [hel, elemsOf_take g b1 (k + 1) k (by omega)]
    apply List.ext_getElem
    · simp [List.length_eraseIdx, h]
    · intro j h1 h2
      simp only [elemsOf_length] at h1
      rw [elemsOf_get g b1 k j h1, List.getElem_eraseIdx]
      by_cases hji : j < i
      · simp only [hji, dite_true]
        rw [elemsOf_get g bs (k + 1) j (by omega)]
        unfold VecGeo.elemAt
        apply writeAt_frame hb1
        left; have := mul_succ_le (S := g.S) hji; rw [Nat.succ_mul] at this; omega
      · simp only [hji, dite_false]
        rw [elemsOf_get g bs (k + 1) (j + 1) (by omega)]
        unfold VecGeo.elemAt
        have hjS : j * g.S = i * g.S + (j - i) * g.S := by rw [← Nat.add_mul]; congr 1; omega
        have hfit : (j - i) * g.S + g.S ≤ (k - i) * g.S := by
          have : (j - i + 1) * g.S ≤ (k - i) * g.S := Nat.mul_le_mul_right _ (by omega)
          rw [Nat.succ_mul] at this; exact this
        have hsub := writeAt_read_sub hb1 ((j - i) * g.S) g.S (by rw [hmlen]; exact hfit)
        have eoff : g.dOff + i * g.S + (j - i) * g.S = g.dOff + j * g.S := by omega
        rw [eoff] at hsub
        rw [hsub]
        have h3 : ((bs.drop (g.dOff + (i + 1) * g.S)).take ((k + 1 - i - 1) * g.S)).take ((k - i) * g.S)
            = (bs.drop (g.dOff + (i + 1) * g.S)).take ((k - i) * g.S) := by rw [e1, List.take_take, Nat.min_self]
        have := drop_take_eq (a := (bs.drop (g.dOff + (i + 1) * g.S)).take ((k + 1 - i - 1) * g.S)) (b := bs.drop (g.dOff + (i + 1) * g.S))
          (n := (k - i) * g.S) (off := (j - i) * g.S) (k := g.S) h3 hfit
        rw [this, List.drop_drop]
        congr 2
        have : (j + 1) * g.S = (i + 1) * g.S + (j - i) * g.S := by rw [← Nat.add_mul]; congr 1; omega
        omega
  · have hget : (elemsOf g bs len)[i]? = none := by simp; omega
    exact ⟨⟨.panic, bs⟩, by simp [h], rfl, len, hI, by simp [specVec, hget]⟩

/-- **Refinement.** Every `GenericVec` operation on the mapped bytes — with arguments of the element size — never faults, keeps the
buffer length, re-establishes the invariant (so the capacity, a function of the buffer length, never changes and the length stays
within it), and returns the value and leaves the element sequence that a capacity-bounded `Vec` gives. -/
theorem vecOp_refines (g : VecGeo) (bs : Bytes) (len : Nat) (hI : VInv g bs len) (op : Op) (hop : OpWF g op) :
    ∃ o, vecOp g bs len op = .ok o ∧ Refines g bs len op o := by
  cases op with
  | push x => exact refines_push g bs len hI x hop
  | pop => exact refines_pop g bs len hI
  | pushSlice xs => exact refines_pushSlice g bs len hI xs hop
  | extend xs => exact refines_extend g bs len hI xs hop
  | trunc n => exact refines_trunc g bs len hI n
  | clear => exact refines_clear g bs len hI
  | remove i => exact refines_remove g bs len hI i
  | swapRm i => exact refines_swapRm g bs len hI i
  | resize n x => exact refines_resize g bs len hI n x hop
  | set i x => exact refines_set g bs len hI i x hop
  | pushBytes _ => exact absurd hop (by simp [OpWF])
  | fpush _ => exact absurd hop (by simp [OpWF])
  | fpop => exact absurd hop (by simp [OpWF])
  | ftrunc _ => exact absurd hop (by simp [OpWF])
  | fclear => exact absurd hop (by simp [OpWF])
  | item _ _ => exact absurd hop (by simp [OpWF])
  | assign _ => exact absurd hop (by simp [OpWF])
  | setField _ _ _ => exact absurd hop (by simp [OpWF])
  | last _ => exact absurd hop (by simp [OpWF])
end FV

namespace FV
/-- a validated `FlatVec` slice satisfies the invariant of the operation model -/
theorem vinv_of_valid (d : Dict) (sz : Nat) (hss : d.ssize = sz) (l : LenTy) (hl : l.Law) (s : Slice)
    (hlen : max l.size d.align ≤ s.len) (hv : (vecD d l).validateU s = .ok ()) :
    ∃ g len, vecGeo d l s.len = .ok g ∧ l.readU s = .ok len ∧ VInv g s.bytes len ∧ g.S = sz ∧ g.l = l := by
  obtain ⟨len, slots, hr, hsl, hcap, _⟩ := vec_valid_inv d sz hss l s hlen hv
  refine ⟨⟨l, d.ssize, max l.size d.align, min slots l.max⟩, len, by simp [vecGeo, hsl], hr, ?_, hss, rfl⟩
  have hpos : 0 < 256 ^ l.size := Nat.pow_pos (by omega)
  refine ⟨Nat.le_max_left _ _, ?_, ?_, hcap, ?_⟩
  · show min slots l.max < 256 ^ l.size
    have : l.max < 256 ^ l.size := by unfold LenTy.max; omega
    omega
  · show max l.size d.align + min slots l.max * d.ssize ≤ s.bytes.length
    rw [vecSlots_ok d l s.len hlen] at hsl
    by_cases hz : d.ssize = 0
    · simp only [hz, Nat.mul_zero, Nat.add_zero]; exact hlen
    · simp only [hz, if_false, Res.ok.injEq] at hsl
      subst hsl
      have h1 : min (floorMul (s.len - max l.size d.align) (max l.align d.align) / d.ssize) l.max * d.ssize
          ≤ floorMul (s.len - max l.size d.align) (max l.align d.align) / d.ssize * d.ssize := Nat.mul_le_mul_right _ (Nat.min_le_left _ _)
      have h2 := Nat.div_mul_le_self (floorMul (s.len - max l.size d.align) (max l.align d.align)) d.ssize
      have h3 := floorMul_le (s.len - max l.size d.align) (max l.align d.align)
      have : s.len = s.bytes.length := rfl
      omega
  · -- the length field as the operation model reads it
    have hsz : l.size ≤ s.len := by have := Nat.le_max_left l.size d.align; omega
    simp only [LenTy.readU] at hr
    have h1 : ¬ s.len < l.size := by omega
    simp only [h1, if_false] at hr
    split at hr
    · cases hr
    · simp only [Res.ok.injEq] at hr
      show VecCfg.decLen ⟨d.ssize, max l.size d.align, l⟩ s.bytes = len
      unfold VecCfg.decLen
      exact hr
end FV
