import FV.EmplaceAccEnum
/-! Byte images left by the generated enum initialisers: the tag at offset 0, every sized field at `DATA_OFFSET` + its C offset. -/
namespace FV

/-- **generated `…Init` of an unsized enum, on success:** the first `tag.size` bytes are the encoding of the variant index, and
every sized field of the variant sits at `DATA_OFFSET + ` its walker position with exactly the given image. (Variant with sized
fields only, or none.) -/
theorem uenum_none_image (tag : LenTy) (ht : tag.Law) (vs : List (List Ty))
    (hl : ∀ v ∈ dictLL vs, ∀ d ∈ v, Law d)
    (idx : Nat) (hidx : idx < vs.length) (vals : List Bytes)
    (hs : AllSized (dictL (vs.getD idx []))) (hv : ValsOk (dictL (vs.getD idx [])) vals)
    (s : Slice) (hal : s.addr % (Ty.uenum tag vs).dict.align = 0) (hlen : (Ty.uenum tag vs).dict.minSize ≤ s.len)
    (o : EO) (ho : emplaceU (.uenum tag vs) (.uenum idx vals none) s = .ok o) (hres : o.res = .ok ()) :
    o.bytes.take tag.size = encLenTy tag idx ∧
    ∀ (i : Nat) (d : Dict) (v : Bytes) (P : Nat), (dictL (vs.getD idx []))[i]? = some d → vals[i]? = some v →
      (posList (dictL (vs.getD idx [])) 0)[i]? = some P →
      (o.bytes.drop (ceilMul tag.size (max tag.align (alignLL (dictLL vs))) + P)).take d.ssize = v := by
  obtain ⟨addr, bytes⟩ := s
  simp only [Ty.dict, uenumD, Slice.len] at hal hlen
  obtain ⟨hapos, hge, htd, hta, hva⟩ := uenum_geometry tag ht (dictLL vs) hl addr bytes.length hal hlen
  have hidx' : idx < (dictLL vs).length := by rw [dictLL_length]; exact hidx
  have hmem : (dictLL vs).getD idx [] ∈ dictLL vs := getD_mem _ _ _ hidx'
  obtain ⟨b0, hb0, hb0l⟩ := writeAt_ok (bs := bytes) (x := encLenTy tag idx) (off := 0) (by rw [encLenTy_length]; omega)
  have hnl : ¬ bytes.length < ceilMul tag.size (max tag.align (alignLL (dictLL vs))) := by omega
  have hread := writeAt_read hb0
  simp only [List.drop_zero, encLenTy_length] at hread
  simp only [emplaceU, Slice.len, hnl, if_false, hb0, Res.bind_ok] at ho
  rw [dictLL_getD] at hmem ho
  generalize hv_def : dictL (vs.getD idx []) = v at *
  generalize hal_def : max tag.align (alignLL (dictLL vs)) = al at *
  generalize hd_def : ceilMul tag.size al = dOff at *
  generalize hn_def : floorMul (bytes.length - dOff) al = n at *
  have hnle : n ≤ bytes.length - dOff := by rw [← hn_def]; exact floorMul_le _ _
  cases v with
  | nil =>
    simp only [List.isEmpty_nil, if_true, Res.ok.injEq] at ho
    subst ho
    refine ⟨hread, ?_⟩
    intro i d v P hd; simp at hd
  | cons d0 v0 =>
    simp only [List.isEmpty_cons, Bool.false_eq_true, if_false] at ho
    have hlv := hl _ hmem
    have hfold := minSizeL_eq_foldSize (d0 :: v0) hlv hs 0
    cases hck : checkAlignMin (alignL (d0 :: v0)) (minSizeL (d0 :: v0) 0) (Slice.take (Slice.drop ⟨addr, bytes⟩ dOff) n) with
    | fault f => rw [hck] at ho; cases ho
    | err e => rw [hck] at ho; simp only [Res.ok.injEq] at ho; rw [← ho] at hres; cases hres
    | ok u =>
      rw [hck] at ho
      obtain ⟨_, hmin⟩ := checkAlignMin_ok.1 hck
      simp only [Slice.len, Slice.take, Slice.drop, List.length_take, List.length_drop] at hmin
      have hdl : ((b0.drop dOff).take n).length = n := by simp only [List.length_take, List.length_drop, hb0l]; omega
      obtain ⟨b1, hb1, hb1l, _, _, hel⟩ := writeFields_spec (d0 :: v0) vals 0 ((b0.drop dOff).take n)
        (fun d hd => (hlv d hd).align_pow2.pos) (headAligned_zero _) hv.1 hv.len (by rw [hdl, ← hfold]; omega)
      rw [hdl] at hb1l
      simp only [hb1, Res.bind_ok, Res.ok.injEq] at ho
      subst ho
      constructor
      · show (b0.take dOff ++ b1 ++ b0.drop (dOff + n)).take tag.size = _
        rw [List.append_assoc, List.take_append_of_le_length (by simp only [List.length_take]; omega), List.take_take,
          Nat.min_eq_left htd, hread]
      · intro i d v P hd hvi hP
        have hend := posList_end_le (d0 :: v0) 0 i P d (fun x hx => (hlv x hx).align_pow2.pos) (headAligned_zero _) hd hP
        show ((b0.take dOff ++ b1 ++ b0.drop (dOff + n)).drop (dOff + P)).take d.ssize = v
        rw [List.append_assoc, ← List.drop_drop, List.drop_left' (by simp only [List.length_take]; omega)]
        rw [drop_take_eq (a := b1 ++ b0.drop (dOff + n)) (b := b1) (n := n)
          (by rw [List.take_left' hb1l, List.take_of_length_le (by omega)]) (by omega)]
        exact hel i d v P hd hvi hP

/-- the same for a variant whose last field is unsized: the tag, then every sized field at its position (whether or not the last
field's emplacer succeeded — they are written before it runs) -/
theorem uenum_some_image (tag : LenTy) (ht : tag.Law) (vs : List (List Ty))
    (hl : ∀ v ∈ dictLL vs, ∀ d ∈ v, Law d)
    (idx : Nat) (hidx : idx < vs.length) (vals : List Bytes)
    (pre : List Ty) (lt : Ty) (hvar : vs.getD idx [] = pre ++ [lt])
    (hs : AllSized (dictL pre)) (hv : ValsOk (dictL pre) vals) (lasti : Init) (hrec : EmpSpec lt lasti)
    (s : Slice) (hal : s.addr % (Ty.uenum tag vs).dict.align = 0) (hlen : (Ty.uenum tag vs).dict.minSize ≤ s.len)
    (o : EO) (ho : emplaceU (.uenum tag vs) (.uenum idx vals (some lasti)) s = .ok o) (hres : o.res = .ok ()) :
    o.bytes.take tag.size = encLenTy tag idx ∧
    ∀ (i : Nat) (d : Dict) (v : Bytes) (P : Nat), (dictL pre)[i]? = some d → vals[i]? = some v →
      (posList (dictL pre) 0)[i]? = some P →
      (o.bytes.drop (ceilMul tag.size (max tag.align (alignLL (dictLL vs))) + P)).take d.ssize = v := by
  obtain ⟨addr, bytes⟩ := s
  simp only [Ty.dict, uenumD, Slice.len] at hal hlen
  obtain ⟨hapos, hge, htd, hta, hva⟩ := uenum_geometry tag ht (dictLL vs) hl addr bytes.length hal hlen
  have hidx' : idx < (dictLL vs).length := by rw [dictLL_length]; exact hidx
  have hmem : (dictLL vs).getD idx [] ∈ dictLL vs := getD_mem _ _ _ hidx'
  obtain ⟨b0, hb0, hb0l⟩ := writeAt_ok (bs := bytes) (x := encLenTy tag idx) (off := 0) (by rw [encLenTy_length]; omega)
  have hnl : ¬ bytes.length < ceilMul tag.size (max tag.align (alignLL (dictLL vs))) := by omega
  have hread := writeAt_read hb0
  simp only [List.drop_zero, encLenTy_length] at hread
  simp only [emplaceU, Slice.len, hnl, if_false, hb0, Res.bind_ok] at ho
  rw [dictLL_getD, hvar, dictL_append] at hmem ho
  simp only [dictL] at hmem ho
  have hlv := hl _ hmem
  have hlpre : ∀ d ∈ dictL pre, Law d := fun d hd => hlv d (by simp [hd])
  have hllt : Law lt.dict := hlv _ (by simp)
  have hposv : ∀ x ∈ dictL pre ++ [lt.dict], 0 < x.align := fun x hx => (hlv x hx).align_pow2.pos
  have hms := minSizeL_append (dictL pre) lt.dict hlpre hs 0
  have hlp := lastPos_append (dictL pre) lt.dict 0 hposv (headAligned_zero _)
  have h4 := le_ceilMul (x := foldSize (dictL pre) 0) hllt.align_pow2.pos
  have hltmod : alignL (dictL pre ++ [lt.dict]) % lt.dict.align = 0 := alignL_mod _ hlv lt.dict (by simp)
  have hlfomod := ceilMul_mod (foldSize (dictL pre) 0) lt.dict.align
  have hvA := hva _ hmem
  have hne : (dictL pre ++ [lt.dict]).isEmpty = false := by cases dictL pre <;> rfl
  simp only [hne, Bool.false_eq_true, if_false, List.dropLast_concat, List.getLast?_concat, hlp] at ho
  generalize hal_def : max tag.align (alignLL (dictLL vs)) = al at *
  generalize hd_def : ceilMul tag.size al = dOff at *
  generalize hn_def : floorMul (bytes.length - dOff) al = n at *
  generalize hlfo_def : ceilMul (foldSize (dictL pre) 0) lt.dict.align = lpos at *
  have hnle : n ≤ bytes.length - dOff := by rw [← hn_def]; exact floorMul_le _ _
  cases hck : checkAlignMin (alignL (dictL pre ++ [lt.dict])) (minSizeL (dictL pre ++ [lt.dict]) 0) (Slice.take (Slice.drop ⟨addr, bytes⟩ dOff) n) with
  | fault f => rw [hck] at ho; cases ho
  | err e => rw [hck] at ho; simp only [Res.ok.injEq] at ho; rw [← ho] at hres; cases hres
  | ok u =>
    rw [hck] at ho
    obtain ⟨_, hmin⟩ := checkAlignMin_ok.1 hck
    simp only [Slice.len, Slice.take, Slice.drop, List.length_take, List.length_drop] at hmin
    have hdl : ((b0.drop dOff).take n).length = n := by simp only [List.length_take, List.length_drop, hb0l]; omega
    obtain ⟨b1, hb1, hb1l, _, _, hel⟩ := writeFields_spec (dictL pre) vals 0 ((b0.drop dOff).take n)
      (fun d hd => (hlpre d hd).align_pow2.pos) (headAligned_zero _) hv.1 hv.len (by rw [hdl]; omega)
    rw [hdl] at hb1l
    have hw : (if (dictL pre).isEmpty then Res.ok ((b0.drop dOff).take n) else writeFields (dictL pre) vals 0 ((b0.drop dOff).take n)) = .ok b1 := by
      cases hds : dictL pre with
      | nil => rw [hds] at hb1; simpa [writeFields] using hb1
      | cons d ds => rw [hds] at hb1; simpa using hb1
    obtain ⟨ol, hol, hok⟩ := hrec ⟨addr + dOff + lpos, b1.drop lpos⟩ (add_mod_zero (mod_trans hvA hltmod) hlfomod)
      (by simp only [Slice.len, List.length_drop]; omega)
    have holl : ol.bytes.length = n - lpos := by have := hok.len; simpa [Slice.len, hb1l] using this
    simp only [hw, Res.bind_ok, hol, Res.ok.injEq] at ho
    subst ho
    constructor
    · show (b0.take dOff ++ (b1.take lpos ++ ol.bytes) ++ b0.drop (dOff + n)).take tag.size = _
      rw [List.append_assoc, List.take_append_of_le_length (by simp only [List.length_take]; omega), List.take_take,
        Nat.min_eq_left htd, hread]
    · intro i d v P hd hvi hP
      have hend := posList_end_le (dictL pre) 0 i P d (fun x hx => (hlpre x hx).align_pow2.pos) (headAligned_zero _) hd hP
      show ((b0.take dOff ++ (b1.take lpos ++ ol.bytes) ++ b0.drop (dOff + n)).drop (dOff + P)).take d.ssize = v
      rw [List.append_assoc, ← List.drop_drop, List.drop_left' (by simp only [List.length_take]; omega)]
      rw [drop_take_eq (a := (b1.take lpos ++ ol.bytes) ++ b0.drop (dOff + n)) (b := b1) (n := lpos)
        (by rw [List.append_assoc, List.take_append_of_le_length (by simp only [List.length_take]; omega), List.take_take, Nat.min_self]) (by omega)]
      exact hel i d v P hd hvi hP
end FV
