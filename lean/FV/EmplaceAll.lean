import FV.EmplaceFlex
import FV.C05C06
/-! Emplace theorems, assembled: every well-typed initialiser of every well-formed type meets the emplacer contract. -/
namespace FV

theorem emplace_flexIter_spec (it : Ty) (hd : Law it.dict) (hfd : FrameLaw it.dict) (l : LenTy) (hl : l.Law)
    (items : List Init) (hrec : ∀ i ∈ items, EmpSpec it i) :
    ∀ s : Slice, s.addr % (Ty.flex it l).dict.align = 0 → (Ty.flex it l).dict.minSize ≤ s.len →
      ∃ o, emplaceU (.flex it l) (.flexIter items) s = .ok o ∧ EmpOk (Ty.flex it l).dict s o ∧
        (Ty.flex it l).dict.validateU ⟨s.addr, o.bytes⟩ = .ok () := by
  intro s hal hlen
  obtain ⟨addr, bytes⟩ := s
  simp only [Ty.dict, flexD, Slice.len] at hal hlen
  have hpa := hd.align_pow2
  have hapos := (Pow2.of_max hl.align_pow2 hpa).pos
  have hls : l.size ≤ max l.size it.dict.align := Nat.le_max_left _ _
  have hospos : 0 < max l.size it.dict.align := Nat.lt_of_lt_of_le hl.size_pow2.pos hls
  have hn := floorMul_greatest hapos (dataOffset_mod l hl it.dict.align hpa) hlen
  have hfl := floorMul_le bytes.length (max l.align it.dict.align)
  have hnl : (bytes.take (floorMul bytes.length (max l.align it.dict.align))).length = floorMul bytes.length (max l.align it.dict.align) := by
    simp only [List.length_take]; omega
  obtain ⟨o, ho, hol, hok, hk⟩ := flexFill_spec it hd hfd l hl addr hal (floorMul bytes.length (max l.align it.dict.align))
    (floorMul_mod _ _) hn items hrec 0 none _ hnl (Nat.zero_mod _) (Nat.zero_le _) rfl
  have hlenR : (o.bytes ++ bytes.drop (floorMul bytes.length (max l.align it.dict.align))).length = bytes.length := by
    simp only [List.length_append, List.length_drop, hol]; omega
  have hvalid : (flexD it.dict l).validateU ⟨addr, o.bytes ++ bytes.drop (floorMul bytes.length (max l.align it.dict.align))⟩ = .ok () := by
    simp only [flexD, Slice.len, Slice.take, hlenR]
    rw [List.take_left' hol]
    obtain ⟨f, hf⟩ := hok
    exact flexValidate_any_fuel it.dict l hl hpa _ hospos f 0 _ hf _ (by simp only [Slice.len, hol]; omega)
  exact ⟨⟨o.bytes ++ bytes.drop (floorMul bytes.length (max l.align it.dict.align)), o.res⟩,
    by simp only [emplaceU, Slice.len, ho, Res.bind_ok], ⟨hlenR, fun _ => hvalid, hk⟩, hvalid⟩

/-! ### well-typed initialisers -/
mutual
/-- the initialiser is one the Rust type checker would accept for this type, and its sized parts are valid images -/
def InitWT : Ty → Init → Prop
  | t, .raw v => ValidImage t.dict v
  | .vec _ _, .vecEmpty => True
  | .vec et _, .vecArr xs => ∀ x ∈ xs, ValidImage et.dict x
  | .vec et _, .vecIter xs => ∀ x ∈ xs, ValidImage et.dict x
  | .str _, .strEmpty => True
  | .str _, .strFrom v => utf8ValidUpTo (v.length + 1) 0 v = none
  | .flex _ _, .flexEmpty => True
  | .flex it _, .flexIter items => InitWTL it items
  | .ustruct fs last, .ustruct vals li => ValsOk (dictL fs) vals ∧ InitWT last li
  | .uenum tag vs, .uenum idx vals none =>
    idx < vs.length ∧ idx < 256 ^ tag.size ∧ sizedL (vs.getD idx []) ∧ ValsOk (dictL (vs.getD idx [])) vals
  | .uenum tag vs, .uenum idx vals (some li) =>
    idx < vs.length ∧ idx < 256 ^ tag.size ∧
      ∃ pre lt, vs.getD idx [] = pre ++ [lt] ∧ ValsOk (dictL pre) vals ∧ InitWT lt li
  | _, _ => False
def InitWTL : Ty → List Init → Prop
  | _, [] => True
  | t, i :: is => InitWT t i ∧ InitWTL t is
end

theorem wfLL_getD : ∀ (vs : List (List Ty)) (idx : Nat), wfLL vs → wfL (vs.getD idx []) := by
  intro vs
  induction vs with
  | nil => intro idx _; simp [wfL]
  | cons v vs ih =>
    intro idx h
    cases idx with
    | zero => simpa using h.1
    | succ k => simpa using ih k h.2

theorem butLastLL_getD : ∀ (vs : List (List Ty)) (idx : Nat), butLastLL vs → butLastL (vs.getD idx []) := by
  intro vs
  induction vs with
  | nil => intro idx _; simp [butLastL]
  | cons v vs ih =>
    intro idx h
    cases idx with
    | zero => simpa using h.1
    | succ k => simpa using ih k h.2

theorem wfL_concat : ∀ (pre : List Ty) (lt : Ty), wfL (pre ++ [lt]) → wfL pre ∧ lt.WF := by
  intro pre
  induction pre with
  | nil => intro lt h; exact ⟨trivial, h.1⟩
  | cons t ts ih =>
    intro lt h
    have := ih lt h.2
    exact ⟨⟨h.1, this.1⟩, this.2⟩

theorem butLastL_concat : ∀ (pre : List Ty) (lt : Ty), butLastL (pre ++ [lt]) → sizedL pre := by
  intro pre
  induction pre with
  | nil => intro _ _; trivial
  | cons t ts ih =>
    intro lt h
    cases ts with
    | nil => exact ⟨h.1, trivial⟩
    | cons t' ts' => exact ⟨h.1, ih lt h.2⟩

theorem sized_some (t : Ty) (h : t.isSized = true) : ∃ sz, t.dict.sized = some sz := by
  have hs := dict_sized_isSome t h
  cases hq : t.dict.sized <;> simp_all

mutual
/-- **Every emplacer meets its contract.** For every well-formed type and every well-typed initialiser of it, on every slot
that is aligned and at least `MIN_SIZE` long: `emplace_unchecked` never faults, keeps the slot length, on `Ok` leaves bytes
that validate as this type, and can fail only with `InsufficientSize` (or `BadAlign`). -/
theorem emplaceU_ok : ∀ (i : Init) (t : Ty), t.WF → InitWT t i → EmpSpec t i
  | .raw v, t, h, hw => by
      simp only [InitWT] at hw
      exact emplace_raw_spec t (Ty.law t h) (Ty.frameLaw t h) v hw
  | .vecEmpty, t, h, hw => by
      cases t <;> simp only [InitWT] at hw
      rename_i et l
      simp only [Ty.WF] at h
      obtain ⟨sz, hsz⟩ := sized_some et h.2.1
      exact emplace_vecEmpty_spec et (Ty.law et h.1) sz hsz l h.2.2
  | .vecArr xs, t, h, hw => by
      cases t <;> simp only [InitWT] at hw
      rename_i et l
      simp only [Ty.WF] at h
      obtain ⟨sz, hsz⟩ := sized_some et h.2.1
      exact emplace_vecArr_spec et (Ty.law et h.1) sz hsz l h.2.2 xs hw
  | .vecIter xs, t, h, hw => by
      cases t <;> simp only [InitWT] at hw
      rename_i et l
      simp only [Ty.WF] at h
      obtain ⟨sz, hsz⟩ := sized_some et h.2.1
      exact emplace_vecIter_spec et (Ty.law et h.1) sz hsz l h.2.2 xs hw
  | .strEmpty, t, h, hw => by
      cases t <;> simp only [InitWT] at hw
      rename_i l
      simp only [Ty.WF] at h
      exact emplace_strEmpty_spec l h
  | .strFrom v, t, h, hw => by
      cases t <;> simp only [InitWT] at hw
      rename_i l
      simp only [Ty.WF] at h
      exact emplace_strFrom_spec l h v hw
  | .flexEmpty, t, h, hw => by
      cases t <;> simp only [InitWT] at hw
      rename_i it l
      simp only [Ty.WF] at h
      exact emplace_flexEmpty_spec it (Ty.law it h.1) l h.2
  | .flexIter items, t, h, hw => by
      cases t <;> simp only [InitWT] at hw
      rename_i it l
      simp only [Ty.WF] at h
      intro s hal hlen
      obtain ⟨o, h1, h2, _⟩ := emplace_flexIter_spec it (Ty.law it h.1) (Ty.frameLaw it h.1) l h.2 items
        (emplaceU_okL items it h.1 hw) s hal hlen
      exact ⟨o, h1, h2⟩
  | .ustruct vals li, t, h, hw => by
      cases t <;> simp only [InitWT] at hw
      rename_i fs last
      simp only [Ty.WF] at h
      exact emplace_ustruct fs last vals li (lawL fs h.1) (frameL fs h.1) (sizedL_allSized fs h.2.1) (Ty.law last h.2.2.1)
        hw.1 (emplaceU_ok li last h.2.2.1 hw.2)
  | .uenum idx vals none, t, h, hw => by
      cases t <;> simp only [InitWT] at hw
      rename_i tag vs
      simp only [Ty.WF] at h
      exact emplace_uenum_none tag h.1 vs (lawLL vs h.2.1) (frameLL vs h.2.1) idx hw.1 hw.2.1 vals
        (sizedL_allSized _ hw.2.2.1) hw.2.2.2
  | .uenum idx vals (some li), t, h, hw => by
      cases t <;> simp only [InitWT] at hw
      rename_i tag vs
      simp only [Ty.WF] at h
      obtain ⟨hidx, hrep, pre, lt, hvar, hv, hwl⟩ := hw
      have hwf := wfLL_getD vs idx h.2.1
      have hbl := butLastLL_getD vs idx h.2.2
      rw [hvar] at hwf hbl
      exact emplace_uenum_some tag h.1 vs (lawLL vs h.2.1) (frameLL vs h.2.1) idx hidx hrep vals pre lt hvar
        (sizedL_allSized _ (butLastL_concat pre lt hbl)) hv li (emplaceU_ok li lt (wfL_concat pre lt hwf).2 hwl)
theorem emplaceU_okL : ∀ (items : List Init) (t : Ty), t.WF → InitWTL t items → ∀ i ∈ items, EmpSpec t i
  | [], _, _, _ => by intro i hi; cases hi
  | j :: js, t, h, hw => by
      intro i hi
      simp only [InitWTL] at hw
      rcases List.mem_cons.1 hi with heq | hm
      · rw [heq]; exact emplaceU_ok j t h hw.1
      · exact emplaceU_okL js t h hw.2 i hm
end
end FV
