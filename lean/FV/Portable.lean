import FV.Core
/-! C16: portable scalars — byte codecs over `Nat`, two's complement, and the "delegates to the native type" law. -/
namespace FV

def toLE (n : Nat) : Nat → Bytes
  | 0 => []
  | k+1 => UInt8.ofNat (n % 256) :: toLE (n / 256) k

def toBE (n k : Nat) : Bytes := (toLE n k).reverse
def beNat (bs : Bytes) : Nat := leNat bs.reverse

@[simp] theorem toLE_length (n k : Nat) : (toLE n k).length = k := by
  induction k generalizing n with
  | zero => rfl
  | succ k ih => simp [toLE, ih]

theorem leNat_lt (bs : Bytes) : leNat bs < 256 ^ bs.length := by
  induction bs with
  | nil => simp [leNat]
  | cons b bs ih =>
    simp only [leNat, List.length_cons, Nat.pow_succ]
    have := UInt8.toNat_lt b
    omega

theorem leNat_toLE (n k : Nat) : leNat (toLE n k) = n % 256 ^ k := by
  induction k generalizing n with
  | zero => simp [toLE, leNat, Nat.mod_one]
  | succ k ih =>
    simp only [toLE, leNat, ih, Nat.pow_succ]
    have h1 : (UInt8.ofNat (n % 256)).toNat = n % 256 := by
      simp [UInt8.toNat_ofNat]
    rw [h1]
    have := Nat.mod_mul_right_div_self n 256 (256 ^ k)
    have h2 : n % (256 ^ k * 256) = n % 256 + 256 * (n / 256 % 256 ^ k) := by
      rw [Nat.mul_comm (256 ^ k) 256, Nat.mod_mul]
    omega

theorem toLE_leNat (bs : Bytes) : toLE (leNat bs) bs.length = bs := by
  induction bs with
  | nil => rfl
  | cons b bs ih =>
    simp only [leNat, List.length_cons, toLE]
    have hb := UInt8.toNat_lt b
    have h1 : (b.toNat + 256 * leNat bs) % 256 = b.toNat := by omega
    have h2 : (b.toNat + 256 * leNat bs) / 256 = leNat bs := by omega
    rw [h1, h2, ih]
    congr 1
    exact UInt8.ofNat_toNat

/-- **Round trip, unsigned, little endian**: native → stored bytes → native is the identity on the native range -/
theorem le_roundtrip (x n : Nat) (hx : x < 256 ^ n) : leNat (toLE x n) = x := by
  rw [leNat_toLE, Nat.mod_eq_of_lt hx]

theorem be_roundtrip (x n : Nat) (hx : x < 256 ^ n) : beNat (toBE x n) = x := by
  simp [beNat, toBE, le_roundtrip x n hx]

/-- stored bytes → native → stored bytes is the identity: equality of portable values is equality of bytes -/
theorem le_bytes_roundtrip (bs : Bytes) : toLE (leNat bs) bs.length = bs := toLE_leNat bs
theorem be_bytes_roundtrip (bs : Bytes) : toBE (beNat bs) bs.length = bs := by
  have := toLE_leNat bs.reverse
  simp only [List.length_reverse] at this
  simp [toBE, beNat, this]

/-- the two byte orders differ exactly by reversal -/
theorem be_eq_reverse_le (x n : Nat) : toBE x n = (toLE x n).reverse := rfl

/-- two's complement reading of an `n`-byte pattern -/
def toSigned (n : Nat) (v : Nat) : Int := if v < 256 ^ n / 2 then (v : Int) else (v : Int) - (256 ^ n : Nat)
def ofSigned (n : Nat) (i : Int) : Nat := (i % ((256 ^ n : Nat) : Int)).toNat

theorem signed_roundtrip (n v : Nat) (hn : 0 < n) (hv : v < 256 ^ n) : ofSigned n (toSigned n v) = v := by
  have hp : 0 < 256 ^ n := Nat.pow_pos (by omega)
  unfold ofSigned toSigned
  split
  · have : ((v : Int)) % ((256 ^ n : Nat) : Int) = v := Int.emod_eq_of_lt (by omega) (by exact_mod_cast hv)
    rw [this]; simp
  · have : ((v : Int) - ((256 ^ n : Nat) : Int)) % ((256 ^ n : Nat) : Int) = v := by
      rw [Int.sub_emod, Int.emod_self, Int.sub_zero, Int.emod_emod_of_dvd _ (Int.dvd_refl _)]
      exact Int.emod_eq_of_lt (by omega) (by exact_mod_cast hv)
    rw [this]; simp

/-- A portable scalar is its bytes; every operator is `from_native ∘ native_op ∘ to_native`.
For an arbitrary native operation the portable operator computes the native result (as long as the native result is
in range, which the native type guarantees). -/
theorem delegates_unary (n : Nat) (be : Bool) (op : Nat → Nat) (hop : ∀ x, x < 256 ^ n → op x < 256 ^ n) (bs : Bytes)
    (hl : bs.length = n) :
    (if be then beNat (toBE (op (beNat bs)) n) else leNat (toLE (op (leNat bs)) n)) =
      (if be then op (beNat bs) else op (leNat bs)) := by
  cases be with
  | true =>
    have : beNat bs < 256 ^ n := by have := leNat_lt bs.reverse; simpa [beNat, hl] using this
    simp [be_roundtrip _ _ (hop _ this)]
  | false =>
    have : leNat bs < 256 ^ n := by have := leNat_lt bs; simpa [hl] using this
    simp [le_roundtrip _ _ (hop _ this)]

/-- ordering is the ordering of the decoded values, not of the byte arrays: a witness where they differ -/
example : leNat [0x00, 0x01] > leNat [0xFF, 0x00] ∧ ([0x00, 0x01] : List Nat) < [0xFF, 0x00] := by decide
end FV
#print axioms FV.le_roundtrip
#print axioms FV.signed_roundtrip
