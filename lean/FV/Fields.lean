import FV.Core
/-! The generic field-list walkers of `base/src/utils/iter.rs`. -/
namespace FV

/-- `TypeIter::align` -/
def alignL : List Dict → Nat
  | [] => 1
  | d :: ds => max d.align (alignL ds)

/-- `TypeIter::min_size(pos)` / `fold_min_size!` -/
def minSizeL : List Dict → Nat → Nat
  | [], pos => pos
  | [d], pos => ceilMul pos d.align + d.minSize
  | d :: ds, pos => minSizeL ds (ceilMul pos d.align + d.ssize)

/-- `fold_size!(pos; …)` for all-sized lists: end position without trailing padding -/
def foldSize : List Dict → Nat → Nat
  | [], pos => pos
  | d :: ds, pos => foldSize ds (ceilMul pos d.align + d.ssize)

/-- `ValidateIter::validate_all` on `BytesIter::new_unchecked(data, list)` -/
def validateAll : List Dict → Nat → Slice → Res Unit
  | [], _, _ => .ok ()
  | [d], pos, data => (d.validateU data).offset pos
  | d :: d' :: ds, pos, data =>
    match (d.validateU data).offset pos with
    | .ok () =>
      let next := ceilMul (pos + d.ssize) d'.align
      match data.splitAt (next - pos) with
      | .ok (_, rest) => validateAll (d' :: ds) next rest
      | .err e => .err e
      | .fault f => .fault f
    | r => r

/-- deep read of a field list, walked exactly like `validateAll` -/
def walkAll : List Dict → Nat → Slice → Res (List Val)
  | [], _, _ => .ok []
  | [d], _, data => (d.walk data).bind fun v => .ok [v]
  | d :: d' :: ds, pos, data =>
    (d.walk data).bind fun v =>
      match data.splitAt (ceilMul (pos + d.ssize) d'.align - pos) with
      | .ok (_, rest) => (walkAll (d' :: ds) (ceilMul (pos + d.ssize) d'.align) rest).bind fun vs => .ok (v :: vs)
      | .err e => .err e
      | .fault f => .fault f

def AllSizedButLast : List Dict → Prop
  | [] => True
  | [_] => True
  | d :: ds => d.sized.isSome ∧ AllSizedButLast ds

theorem alignL_pos : ∀ ds : List Dict, 0 < alignL ds := by
  intro ds; induction ds with
  | nil => simp [alignL]
  | cons d ds ih => simp only [alignL]; exact Nat.lt_of_lt_of_le ih (Nat.le_max_right _ _)

theorem le_minSizeL : ∀ (ds : List Dict) (pos : Nat), (∀ d ∈ ds, 0 < d.align) → pos ≤ minSizeL ds pos := by
  intro ds
  induction ds with
  | nil => intro pos _; simp [minSizeL]
  | cons d ds ih =>
    intro pos h
    cases ds with
    | nil => simp only [minSizeL]; have := le_ceilMul (x := pos) (h d (by simp)); omega
    | cons d' ds' =>
      simp only [minSizeL]
      have h1 := ih (ceilMul pos d.align + d.ssize) (fun x hx => h x (by simp [hx]))
      have := le_ceilMul (x := pos) (h d (by simp)); omega

theorem minSizeL_mono : ∀ (ds : List Dict) (p q : Nat), p ≤ q → minSizeL ds p ≤ minSizeL ds q := by
  intro ds
  induction ds with
  | nil => intro p q h; simpa [minSizeL]
  | cons d ds ih =>
    intro p q h
    cases ds with
    | nil => simp only [minSizeL]; have := ceilMul_mono (m := d.align) h; omega
    | cons d' ds' =>
      simp only [minSizeL]
      apply ih; have := ceilMul_mono (m := d.align) h; omega

/-- The walk over a field list never faults, provided every field is placed at an address aligned for it
(`data.addr - pos` is the address of position 0) and the slice covers `minSizeL` from the current position. -/
theorem validateAll_noFault :
    ∀ (ds : List Dict) (pos : Nat) (data : Slice),
      (∀ d ∈ ds, DNoFault d) → AllSizedButLast ds →
      (∀ d ∈ ds, (data.addr - pos) % d.align = 0) → pos ≤ data.addr →
      (match ds with | [] => True | d :: _ => pos % d.align = 0) →
      minSizeL ds pos ≤ pos + data.len →
      (validateAll ds pos data).NoFault := by
  intro ds
  induction ds with
  | nil => intro pos data _ _ _ _ _ _; simp [validateAll]
  | cons d ds ih =>
    intro pos data hd hs hal hpos hp hmin
    have hdd := hd d (by simp)
    have hbase := hal d (by simp)
    have haddr : data.addr % d.align = 0 := by
      have : data.addr = (data.addr - pos) + pos := by omega
      rw [this]; exact add_mod_zero hbase hp
    cases ds with
    | nil =>
      simp only [validateAll, Res.offset_noFault]
      apply hdd.noFault _ haddr
      simp only [minSizeL] at hmin
      have := ceilMul_of_mod hdd.align_pos hp
      omega
    | cons d' ds' =>
      simp only [validateAll]
      have hsz : ∃ n, d.sized = some n := by
        have := hs.1; cases h : d.sized <;> simp_all
      obtain ⟨n, hn⟩ := hsz
      have hmn := hdd.sized_min n hn
      have hss : d.ssize = n := by simp [Dict.ssize, hn]
      have hd' := hd d' (by simp)
      have hcm := ceilMul_of_mod hdd.align_pos hp
      have hnext_le : ceilMul (pos + d.ssize) d'.align ≤ pos + data.len := by
        have h1 : minSizeL (d' :: ds') (ceilMul pos d.align + d.ssize) ≤ pos + data.len := by
          simpa [minSizeL] using hmin
        have h3 : ceilMul (ceilMul pos d.align + d.ssize) d'.align ≤ minSizeL (d' :: ds') (ceilMul pos d.align + d.ssize) := by
          cases ds' with
          | nil => simp [minSizeL]
          | cons d'' ds'' =>
            simp only [minSizeL]
            have := le_minSizeL (d'' :: ds'') (ceilMul (ceilMul pos d.align + d.ssize) d'.align + d'.ssize) (fun x hx => (hd x (by simp [hx])).align_pos)
            omega
        rw [hcm] at h3 h1; omega
      have hvd : (d.validateU data).NoFault := by
        apply hdd.noFault _ haddr
        have := le_ceilMul (x := pos + d.ssize) hd'.align_pos
        omega
      cases hv : d.validateU data with
      | fault f => rw [hv] at hvd; exact absurd hvd (by simp)
      | err e => simp
      | ok u =>
        simp only [Res.offset_ok]
        have hge : pos ≤ ceilMul (pos + d.ssize) d'.align := by
          have := le_ceilMul (x := pos + d.ssize) hd'.align_pos; omega
        have hsplit : ceilMul (pos + d.ssize) d'.align - pos ≤ data.len := by omega
        simp only [Slice.splitAt, hsplit, if_true]
        apply ih (ceilMul (pos + d.ssize) d'.align)
        · intro x hx; exact hd x (by simp [hx])
        · exact hs.2
        · intro x hx
          simp only [Slice.addr_drop]
          have : data.addr + (ceilMul (pos + d.ssize) d'.align - pos) - ceilMul (pos + d.ssize) d'.align = data.addr - pos := by omega
          rw [this]; exact hal x (by simp [hx])
        · simp only [Slice.addr_drop]; omega
        · exact ceilMul_mod _ _
        · simp only [Slice.len_drop]
          have h1 : minSizeL (d' :: ds') (ceilMul pos d.align + d.ssize) ≤ pos + data.len := by
            simpa [minSizeL] using hmin
          rw [hcm] at h1
          have h4 : minSizeL (d' :: ds') (ceilMul (pos + d.ssize) d'.align) = minSizeL (d' :: ds') (pos + d.ssize) := by
            cases ds' with
            | nil => simp only [minSizeL]; rw [ceilMul_of_mod hd'.align_pos (ceilMul_mod _ _)]
            | cons d'' ds'' => simp only [minSizeL]; rw [ceilMul_of_mod hd'.align_pos (ceilMul_mod _ _)]
          rw [h4]; omega

/-- Specialisation used by every struct/enum: the walk starts at position 0 of an aligned slice. -/
theorem validateAll_noFault0 (ds : List Dict) (data : Slice)
    (hd : ∀ d ∈ ds, DNoFault d) (hs : AllSizedButLast ds)
    (hal : ∀ d ∈ ds, data.addr % d.align = 0) (hmin : minSizeL ds 0 ≤ data.len) :
    (validateAll ds 0 data).NoFault := by
  apply validateAll_noFault ds 0 data hd hs
  · intro d hdm; simpa using hal d hdm
  · omega
  · cases ds <;> simp
  · omega
end FV
