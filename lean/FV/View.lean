import FV.C01
/-! C04 (c) / C02 (b): a mapped view never claims more bytes than the slice it was mapped from,
its byte length is a multiple of the alignment, and it still satisfies the minimum size. -/
namespace FV

structure ViewLaw (d : Dict) : Prop where
  fits : ∀ n, d.minSize ≤ n → ∃ m, d.viewLen n = .ok m ∧ m ≤ n ∧ m % d.align = 0 ∧ d.minSize ≤ m

theorem sized_viewLaw (d : Dict) (sz : Nat) (hmin : d.minSize = sz) (hv : ∀ n, d.viewLen n = .ok sz)
    (hmod : sz % d.align = 0) : ViewLaw d :=
  ⟨fun n hn => ⟨sz, hv n, by omega, hmod, by omega⟩⟩

theorem prim_view (s a : Nat) (hs : s % a = 0) : ViewLaw (primD s a) :=
  sized_viewLaw _ s rfl (fun _ => rfl) hs
theorem bool_view : ViewLaw boolD := sized_viewLaw _ 1 rfl (fun _ => rfl) (Nat.mod_one 1)
theorem arr_view (d : Dict) (hd : Law d) (sz : Nat) (hsz : d.sized = some sz) (n : Nat) : ViewLaw (arrD d n) :=
  sized_viewLaw _ _ rfl (fun _ => rfl) ((arr_law d hd sz hsz n).sized_mod _ rfl)
theorem sstruct_view (ds : List Dict) : ViewLaw (sstructD ds) :=
  sized_viewLaw _ _ rfl (fun _ => rfl) (ceilMul_mod _ _)
theorem cenum_view (tag : LenTy) (ht : tag.Law) (n : Nat) : ViewLaw (cenumD tag n) :=
  sized_viewLaw _ _ rfl (fun _ => rfl) ht.size_mod
theorem senum_view (tag : LenTy) (vs : List (List Dict)) : ViewLaw (senumD tag vs) :=
  sized_viewLaw _ _ rfl (fun _ => rfl) (ceilMul_mod _ _)

/-- `DATA_OFFSET = max(L::SIZE, T::ALIGN)` is a multiple of `ALIGN = max(L::ALIGN, T::ALIGN)` -/
theorem dataOffset_mod (l : LenTy) (hl : l.Law) (a : Nat) (ha : Pow2 a) : max l.size a % max l.align a = 0 := by
  apply Pow2.mod_of_le (Pow2.of_max hl.align_pow2 ha) (Pow2.of_max hl.size_pow2 ha)
  have := hl.align_le; omega

theorem vec_view (d : Dict) (hd : Law d) (sz : Nat) (hsz : d.sized = some sz) (l : LenTy) (hl : l.Law) :
    ViewLaw (vecD d l) := by
  constructor
  intro n hn
  have hss : d.ssize = sz := by simp [Dict.ssize, hsz]
  have hapos := (Pow2.of_max hl.align_pow2 hd.align_pow2).pos
  have hdo := dataOffset_mod l hl d.align hd.align_pow2
  simp only [vecD] at hn ⊢
  have hnl : ¬ n < max l.size d.align := by omega
  simp only [vecSlots, hnl, if_false, hss, Res.bind_eq]
  by_cases hz : sz = 0
  · refine ⟨max l.size d.align, ?_, hn, hdo, Nat.le_refl _⟩
    simp [hz, ceilMul_of_mod hapos hdo]
  · simp only [hz, if_false, Res.bind_ok]
    refine ⟨_, rfl, ?_, ceilMul_mod _ _, ?_⟩
    · have h2 : floorMul (n - max l.size d.align) (max l.align d.align) / sz * sz ≤ floorMul (n - max l.size d.align) (max l.align d.align) := Nat.div_mul_le_self _ _
      have h3 := floorMul_le (n - max l.size d.align) (max l.align d.align)
      have hm : (max l.size d.align + floorMul (n - max l.size d.align) (max l.align d.align)) % max l.align d.align = 0 :=
        add_mod_zero hdo (floorMul_mod _ _)
      have := ceilMul_least (x := max l.size d.align + floorMul (n - max l.size d.align) (max l.align d.align) / sz * sz) hapos hm (by omega)
      omega
    · have := le_ceilMul (x := max l.size d.align + floorMul (n - max l.size d.align) (max l.align d.align) / sz * sz) hapos
      omega

theorem str_view (l : LenTy) (hl : l.Law) : ViewLaw (strD l) := by
  constructor
  intro n hn
  simp only [strD] at hn ⊢
  have hnl : ¬ n < l.size := by omega
  simp only [hnl, if_false]
  refine ⟨_, rfl, ?_, add_mod_zero hl.size_mod (floorMul_mod _ _), by omega⟩
  have := floorMul_le (n - l.size) l.align; omega

theorem flex_view (d : Dict) (hd : Law d) (l : LenTy) (hl : l.Law) : ViewLaw (flexD d l) := by
  constructor
  intro n hn
  simp only [flexD] at hn ⊢
  have hapos := (Pow2.of_max hl.align_pow2 hd.align_pow2).pos
  refine ⟨_, rfl, floorMul_le _ _, floorMul_mod _ _, ?_⟩
  exact floorMul_greatest hapos (dataOffset_mod l hl d.align hd.align_pow2) hn

theorem minSizeL_append (ds : List Dict) (last : Dict) (hl : ∀ d ∈ ds, Law d) (hs : AllSized ds) :
    ∀ pos, minSizeL (ds ++ [last]) pos = ceilMul (foldSize ds pos) last.align + last.minSize := by
  induction ds with
  | nil => intro pos; simp [minSizeL, foldSize]
  | cons d ds ih =>
    intro pos
    have ih' := ih (fun x hx => hl x (by simp [hx])) (fun x hx => hs x (by simp [hx]))
    cases ds with
    | nil => simp [minSizeL, foldSize]
    | cons d' ds' =>
      simp only [List.cons_append, minSizeL, foldSize]
      have := ih' (ceilMul pos d.align + d.ssize)
      simpa [List.cons_append, foldSize] using this

theorem ustruct_view (ds : List Dict) (last : Dict) (hl : ∀ d ∈ ds, Law d) (hs : AllSized ds) (hlast : Law last)
    (hvl : ViewLaw last) : ViewLaw (ustructD ds last) := by
  constructor
  intro n hn
  simp only [ustructD] at hn ⊢
  have hapos := alignL_pos (ds ++ [last])
  have hms := minSizeL_append ds last hl hs 0
  have h1 := le_ceilMul (x := minSizeL (ds ++ [last]) 0) hapos
  have h2 := floorMul_greatest hapos (ceilMul_mod (minSizeL (ds ++ [last]) 0) (alignL (ds ++ [last]))) hn
  have h3 := floorMul_le n (alignL (ds ++ [last]))
  have hnl : ¬ floorMul n (alignL (ds ++ [last])) < ceilMul (foldSize ds 0) last.align := by omega
  simp only [hnl, if_false, Res.bind_eq]
  obtain ⟨m, hm, hmle, _, hmmin⟩ := hvl.fits (floorMul n (alignL (ds ++ [last])) - ceilMul (foldSize ds 0) last.align) (by omega)
  simp only [hm, Res.bind_ok]
  refine ⟨_, rfl, ?_, ceilMul_mod _ _, ?_⟩
  · have := ceilMul_least (x := ceilMul (foldSize ds 0) last.align + m) hapos (floorMul_mod n (alignL (ds ++ [last]))) (by omega)
    omega
  · apply ceilMul_mono; omega

theorem uenum_view (tag : LenTy) (ht : tag.Law) (vs : List (List Dict)) (hl : ∀ v ∈ vs, ∀ d ∈ v, Law d) :
    ViewLaw (uenumD tag vs) := by
  have hpa : Pow2 (max tag.align (alignLL vs)) := Pow2.of_max ht.align_pow2 (alignLL_pow2 vs hl)
  have hapos := hpa.pos
  constructor
  intro n hn
  simp only [uenumD] at hn ⊢
  have hdo := le_ceilMul (x := tag.size) hapos
  have hsz := le_ceilMul (x := ceilMul tag.size (max tag.align (alignLL vs)) + minList (vs.map varMinSize)) hapos
  have hnl : ¬ n < ceilMul tag.size (max tag.align (alignLL vs)) := by omega
  simp only [hnl, if_false]
  refine ⟨_, rfl, ?_, add_mod_zero (ceilMul_mod _ _) (floorMul_mod _ _), ?_⟩
  · have := floorMul_le (n - ceilMul tag.size (max tag.align (alignLL vs))) (max tag.align (alignLL vs)); omega
  · -- minSize is a multiple of align not exceeding n, hence not exceeding dOff + floor(n - dOff)
    have hm := ceilMul_mod (ceilMul tag.size (max tag.align (alignLL vs)) + minList (vs.map varMinSize)) (max tag.align (alignLL vs))
    have hsub : (ceilMul (ceilMul tag.size (max tag.align (alignLL vs)) + minList (vs.map varMinSize)) (max tag.align (alignLL vs)) - ceilMul tag.size (max tag.align (alignLL vs))) % (max tag.align (alignLL vs)) = 0 := by
      have h1 := Nat.dvd_of_mod_eq_zero hm
      have h2 := Nat.dvd_of_mod_eq_zero (ceilMul_mod tag.size (max tag.align (alignLL vs)))
      exact Nat.mod_eq_zero_of_dvd (Nat.dvd_sub h1 h2)
    have := floorMul_greatest hapos hsub (show _ ≤ n - ceilMul tag.size (max tag.align (alignLL vs)) by omega)
    omega
end FV

namespace FV
mutual
theorem Ty.viewLaw : ∀ t : Ty, t.WF → ViewLaw t.dict
  | .prim s a, h => by simp only [Ty.WF] at h; exact prim_view s a h.2
  | .bool, _ => bool_view
  | .arr t n, h => by
      simp only [Ty.WF] at h
      have hs := dict_sized_isSome t h.2
      obtain ⟨sz, hsz⟩ : ∃ sz, t.dict.sized = some sz := by cases hq : t.dict.sized <;> simp_all
      exact arr_view t.dict (Ty.law t h.1) sz hsz n
  | .sstruct fs, _ => sstruct_view _
  | .cenum tag n, h => by simp only [Ty.WF] at h; exact cenum_view tag h n
  | .senum tag vs, _ => senum_view _ _
  | .vec t l, h => by
      simp only [Ty.WF] at h
      have hs := dict_sized_isSome t h.2.1
      obtain ⟨sz, hsz⟩ : ∃ sz, t.dict.sized = some sz := by cases hq : t.dict.sized <;> simp_all
      exact vec_view t.dict (Ty.law t h.1) sz hsz l h.2.2
  | .str l, h => by simp only [Ty.WF] at h; exact str_view l h
  | .flex t l, h => by simp only [Ty.WF] at h; exact flex_view t.dict (Ty.law t h.1) l h.2
  | .ustruct fs last, h => by
      simp only [Ty.WF] at h
      exact ustruct_view (dictL fs) last.dict (lawL fs h.1) (sizedL_allSized fs h.2.1) (Ty.law last h.2.2.1)
        (Ty.viewLaw last h.2.2.1)
  | .uenum tag vs, h => by
      simp only [Ty.WF] at h
      exact uenum_view tag h.1 (dictLL vs) (lawLL vs h.2.1)
end

/-- **C04 (c) / C02 (b).** For every well-formed type and every slice length the type's minimum admits, the
mapped view covers at most the given bytes, a whole number of alignment units, and at least the minimum. -/
theorem C04_view_fits (t : Ty) (h : t.WF) (n : Nat) (hn : t.dict.minSize ≤ n) :
    ∃ m, t.dict.viewLen n = .ok m ∧ m ≤ n ∧ m % t.dict.align = 0 ∧ t.dict.minSize ≤ m :=
  (Ty.viewLaw t h).fits n hn
end FV
#print axioms FV.C04_view_fits
