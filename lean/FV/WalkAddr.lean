import FV.WalkAll
import FV.AddrIndep
/-! The deep read depends on the address of the slice only through its residue modulo the alignment. -/
namespace FV

def WalkAddr (d : Dict) : Prop :=
  ∀ (a a' : Nat) (bs : Bytes), a % d.align = a' % d.align → d.walk ⟨a, bs⟩ = d.walk ⟨a', bs⟩

theorem prim_waddr (s a : Nat) : WalkAddr (primD s a) := by
  intro x y bs _
  simp only [primD, Slice.takeU, Slice.len, Slice.take]
  by_cases hh : s ≤ bs.length <;> simp [hh]
theorem bool_waddr : WalkAddr boolD := fun _ _ _ _ => rfl
theorem cenum_waddr (tag : LenTy) (n : Nat) : WalkAddr (cenumD tag n) := by
  intro a a' bs h
  simp only [cenumD] at h ⊢
  rw [readU_addr tag a a' bs h]

theorem walkArr_addr (d : Dict) (hd : WalkAddr d) (hmod : d.ssize % d.align = 0) (a a' : Nat) (bs : Bytes)
    (h : a % d.align = a' % d.align) : ∀ k i, walkArr d ⟨a, bs⟩ k i = walkArr d ⟨a', bs⟩ k i := by
  intro k
  induction k with
  | zero => intro i; simp [walkArr]
  | succ k ih =>
    intro i
    simp only [walkArr, Slice.dropU, Slice.len, Slice.takeU, Slice.drop, Slice.take]
    by_cases h1 : i * d.ssize ≤ bs.length
    · simp only [h1, if_true, Res.bind_ok]
      by_cases h2 : d.ssize ≤ (List.drop (i * d.ssize) bs).length
      · simp only [h2, if_true, Res.bind_ok]
        rw [hd (a + i * d.ssize) (a' + i * d.ssize) _ (mod_congr_add h _), ih (i + 1)]
      · simp only [h2, if_false, Res.bind_fault]
    · simp only [h1, if_false, Res.bind_fault]

theorem arr_waddr (d : Dict) (hd : WalkAddr d) (hmod : d.ssize % d.align = 0) (n : Nat) : WalkAddr (arrD d n) := by
  intro a a' bs h
  simp only [arrD] at h ⊢
  rw [walkArr_addr d hd hmod a a' bs h n 0]

/-- the field walker: every field's alignment divides `M`, addresses congruent modulo `M` -/
theorem walkAll_addr (M : Nat) :
    ∀ (ds : List Dict), (∀ d ∈ ds, WalkAddr d) → (∀ d ∈ ds, M % d.align = 0) →
      ∀ (pos a a' : Nat) (bs : Bytes), a % M = a' % M → walkAll ds pos ⟨a, bs⟩ = walkAll ds pos ⟨a', bs⟩ := by
  intro ds
  induction ds with
  | nil => intro _ _ _ _ _ _ _; rfl
  | cons d ds ih =>
    intro hd hm pos a a' bs h
    have h1 := hd d (by simp) a a' bs (mod_congr_of_dvd h (hm d (by simp)))
    cases ds with
    | nil => simp only [walkAll, h1]
    | cons d' ds' =>
      simp only [walkAll, h1, Slice.splitAt, Slice.len, Slice.take, Slice.drop]
      cases d.walk ⟨a', bs⟩ with
      | ok v =>
        simp only [Res.bind_ok]
        by_cases hs : ceilMul (pos + d.ssize) d'.align - pos ≤ bs.length
        · simp only [hs, if_true]
          rw [ih (fun x hx => hd x (by simp [hx])) (fun x hx => hm x (by simp [hx])) _ _ _ _ (mod_congr_add h _)]
        · simp only [hs, if_false]
      | err e => rfl
      | fault f => rfl

theorem sstruct_waddr (ds : List Dict) (hl : ∀ d ∈ ds, Law d) (hd : ∀ d ∈ ds, WalkAddr d) : WalkAddr (sstructD ds) := by
  intro a a' bs h
  simp only [sstructD] at h ⊢
  rw [walkAll_addr (alignL ds) ds hd (alignL_mod ds hl) 0 a a' bs h]

theorem senum_waddr (tag : LenTy) (ht : tag.Law) (vs : List (List Dict)) (hl : ∀ v ∈ vs, ∀ d ∈ v, Law d)
    (hd : ∀ v ∈ vs, ∀ d ∈ v, WalkAddr d) : WalkAddr (senumD tag vs) := by
  intro a a' bs h
  simp only [senumD] at h ⊢
  have hpll := alignLL_pow2 vs hl
  rw [readU_addr tag a a' bs (mod_congr_of_dvd h (Pow2.max_mod_left ht.align_pow2 hpll))]
  cases hr : tag.readU ⟨a', bs⟩ with
  | ok t =>
    simp only [Res.bind_ok, Slice.dropU, Slice.len, Slice.drop]
    by_cases hdo : ceilMul tag.size (max tag.align (alignLL vs)) ≤ bs.length
    · simp only [hdo, if_true, Res.bind_ok]
      by_cases hlt : t < vs.length
      · have hmem := getD_mem vs t [] hlt
        rw [walkAll_addr (alignLL vs) (vs.getD t []) (hd _ hmem) (fun d hdm => alignLL_mod vs hl _ hmem d hdm) 0 _ _ _
          (mod_congr_add (mod_congr_of_dvd h (Pow2.max_mod_right ht.align_pow2 hpll)) _)]
      · have : vs.getD t [] = [] := by simp [List.getD, List.getElem?_eq_none (by omega : vs.length ≤ t)]
        rw [this]; rfl
    · simp only [hdo, if_false, Res.bind_fault]
  | err e => rfl
  | fault f => rfl

theorem walkElems_addr (d : Dict) (hd : WalkAddr d) (dOff : Nat) (a a' : Nat) (bs : Bytes)
    (h : a % d.align = a' % d.align) : ∀ k i, walkElems d dOff ⟨a, bs⟩ k i = walkElems d dOff ⟨a', bs⟩ k i := by
  intro k
  induction k with
  | zero => intro i; simp [walkElems]
  | succ k ih =>
    intro i
    simp only [walkElems, Slice.dropU, Slice.len, Slice.takeU, Slice.drop, Slice.take]
    by_cases h1 : dOff + i * d.ssize ≤ bs.length
    · simp only [h1, if_true, Res.bind_ok]
      by_cases h2 : d.ssize ≤ (List.drop (dOff + i * d.ssize) bs).length
      · simp only [h2, if_true, Res.bind_ok]
        rw [hd (a + (dOff + i * d.ssize)) (a' + (dOff + i * d.ssize)) _ (mod_congr_add h _), ih (i + 1)]
      · simp only [h2, if_false, Res.bind_fault]
    · simp only [h1, if_false, Res.bind_fault]

theorem vec_waddr (d : Dict) (hd : WalkAddr d) (hp : Pow2 d.align) (l : LenTy) (hl : l.Law) : WalkAddr (vecD d l) := by
  intro a a' bs h
  simp only [vecD] at h ⊢
  rw [readU_addr l a a' bs (mod_congr_of_dvd h (Pow2.max_mod_left hl.align_pow2 hp))]
  simp only [Slice.len]
  simp only [walkElems_addr d hd _ a a' bs (mod_congr_of_dvd h (Pow2.max_mod_right hl.align_pow2 hp))]

theorem str_waddr (l : LenTy) : WalkAddr (strD l) := by
  intro a a' bs h
  simp only [strD] at h ⊢
  rw [readU_addr l a a' bs h]
  rfl

theorem walkFlex_addr (d : Dict) (hd : WalkAddr d) (hp : Pow2 d.align) (l : LenTy) (hl : l.Law) (os : Nat) :
    ∀ (fuel a a' : Nat) (bs : Bytes), a % max l.align d.align = a' % max l.align d.align →
      walkFlex d l os fuel ⟨a, bs⟩ = walkFlex d l os fuel ⟨a', bs⟩ := by
  intro fuel
  induction fuel with
  | zero => intro _ _ _ _; rfl
  | succ f ih =>
    intro a a' bs h
    simp only [walkFlex]
    rw [readU_addr l a a' bs (mod_congr_of_dvd h (Pow2.max_mod_left hl.align_pow2 hp))]
    cases hr : l.readU ⟨a', bs⟩ with
    | ok next =>
      simp only [Res.bind_ok, Slice.splitAt, Slice.len, Slice.take, Slice.drop]
      by_cases h0 : next = 0
      · simp only [h0, if_true]
      · simp only [h0, if_false]
        by_cases hm : next = l.max
        · simp only [hm, if_true]
          by_cases h1 : os ≤ bs.length
          · simp only [h1, if_true]
            rw [hd (a + os) (a' + os) _ (mod_congr_add (mod_congr_of_dvd h (Pow2.max_mod_right hl.align_pow2 hp)) _)]
          · simp only [h1, if_false]
        · simp only [hm, if_false]
          by_cases h1 : next ≤ bs.length
          · simp only [h1, if_true, List.length_take]
            by_cases h2 : os ≤ min next bs.length
            · simp only [h2, if_true]
              rw [hd (a + os) (a' + os) _ (mod_congr_add (mod_congr_of_dvd h (Pow2.max_mod_right hl.align_pow2 hp)) _),
                ih (a + next) (a' + next) _ (mod_congr_add h _)]
            · simp only [h2, if_false]
          · simp only [h1, if_false]
    | err e => rfl
    | fault f => rfl

theorem flex_waddr (d : Dict) (hd : WalkAddr d) (hp : Pow2 d.align) (l : LenTy) (hl : l.Law) : WalkAddr (flexD d l) := by
  intro a a' bs h
  simp only [flexD] at h ⊢
  simp only [Slice.len, Slice.take]
  rw [walkFlex_addr d hd hp l hl _ _ a a' _ h]

theorem ustruct_waddr (ds : List Dict) (last : Dict) (hl : ∀ d ∈ ds ++ [last], Law d) (hd : ∀ d ∈ ds ++ [last], WalkAddr d) :
    WalkAddr (ustructD ds last) := by
  intro a a' bs h
  simp only [ustructD] at h ⊢
  simp only [Slice.len, Slice.take]
  rw [walkAll_addr (alignL (ds ++ [last])) (ds ++ [last]) hd (alignL_mod _ hl) 0 a a' _ h]

theorem uenum_waddr (tag : LenTy) (ht : tag.Law) (vs : List (List Dict)) (hl : ∀ v ∈ vs, ∀ d ∈ v, Law d)
    (hd : ∀ v ∈ vs, ∀ d ∈ v, WalkAddr d) : WalkAddr (uenumD tag vs) := by
  intro a a' bs h
  simp only [uenumD] at h ⊢
  have hpll := alignLL_pow2 vs hl
  rw [readU_addr tag a a' bs (mod_congr_of_dvd h (Pow2.max_mod_left ht.align_pow2 hpll))]
  cases hr : tag.readU ⟨a', bs⟩ with
  | ok t =>
    simp only [Res.bind_ok, Slice.dropU, Slice.len, Slice.drop, Slice.take]
    by_cases hdo : ceilMul tag.size (max tag.align (alignLL vs)) ≤ bs.length
    · simp only [hdo, if_true, Res.bind_ok]
      by_cases hlt : t < vs.length
      · have hmem := getD_mem vs t [] hlt
        rw [walkAll_addr (alignLL vs) (vs.getD t []) (hd _ hmem) (fun d hdm => alignLL_mod vs hl _ hmem d hdm) 0 _ _ _
          (mod_congr_add (mod_congr_of_dvd h (Pow2.max_mod_right ht.align_pow2 hpll)) _)]
      · have : vs.getD t [] = [] := by simp [List.getD, List.getElem?_eq_none (by omega : vs.length ≤ t)]
        rw [this]; rfl
    · simp only [hdo, if_false, Res.bind_fault]
  | err e => rfl
  | fault f => rfl

mutual
theorem Ty.walkAddr : ∀ t : Ty, t.WF → WalkAddr t.dict
  | .prim s a, _ => prim_waddr s a
  | .bool, _ => bool_waddr
  | .arr t n, h => by
      simp only [Ty.WF] at h
      obtain ⟨sz, hsz⟩ : ∃ sz, t.dict.sized = some sz := by
        have hs := dict_sized_isSome t h.2
        cases hq : t.dict.sized <;> simp_all
      have hss : t.dict.ssize = sz := by simp [Dict.ssize, hsz]
      exact arr_waddr t.dict (Ty.walkAddr t h.1) (by rw [hss]; exact (Ty.law t h.1).sized_mod sz hsz) n
  | .sstruct fs, h => by
      simp only [Ty.WF] at h
      exact sstruct_waddr (dictL fs) (lawL fs h.1) (waddrL fs h.1)
  | .cenum tag n, _ => cenum_waddr tag n
  | .senum tag vs, h => by
      simp only [Ty.WF] at h
      exact senum_waddr tag h.1 (dictLL vs) (lawLL vs h.2.1) (waddrLL vs h.2.1)
  | .vec t l, h => by
      simp only [Ty.WF] at h
      exact vec_waddr t.dict (Ty.walkAddr t h.1) (Ty.law t h.1).align_pow2 l h.2.2
  | .str l, _ => str_waddr l
  | .flex t l, h => by
      simp only [Ty.WF] at h
      exact flex_waddr t.dict (Ty.walkAddr t h.1) (Ty.law t h.1).align_pow2 l h.2
  | .ustruct fs last, h => by
      simp only [Ty.WF] at h
      have hall : ∀ d ∈ dictL fs ++ [last.dict], Law d := by
        intro d hd
        rcases List.mem_append.1 hd with h' | h'
        · exact lawL fs h.1 d h'
        · simp at h'; subst h'; exact Ty.law last h.2.2.1
      have halla : ∀ d ∈ dictL fs ++ [last.dict], WalkAddr d := by
        intro d hd
        rcases List.mem_append.1 hd with h' | h'
        · exact waddrL fs h.1 d h'
        · simp at h'; subst h'; exact Ty.walkAddr last h.2.2.1
      exact ustruct_waddr (dictL fs) last.dict hall halla
  | .uenum tag vs, h => by
      simp only [Ty.WF] at h
      exact uenum_waddr tag h.1 (dictLL vs) (lawLL vs h.2.1) (waddrLL vs h.2.1)
theorem waddrL : ∀ fs : List Ty, wfL fs → ∀ d ∈ dictL fs, WalkAddr d
  | [], _ => by intro d hd; simp [dictL] at hd
  | t :: ts, h => by
      intro d hd
      simp only [dictL, List.mem_cons] at hd
      rcases hd with rfl | hm
      · exact Ty.walkAddr t h.1
      · exact waddrL ts h.2 d hm
theorem waddrLL : ∀ vs : List (List Ty), wfLL vs → ∀ v ∈ dictLL vs, ∀ d ∈ v, WalkAddr d
  | [], _ => by intro v hv; simp [dictLL] at hv
  | v0 :: vs, h => by
      intro v hv
      simp only [dictLL, List.mem_cons] at hv
      rcases hv with rfl | hm
      · exact waddrL v0 h.1
      · exact waddrLL vs h.2 v hm
end
end FV
