def tItem : Ty := .vec u8 L8
def tItem2 : Ty := .vec u16 L16
def chkPush (n : Nat) (it : Ty) (l : LenTy) (before : List Nat) (i : NInit) (res : Except Err Unit) (after : List Nat) : String :=
  match flexPush it l i.toInit ⟨0, toB before⟩ with
  | .ok o =>
    let same := o.bytes == toB after
    let rsame := match o.res, res with
      | .ok (), .ok () => true
      | .error e, .error e' => e.kind == e'.kind && e.pos == e'.pos
      | _, _ => false
    if same && rsame then "ok" else s!"MISMATCH push {n}: bytes={same} res={rsame} model={o.bytes.map (·.toNat)} {repr (match o.res with | .ok () => "ok" | .error e => s!"{repr e.kind}@{e.pos}")}"
  | _ => s!"MISMATCH push {n}: model fault/err"
def chkPop (n : Nat) (it : Ty) (l : LenTy) (before : List Nat) (r : Bool) (after : List Nat) : String :=
  match flexPop it l ⟨0, toB before⟩ with
  | .ok (b, r') => if b == toB after && r == r' then "ok" else s!"MISMATCH pop {n}: model={b.map (·.toNat)} {r'}"
  | _ => s!"MISMATCH pop {n}: model fault"
def chkTrunc (n : Nat) (it : Ty) (l : LenTy) (before : List Nat) (k : Nat) (after : List Nat) : String :=
  match flexTruncate it l k ⟨0, toB before⟩ with
  | .ok b => if b == toB after then "ok" else s!"MISMATCH trunc {n}: model={b.map (·.toNat)}"
  | _ => s!"MISMATCH trunc {n}: model fault"
