import FV
open FV

def u8 : Ty := .prim 1 1
def u16 : Ty := .prim 2 2
def u32 : Ty := .prim 4 4
def L8 : LenTy := ⟨1, 1, false⟩
def L16 : LenTy := ⟨2, 2, false⟩
def tVec : Ty := .vec u8 L16
def tS1 : Ty := .ustruct [u32] (.vec u8 L16)
def tE1 : Ty := .uenum L8 [[], [u8, u16], [u8, .vec u8 L16], [u32]]
def tFlex : Ty := .flex (.vec u8 L8) L8
def tFlexS1 : Ty := .flex tS1 L16
def tE3 : Ty := .uenum L8 [[u8], [.flex (.vec u8 L8) L8]]
def tStr : Ty := .str L16

def toB (l : List Nat) : Bytes := l.map UInt8.ofNat
def toBB (l : List (List Nat)) : List Bytes := l.map toB

/-- lift numeric literals in an initialiser -/
inductive NInit where
  | raw (bs : List Nat) | vecEmpty | vecIter (xs : List (List Nat)) | strFrom (bs : List Nat)
  | flexIter (items : List NInit) | ustruct (fields : List (List Nat)) (last : NInit)
  | uenum (idx : Nat) (fields : List (List Nat)) (last : Option NInit)

mutual
def NInit.toInit : NInit → Init
  | .raw bs => .raw (toB bs)
  | .vecEmpty => .vecEmpty
  | .vecIter xs => .vecIter (toBB xs)
  | .strFrom bs => .strFrom (toB bs)
  | .flexIter items => .flexIter (toInits items)
  | .ustruct f l => .ustruct (toBB f) l.toInit
  | .uenum i f none => .uenum i (toBB f) none
  | .uenum i f (some l) => .uenum i (toBB f) (some l.toInit)
def toInits : List NInit → List Init
  | [] => []
  | x :: xs => x.toInit :: toInits xs
end

def chk (n : Nat) (t : Ty) (i : NInit) (off : Nat) (pre : List Nat) (res : Except Err Unit) (after : List Nat) : String :=
  match emplace t i.toInit ⟨off, toB pre⟩ with
  | .ok o =>
    let same := o.bytes == toB after
    let rsame := match o.res, res with
      | .ok (), .ok () => true
      | .error e, .error e' => e.kind == e'.kind && e.pos == e'.pos
      | _, _ => false
    if same && rsame then "ok" else s!"MISMATCH {n}: bytes_equal={same} res_equal={rsame} model_bytes={o.bytes.map (·.toNat)} model_res={repr (match o.res with | .ok () => "ok" | .error e => s!"{repr e.kind}@{e.pos}")}"
  | .err e => s!"MISMATCH {n}: model err {repr e}"
  | .fault f => s!"MISMATCH {n}: model FAULT {repr f}"

