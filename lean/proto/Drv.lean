import FV
open FV

def hexVal (c : Char) : Nat :=
  if c.isDigit then c.toNat - '0'.toNat else c.toNat - 'a'.toNat + 10

def parseHex (s : String) : Bytes :=
  if s == "-" then [] else
  let cs := s.toList
  let rec go : List Char → Bytes
    | a :: b :: rest => UInt8.ofNat (hexVal a * 16 + hexVal b) :: go rest
    | _ => []
  go cs

def u8 : Ty := .prim 1 1
def u16 : Ty := .prim 2 2
def u32 : Ty := .prim 4 4
def L8 : LenTy := ⟨1, 1, false⟩
def L16 : LenTy := ⟨2, 2, false⟩
def L32 : LenTy := ⟨4, 4, false⟩
def S1 : Ty := .ustruct [u32] (.vec u8 L16)
def E1 : Ty := .uenum L8 [[], [u8, u16], [u8, .vec u8 L16], [u32]]
def WithBool : Ty := .sstruct [u32, .bool]
def SE : Ty := .senum L16 [[], [u16, u8], [u8, u32], [.bool]]
def E3 : Ty := .uenum L8 [[u8], [.flex (.vec u8 L8) L8]]
def S3 : Ty := .ustruct [u16] (.flex S1 L16)
def types : Array Ty := #[
  .vec u8 L16, .vec (.arr u8 3) L32, .str L16, .flex (.vec u8 L8) L8, .flex u32 L8, S1, E1, WithBool, SE,
  .vec SE L8, .flex S1 L16, .vec (.prim 2 1) ⟨2, 1, true⟩, E3, S3, .arr WithBool 2, .cenum L8 3]

def kindStr : EKind → String
  | .insufficientSize => "insufficientSize" | .badAlign => "badAlign" | .invalidEnumTag => "invalidEnumTag"
  | .invalidData => "invalidData" | .other => "other"

def runWalk (t : Ty) (bs : Bytes) : String :=
  match t.walk ⟨0, bs⟩ with
  | .ok v => v
  | .err _ => "ERR"
  | .fault _ => "FAULT"

def runCase (t : Ty) (off : Nat) (bs : Bytes) : String :=
  let d := t.dict
  let s : Slice := ⟨off, bs⟩
  match d.validate s with
  | .err e => s!"err {kindStr e.kind} {e.pos}"
  | .fault _ => "FAULT"
  | .ok () =>
    match d.viewLen s.len with
    | .ok n =>
      match d.size s with
      | .ok z => s!"ok view={n} size={z}"
      | _ => "FAULT-size"
    | _ => "FAULT-view"

partial def loop (h : IO.FS.Stream) (bad total : Nat) : IO (Nat × Nat) := do
  let line ← h.getLine
  if line.isEmpty then return (bad, total)
  match line.trimAscii.toString.splitOn " => " with
  | [lhs, rhs] =>
    match lhs.splitOn " " with
    | [id, hex] =>
      let got := runWalk (types[id.toNat!]?.getD (.prim 0 1)) (parseHex hex)
      if got == rhs then loop h bad (total+1)
      else
        if bad < 25 then IO.println s!"MISMATCH {lhs} impl=[{rhs}] model=[{got}]"
        loop h (bad+1) (total+1)
    | [id, off, hex] =>
      let got := runCase (types[id.toNat!]?.getD (.prim 0 1)) off.toNat! (parseHex hex)
      if got == rhs then loop h bad (total+1)
      else
        if bad < 25 then IO.println s!"MISMATCH {lhs} impl=[{rhs}] model=[{got}]"
        loop h (bad+1) (total+1)
    | _ => loop h bad total
  | _ => loop h bad total

def main : IO Unit := do
  let (bad, total) ← loop (← IO.getStdin) 0 0
  IO.println s!"total {total} mismatches {bad}"
