import Driver.Bytes
import FV.Spec.Content
import FV.Spec.Serialize
import FV.Spec.SizeSpec
/-! Model side of the emplacement suite (`E`, `F`, `A` lines). -/
open FV
namespace Drv

def hexByte (b : UInt8) : String := String.ofList [hexDigit (b.toNat / 16), hexDigit (b.toNat % 16)]
/-- bytes that differ between the two padding runs are printed as `..` -/
def maskedHex (a b : Bytes) : String :=
  if a.isEmpty then "-" else
  String.join ((a.zip b).map fun (x, y) => if x == y then hexByte x else "..")

def resStr : Except Err Unit → String
  | .ok () => "ok"
  | .error e => s!"err:{errStr e}"

def us (s : String) : String := s.replace " " "_"

def probeStr (t : Ty) (s : Slice) : String :=
  match probe t s with
  | .ok p => s!"ok:v={p.v}:z={p.z}:{us p.w}"
  | .err e => s!"err:{errStr e}"
  | .fault _ => "FAULT"

/-- run an operation twice with the padding byte of raw images changed, to find the bytes that are padding-derived -/
def twoRuns (f : Init → Res EO) (i : Init) : Res (EO × Bytes) :=
  (f i).bind fun o1 => (f (i.subst 0xEE 0x11)).bind fun o2 => .ok (o1, o2.bytes)

def runE (t : Ty) (a16 : Nat) (i : Init) (pre : Bytes) (withSpec : Bool) : String :=
  let s : Slice := ⟨a16, pre⟩
  match twoRuns (fun i => emplace t i s) i with
  | .fault f => s!"FAULT:{repr f}"
  | .err e => s!"MODEL-ERR {errStr e}"
  | .ok (o, b2) =>
    -- the specified size of the content (`sizeSpec`), or `unrep` when the content cannot be represented (`Rep`)
    let need := if repB t i then toString (sizeSpec t i) else "unrep"
    let base := s!"{resStr o.res} {maskedHex o.bytes b2} need={need}"
    match o.res with
    | .error _ => base
    | .ok () =>
      let sp := if withSpec then
          " spec=" ++ (match specOf t i with | .ok x => us x | _ => "SPEC-FAULT")
        else ""
      let ser := if t.align1 then
          " ser=" ++ (match serialize t i with | some b => (if b.isEmpty then "-" else hexOf b) | none => "NONE")
        else ""
      s!"{base}{sp} p={probeStr t ⟨a16, o.bytes⟩}{ser}"

def runA (t : Ty) (a16 : Nat) (i1 i2 : Init) (pre : Bytes) : String :=
  let s : Slice := ⟨a16, pre⟩
  match t.dict.validate s with
  | .fault _ => "FAULT"
  | .err e => s!"notvalid:{errStr e} {maskedHex pre pre}"
  | .ok () =>
    match twoRuns (fun i => assign t i s) i1 with
    | .fault f => s!"FAULT:{repr f}"
    | .err e => s!"MODEL-ERR {errStr e}"
    | .ok (o, b2) =>
      let s1 : Slice := ⟨a16, o.bytes⟩
      let second := match t.dict.validate s1 with
        | .fault _ => "a2=FAULT"
        | .err e => s!"a2=notvalid:{errStr e} p2={probeStr t s1}"
        | .ok () =>
          match assign t i2 s1 with
          | .ok o2 => s!"a2={resStr o2.res} p2={probeStr t ⟨a16, o2.bytes⟩}"
          | _ => "a2=FAULT"
      -- what the first assignment needs (`sizeSpec`, or `unrep`) and what it has (`as_bytes().len()` of the target)
      let need := if repB t i1 then toString (sizeSpec t i1) else "unrep"
      let v0 := match t.dict.viewLen s.len with | .ok v => toString v | _ => "?"
      s!"{resStr o.res} {maskedHex o.bytes b2} p={probeStr t s1} {second} need={need} v0={v0}"
end Drv
