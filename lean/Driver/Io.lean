import Driver.Ops
import FV.IoAsync
import FV.IoAsyncRecv
import FV.IoSendSeq
import FV.IoRecvRetry
import FV.IoAsyncSeq
import FV.IoAsyncLoop
/-! Model side of the IO suites (`S`, `R`, `AS`, `AR`, `AP` lines). -/
open FV
namespace Drv

/-- `f<k>`: the call fails with the `k`-th `io::ErrorKind` of the table below (`f` alone = kind 0) -/
inductive SEv | n (k : Nat) | zero | fail (kind : Nat) | pending
def kindName (k : Nat) : String :=
  ["ConnectionReset", "Interrupted", "WouldBlock", "TimedOut", "BrokenPipe", "WriteZero", "UnexpectedEof", "Other",
   "NotConnected", "PermissionDenied", "OutOfMemory"].getD k "Other"
def parseScript (s : String) : List SEv :=
  if s == "-" then [] else
  (s.splitOn ",").map fun t => if t == "z" then .zero else if t == "f" then .fail 0 else if t.startsWith "f" then .fail (t.drop 1).toString.toNat! else if t == "p" then .pending else .n t.toNat!

def big : Nat := 1000000000
def bufCap (t : Ty) (max : Nat) : Nat := 2 * (Nat.max max t.dict.minSize)

def toWriteEvs (s : List SEv) (tail : Nat) : List WriteEv :=
  (s.filterMap fun e => match e with | .n k => some (.accept k) | .zero => some .zero | .fail k => some (.fail k) | .pending => none)
    ++ List.replicate tail (.accept big)
def toAEvs (s : List SEv) (tail : Nat) : List AEv :=
  (s.map fun e => match e with | .n k => .ok k | .zero => .ok 0 | .fail k => .err k | .pending => .pending)
    ++ List.replicate tail (.ok big)
def toReadEvs (s : List SEv) (tail : Nat) : List ReadEv :=
  (s.filterMap fun e => match e with | .n k => some (.deliver k) | .zero => some (.deliver 0) | .fail k => some (.fail k) | .pending => none)
    ++ List.replicate tail (.deliver big)

def toAREvs (s : List SEv) (tail : Nat) : List AREv :=
  (s.map fun e => match e with | .n k => .deliver k | .zero => .deliver 0 | .fail k => .fail k | .pending => .pending)
    ++ List.replicate tail (.deliver big)

structure SendSt where
  buf : Bytes
  sink : Bytes
  poisoned : Bool
  used : Nat
  msgs : List Bytes := []     -- the byte strings handed to `write_all`, in order (for the cross-check against `sendSeq`)

/-- the edits applied through the send guard's `DerefMut` after the message has been emplaced (their results are not reported:
the operation suite compares those); a fault of the model stops the message -/
def applyEdits (t : Ty) : List Op → Bytes → Option Bytes
  | [], b => some b
  | op :: ops, b =>
    match applyOp op t ⟨0, b⟩ with
    | .ok o => applyEdits t ops o.bytes
    | _ => none

/-- blocking sender: all messages in turn -/
def sendAllB (t : Ty) : List (Init × List Op) → List WriteEv → SendSt → List String → List String × SendSt
  | [], _, st, acc => (acc.reverse, st)
  | (i, eds) :: is, evs, st, acc =>
    match emplace t i ⟨0, st.buf⟩ with
    | .ok o =>
      let st1 := { st with buf := o.bytes }
      match o.res with
      | .error e => sendAllB t is evs st1 (s!"emplace:{errStr e}" :: acc)
      | .ok () =>
        match applyEdits t eds o.bytes with
        | none => sendAllB t is evs st1 ("FAULT" :: acc)
        | some mb =>
        let st1 := { st1 with buf := mb }
        if st.poisoned then sendAllB t is evs { st1 with msgs := st.msgs ++ [[]] } ("PANIC" :: acc)
        else match t.dict.size ⟨0, mb⟩ with
          | .ok z =>
            let r := writeAll (mb.take z) evs 0 st.sink st.used
            let res := match r.out with | .done => "ok" | .brokenPipe => "err:BrokenPipe" | .err k => "err:" ++ kindName k | .blocked => "BLOCKED"
            sendAllB t is r.evs { st1 with sink := r.sink, poisoned := r.poisoned, used := r.used, msgs := st.msgs ++ [mb.take z] } (res :: acc)
          | _ => sendAllB t is evs st1 ("FAULT" :: acc)
    | _ => (("FAULT" :: acc).reverse, st)

/-- async sender: `WriteAll` polled again after every `Pending` -/
def sendAllA (t : Ty) : List (Init × List Op) → List AEv → SendSt → List String → List String × SendSt
  | [], _, st, acc => (acc.reverse, st)
  | (i, eds) :: is, evs, st, acc =>
    match emplace t i ⟨0, st.buf⟩ with
    | .ok o =>
      let st1 := { st with buf := o.bytes }
      match o.res with
      | .error e => sendAllA t is evs st1 (s!"emplace:{errStr e}" :: acc)
      | .ok () =>
        match applyEdits t eds o.bytes with
        | none => sendAllA t is evs st1 ("FAULT" :: acc)
        | some mb =>
        let st1 := { st1 with buf := mb }
        if st.poisoned then sendAllA t is evs { st1 with msgs := st.msgs ++ [[]] } ("PANIC" :: acc)
        else match t.dict.size ⟨0, mb⟩ with
          | .ok z =>
            let (p, a, evs') := arun (mb.take z) evs ⟨0, st.sink, false⟩
            let res := match p with | .done => "ok" | .brokenPipe => "err:BrokenPipe" | .err k => "err:" ++ kindName k | .flushErr k => "err:" ++ kindName k
                                    | .pending => "STUCK" | .blocked => "BLOCKED"
            sendAllA t is evs' { st1 with sink := a.sink, poisoned := a.poisoned, used := st.used + (evs.length - evs'.length), msgs := st.msgs ++ [mb.take z] } (res :: acc)
          | _ => sendAllA t is evs st1 ("FAULT" :: acc)
    | _ => (("FAULT" :: acc).reverse, st)

def joinC : List String → String
  | [] => "-"
  | xs => ",".intercalate xs

/-- two runs (prior buffer contents 00 / ff, raw padding ee / 11) to find the sink bytes that are not data -/
def runS (t : Ty) (max : Nat) (script : List SEv) (inits : List (Init × List Op)) (async : Bool) : String :=
  let cap := bufCap t max
  let tail := inits.length * (cap + 2) + 4
  let go (pre : UInt8) (is : List (Init × List Op)) : List String × SendSt :=
    let st0 : SendSt := ⟨List.replicate cap pre, [], false, 0, []⟩
    if async then sendAllA t is (toAEvs script tail) st0 [] else sendAllB t is (toWriteEvs script tail) st0 []
  let (r1, s1) := go 0x00 inits
  let (_, s2) := go 0xFF (inits.map fun (i, eds) => (i.subst 0xEE 0x11, eds.map (Op.subst 0xEE 0x11)))
  -- the session function the C09 theorems are about (`sendSeq`) must tell the same story as the message-by-message run above
  let cross : Bool :=
    if async then
      let (rs, fin) := asendSeq s1.msgs ⟨[], false, toAEvs script tail⟩
      -- `flushFailed` and `failed` both show as an error to the caller
      let cls (x : String) : Option Bool := if x == "ok" then some true else if x.startsWith "err:" || x == "BLOCKED" || x == "STUCK" || x == "PANIC" then some false else none
      let want := r1.filterMap cls
      !(fin.sink == s1.sink && fin.poisoned == s1.poisoned && rs.map (fun r => r == ASendR.ok) == want)
    else
      let (rs, fin) := sendSeq s1.msgs ⟨[], false, toWriteEvs script tail⟩
      let cls (x : String) : Option SendR := if x == "ok" then some .ok else if x.startsWith "err:" || x == "BLOCKED" then some .failed else if x == "PANIC" then some .refused else none
      let want := r1.filterMap cls
      !(fin.sink == s1.sink && fin.poisoned == s1.poisoned && rs == want)
  let r1 := if cross then "MODEL-INCONSISTENT" :: r1 else r1
  s!"{joinC r1} sink={maskedHex s1.sink s2.sink} calls={s1.used}" ++ (if async then " flushed=1" else "")

/-- the receiver loop the harness runs: recv, look through the guard, drop it; continue after a read error -/
def recvLoopD (t : Ty) : Nat → List ReadEv → RBuf → Bytes → List String → List String × List ReadEv
  | 0, evs, _, _, acc => (acc.reverse, evs)
  | k+1, evs, b, rest, acc =>
    match recv t.dict evs b rest with
    | (.msg _, b', rest', evs') =>
      match t.dict.size b'.slice, dropGuard t.dict b', t.walk b'.slice with
      | .ok z, some b'', .ok w => recvLoopD t k evs' b'' rest' (s!"msg:{z}:{us (stripCaps w)}" :: acc)
      | _, _, _ => (("PANIC" :: acc).reverse, evs')
    | (.readErr kd, b', rest', evs') => recvLoopD t k evs' b' rest' (("read:" ++ kindName kd) :: acc)
    | (.parse e, _, _, evs') => ((s!"parse:{errStr e}" :: acc).reverse, evs')
    | (.oom, _, _, evs') => (("oom" :: acc).reverse, evs')
    | (.closed, _, _, evs') => (("closed" :: acc).reverse, evs')
    | (.blocked, _, _, evs') => (("BLOCKED" :: acc).reverse, evs')
    | (.fault, _, _, evs') => (("PANIC" :: acc).reverse, evs')

def runR (t : Ty) (max : Nat) (script : List SEv) (nrecv : Nat) (stream : Bytes) : String :=
  let cap := bufCap t max
  let tail := stream.length + nrecv + 4
  let evs := toReadEvs script tail
  let (outs, evs') := recvLoopD t nrecv evs ⟨0, cap, 0, []⟩ stream []
  -- the retrying receive loop the C09 / C07 theorems are about (`recvLoopRetry`) must tell the same story: the same outcomes in the
  -- same order (read errors aside, which it retries internally), as far as both loops get
  let shortOf (x : String) : String := match x.splitOn ":" with | "msg" :: z :: _ => "msg:" ++ z | "parse" :: _ => "parse" | _ => x
  let mine := (outs.filter fun x => !x.startsWith "read").map shortOf
  let theirs := (recvLoopRetry t.dict nrecv evs ⟨0, cap, 0, []⟩ stream).map fun o => match o with
    | .msg bs => s!"msg:{bs.length}" | .parse _ => "parse" | .readErr _ => "read" | .oom => "oom" | .closed => "closed" | .blocked => "BLOCKED" | .fault => "PANIC"
  let k := Nat.min mine.length theirs.length
  let outs := if mine.take k == theirs.take k then outs else "MODEL-INCONSISTENT" :: outs
  -- `Pending` entries of an async script are consumed one per poll without any other effect
  let consumed := evs.length - evs'.length
  let pendings := (script.take (consumed + (script.filter fun e => match e with | .pending => true | _ => false).length)).length
  let _ := pendings
  s!"{joinC outs} reads={consumed}"

/-- number of script entries consumed when `k` non-pending entries are consumed (pendings before them are consumed too) -/
def consumedWithPendings : List SEv → Nat → Nat
  | _, 0 => 0
  | [], k => k
  | .pending :: r, k => 1 + consumedWithPendings r k
  | _ :: r, k+1 => 1 + consumedWithPendings r k

/-- the async receiver loop: the model of the async `recv` itself, `Pending` outcomes included (that it agrees with the blocking
`recv` on the script without them is `C08_receiver_refines_blocking`) -/
def arecvLoopD (t : Ty) : Nat → List AREv → RBuf → Bytes → List String → List String × List AREv
  | 0, evs, _, _, acc => (acc.reverse, evs)
  | k+1, evs, b, rest, acc =>
    match arecv t.dict false evs b rest with
    | (.msg _, b', rest', evs') =>
      match t.dict.size b'.slice, dropGuard t.dict b', t.walk b'.slice with
      | .ok z, some b'', .ok w => arecvLoopD t k evs' b'' rest' (s!"msg:{z}:{us (stripCaps w)}" :: acc)
      | _, _, _ => (("PANIC" :: acc).reverse, evs')
    | (.readErr kd, b', rest', evs') => arecvLoopD t k evs' b' rest' (("read:" ++ kindName kd) :: acc)
    | (.parse e, _, _, evs') => ((s!"parse:{errStr e}" :: acc).reverse, evs')
    | (.oom, _, _, evs') => (("oom" :: acc).reverse, evs')
    | (.closed, _, _, evs') => (("closed" :: acc).reverse, evs')
    | (.blocked, _, _, evs') => (("BLOCKED" :: acc).reverse, evs')
    | (.fault, _, _, evs') => (("PANIC" :: acc).reverse, evs')

def runAR (t : Ty) (max : Nat) (script : List SEv) (nrecv : Nat) (stream : Bytes) : String :=
  let cap := bufCap t max
  let tail := stream.length + nrecv + 4
  let evs := toAREvs script tail
  let (outs, evs') := arecvLoopD t nrecv evs ⟨0, cap, 0, []⟩ stream []
  -- the loop `C08_async_receiver_delivers` is about (`arecvLoop`) must tell the same story up to the first read error (where it stops)
  let shortOf (x : String) : String := match x.splitOn ":" with | "msg" :: z :: _ => "msg:" ++ z | "parse" :: _ => "parse" | _ => x
  let mine := (outs.takeWhile fun x => !x.startsWith "read").map shortOf
  let theirs := ((arecvLoop t.dict nrecv evs ⟨0, cap, 0, []⟩ stream).takeWhile fun o => match o with | .readErr _ => false | _ => true).map fun o => match o with
    | .msg bs => s!"msg:{bs.length}" | .parse _ => "parse" | .readErr _ => "read" | .oom => "oom" | .closed => "closed" | .blocked => "BLOCKED" | .fault => "PANIC"
  let k := Nat.min mine.length theirs.length
  let outs := if mine.take k == theirs.take k then outs else "MODEL-INCONSISTENT" :: outs
  s!"{joinC outs} reads={evs.length - evs'.length}"

/-- the composed system: everything sent is delivered in order, then `Closed` -/
def runAP (t : Ty) (max : Nat) (inits : List Init) : String :=
  let cap := bufCap t max
  let rec go : List Init → Bytes → List String → List String
    | [], _, acc => acc.reverse
    | i :: is, buf, acc =>
      match emplace t i ⟨0, buf⟩ with
      | .ok o =>
        match o.res, t.dict.size ⟨0, o.bytes⟩, t.walk ⟨0, o.bytes⟩ with
        | .ok (), .ok z, .ok w => go is o.bytes (s!"msg:{z}:{us (stripCaps w)}" :: acc)
        | _, _, _ => acc.reverse
      | _ => acc.reverse
  let msgs := go inits (List.replicate cap 0) []
  s!"sent={msgs.length} got={joinC (msgs ++ ["closed"])} done=11 panic=0"
end Drv
