import Driver.Portable
open FV Drv

partial def loop (h : IO.FS.Stream) (out : IO.FS.Stream) (types : Array Ty) : IO Unit := do
  let line ← h.getLine
  if line.isEmpty then return ()
  let line := line.trimAscii.toString
  -- a case during which the harness process died has nothing behind its arrow (and the trailing blank is trimmed away)
  let line := if line.endsWith " =>" then String.ofList (line.toList.take (line.length - 3)) else line
  let lhs := (line.splitOn " => ").headD ""
  match lhs.splitOn " " with
  | "T" :: id :: _name :: rest =>
    -- descriptor = everything up to the `align=` attribute
    let descToks := rest.takeWhile fun t => !(t.startsWith "align=")
    let desc := " ".intercalate descToks
    match parseDesc desc with
    | some t =>
      let types := if id.toNat! == types.size then types.push t else types
      out.putStrLn s!"T {id} align={t.dict.align} min={t.dict.minSize}"
      loop h out types
    | none =>
      out.putStrLn s!"T {id} BAD-DESCRIPTOR {desc}"
      loop h out (types.push (.prim 0 1))
  | ["B", tid, _place, a16, p, sfx, hx] =>
    let t := types[tid.toNat!]?.getD (.prim 0 1)
    let r := runB t a16.toNat! (p == "P1") (if sfx == "-" then none else some (parseHex sfx)) (parseHex hx)
    out.putStrLn r
    loop h out types
  | ["C", tid, _place, a16, _kind, _lo, _hi, hx] =>
    let t := types[tid.toNat!]?.getD (.prim 0 1)
    out.putStrLn (runB t a16.toNat! false none (parseHex hx))
    loop h out types
  | "E" :: tid :: _place :: a16 :: "new" :: rest =>
    let t := types[tid.toNat!]?.getD (.prim 0 1)
    let pre := parseHex (rest.getLast?.getD "-")
    let r := match parseInit (tokenize (" ".intercalate rest.dropLast)) with
      | some (i, []) => runE t a16.toNat! i pre true
      | _ => "BAD-INIT"
    out.putStrLn r
    loop h out types
  | "F" :: tid :: _place :: a16 :: rest =>
    let t := types[tid.toNat!]?.getD (.prim 0 1)
    let pre := parseHex (rest.getLast?.getD "-")
    let r := match parseInit (tokenize (" ".intercalate rest.dropLast)) with
      | some (i, []) => runE t a16.toNat! i pre false
      | _ => "BAD-INIT"
    out.putStrLn r
    loop h out types
  | "A" :: tid :: _place :: a16 :: rest =>
    let t := types[tid.toNat!]?.getD (.prim 0 1)
    let pre := parseHex (rest.getLast?.getD "-")
    let r := match parseInit (tokenize (" ".intercalate rest.dropLast)) with
      | some (i1, r2) =>
        match parseInit r2 with
        | some (i2, []) => runA t a16.toNat! i1 i2 pre
        | _ => "BAD-INIT"
      | _ => "BAD-INIT"
    out.putStrLn r
    loop h out types
  | "O" :: tid :: _place :: a16 :: pre :: rest =>
    let t := types[tid.toNat!]?.getD (.prim 0 1)
    let r := match parseOp rest with
      | some op => runO t a16.toNat! (parseHex pre) op
      | none => "BAD-OP"
    out.putStrLn r
    loop h out types
  | ["PC", be, n, sign, x] =>
    out.putStrLn (runPC (mkPTy be n (if sign == "f" then "u" else sign)) (sign == "f") (parseHex x)); loop h out types
  | ["PO", be, n, sign, op, x, y] =>
    out.putStrLn (runPO (mkPTy be n sign) op (parseHex x) (parseHex y)); loop h out types
  | ["PF", be, n, sign, f, a] =>
    out.putStrLn (runPF (mkPTy be n sign) f (parseHex a)); loop h out types
  | ["PK", be, n, sign, _] =>
    out.putStrLn (runPK (mkPTy be n sign)); loop h out types
  | "PX" :: _ => out.putStrLn "nat=1"; loop h out types
  | ["PB", "ops", a, _b] => out.putStrLn s!"stored=0{a} nat=1"; loop h out types
  | ["PB", "validate", v, _] => out.putStrLn (if v.toNat! ≤ 1 then "ok nat=1" else "err nat=1"); loop h out types
  | k :: tid :: max :: script :: rest =>
    let t := types[tid.toNat!]?.getD (.prim 0 1)
    let initsOf (ws : List String) : Option (List Init) :=
      ((" ".intercalate ws).splitOn "|").mapM fun x => match parseInit (tokenize x) with | some (i, []) => some i | _ => none
    let r :=
      if k == "S" || k == "AS" then
        -- each message: an initialiser, optionally followed by `~op` edits applied through the send guard
        let msgOf (x : String) : Option (Init × List Op) :=
          match x.splitOn "~" with
          | i :: eds =>
            match parseInit (tokenize i), eds.mapM (fun e => parseOp ((e.trimAscii.toString.splitOn " ").filter (· ≠ ""))) with
            | some (ini, []), some ops => some (ini, ops)
            | _, _ => none
          | [] => none
        match ((" ".intercalate rest).splitOn "|").mapM msgOf with
        | some is => runS t max.toNat! (parseScript script) is (k == "AS")
        | none => "BAD-INIT"
      else if k == "R" || k == "AR" then
        match rest with
        | [nrecv, stream] => if k == "R" then runR t max.toNat! (parseScript script) nrecv.toNat! (parseHex stream)
                             else runAR t max.toNat! (parseScript script) nrecv.toNat! (parseHex stream)
        | _ => "BAD-LINE"
      else if k == "AP" then
        -- AP tid max pipecap wchunk rchunk pend schedule inits…  (`script` holds pipecap)
        match initsOf (rest.drop 4) with
        | some is => runAP t max.toNat! is
        | none => "BAD-INIT"
      else if k == "W" then "-"
      else "?"
    out.putStrLn r
    loop h out types
  | _ =>
    out.putStrLn "?"
    loop h out types

def main : IO Unit := do
  loop (← IO.getStdin) (← IO.getStdout) #[]
