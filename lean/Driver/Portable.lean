import Driver.Io
import FV.PortableOps
/-! Model side of the portable-scalar suite (`PC`, `PO`, `PF`, `PK` lines; `PX` / `PB` are native-oracle only). -/
open FV
namespace Drv

def optStr : Option Int → String
  | some v => toString v
  | none => "none"

/-- native value from its little-endian image -/
def natVal (p : PTy) (le : Bytes) : Int := ({ p with be := false } : PTy).toNative le
def leImage (p : PTy) (v : Int) : Bytes := ({ p with be := false } : PTy).fromNative v

def mkPTy (be n sign : String) : PTy := ⟨be == "1", n.toNat!, sign == "s"⟩

def runPC (p : PTy) (isFloat : Bool) (x : Bytes) : String :=
  let v := natVal p x
  let stored := p.fromNative v
  let back := p.toNative stored
  let base := s!"bytes={hexOf stored} back={hexOf (leImage p back)} rt={hexOf stored} al=1 sz={p.n}"
  if isFloat then base ++ " nat=1"
  else s!"{base} u64={optStr (PTy.toU64 v)} i64={optStr (PTy.toI64 v)} usize={optStr (PTy.toU64 v)} nat=1"

def runPO (p : PTy) (op : String) (x y : Bytes) : String :=
  let a := natVal p x
  let b := natVal p y
  if op == "cmp" then
    let c := if a < b then "lt" else if a = b then "eq" else "gt"
    let eq := if p.fromNative a == p.fromNative b then 1 else 0
    s!"{c} eq={eq} nat=1"
  else match p.binop op a b with
    | some r => s!"{hexOf (leImage p r)} nat=1"
    | none => "PANIC nat=1"

def runPF (p : PTy) (f : String) (arg : Bytes) : String :=
  let u : Int := leNat arg
  let v : Int := if f == "from_i64" then toSigned 8 (leNat arg) else u
  match p.fromPrim v with
  | some _ => s!"some:{hexOf (leImage p v)} nat=1"
  | none => "none nat=1"

def runPK (p : PTy) : String :=
  s!"zero={hexOf (p.fromNative 0)} one={hexOf (p.fromNative 1)} min={hexOf (p.fromNative p.lo)} max={hexOf (p.fromNative p.hi)} nat=1"
end Drv
