import Driver.Parse
import FV.C04Layout
/-! Model side of the byte-level suite (`B` lines). -/
open FV
namespace Drv

structure ProbeOk where
  v : Nat
  z : Nat
  w : String       -- with capacities
  wc : String      -- content only

/-- `from_bytes` + accessors on the model -/
def probe (t : Ty) (s : Slice) : Res ProbeOk :=
  (t.dict.validate s).bind fun _ =>
  (t.dict.viewLen s.len).bind fun v =>
  (t.dict.size s).bind fun z =>
  (t.walk s).bind fun w => .ok ⟨v, z, w, stripCaps w⟩

/-- offsets of the top-level fields (of the active variant) as the model lays them out: the C offsets -/
def fieldOffsets (t : Ty) (s : Slice) : Option (List Nat) :=
  match t with
  | .sstruct fs => some (posList (dictL fs) 0)
  | .ustruct fs last => some (posList (dictL fs ++ [last.dict]) 0)
  | .cenum _ _ => some []
  | .senum tag vs =>
    let dvs := dictLL vs
    let al := max tag.align (alignLL dvs)
    match tag.readU s with
    | .ok i => some ((posList (dvs.getD i []) 0).map (· + ceilMul tag.size al))
    | _ => none
  | .uenum tag vs =>
    let dvs := dictLL vs
    let al := max tag.align (alignLL dvs)
    match tag.readU s with
    | .ok i => some ((posList (dvs.getD i []) 0).map (· + ceilMul tag.size al))
    | _ => none
  | _ => none

def offStr (t : Ty) (s : Slice) : String :=
  match fieldOffsets t s with
  | none => ""
  | some [] => " off=-"
  | some xs => " off=" ++ ",".intercalate (xs.map toString)

def pfxChar (t : Ty) (s : Slice) (k : Nat) (wc : String) : Char :=
  match probe t (s.take k) with
  | .fault _ => 'X'
  | .err e => if e.kind == .insufficientSize then 'I' else 'E'
  | .ok p => if p.wc == wc && p.z ≤ k then 'S' else 'D'

def runB (t : Ty) (addr : Nat) (pfx : Bool) (sfx : Option Bytes) (bs : Bytes) : String :=
  let s : Slice := ⟨addr, bs⟩
  match probe t s with
  | .fault f => s!"FAULT:{repr f}"
  | .err e => s!"err {errStr e}"
  | .ok p =>
    let rv := if p.v ≤ s.len then
        match t.dict.validate (s.take p.v) with
        | .ok _ => "ok" | .err e => s!"err:{errStr e}" | .fault _ => "FAULT"
      else "oob"
    let rm := if p.z ≤ s.len then
        match probe t (s.take p.z) with
        | .ok q => if q.z == p.z && q.wc == p.wc then "same" else "diff"
        | .err _ => "err" | .fault _ => "FAULT"
      else "oob"
    let pf := if pfx then
        let n := min p.z s.len
        let cs := (List.range n).map fun k => pfxChar t s k p.wc
        " pfx=" ++ (if cs.isEmpty then "-" else String.ofList cs)
      else ""
    let ex := match sfx with
      | none => ""
      | some x =>
        " ext=" ++ (if p.z ≤ s.len then
          match probe t ⟨addr, bs.take p.z ++ x⟩ with
          | .ok q => if q.z == p.z && q.wc == p.wc then "same" else "diff"
          | .err _ => "err" | .fault _ => "panic"
        else "oob")
    s!"ok v={p.v} s={p.v} z={p.z} in=1{offStr t s} rv={rv} rm={rm}{pf}{ex} w={p.w}"
end Drv
