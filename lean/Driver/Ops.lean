import Driver.Emplace
import FV.Ops
/-! Model side of the operation-history suite (`O` lines). -/
open FV
namespace Drv

def utf8Enc (c : Nat) : Bytes :=
  if c < 0x80 then [UInt8.ofNat c]
  else if c < 0x800 then [UInt8.ofNat (0xC0 + c / 64), UInt8.ofNat (0x80 + c % 64)]
  else if c < 0x10000 then [UInt8.ofNat (0xE0 + c / 4096), UInt8.ofNat (0x80 + c / 64 % 64), UInt8.ofNat (0x80 + c % 64)]
  else [UInt8.ofNat (0xF0 + c / 262144), UInt8.ofNat (0x80 + c / 4096 % 64), UInt8.ofNat (0x80 + c / 64 % 64), UInt8.ofNat (0x80 + c % 64)]

partial def parseOp : List String → Option Op
  | ["push", x] => some (.push (parseHex x))
  | ["pop"] => some .pop
  | "pushslice" :: xs => some (.pushSlice (xs.map parseHex))
  | "extend" :: xs => some (.extend (xs.map parseHex))
  | ["trunc", n] => some (.trunc n.toNat!)
  | ["clear"] => some .clear
  | ["remove", i] => some (.remove i.toNat!)
  | ["swaprm", i] => some (.swapRm i.toNat!)
  | ["resize", n, x] => some (.resize n.toNat! (parseHex x))
  | ["set", i, x] => some (.set i.toNat! (parseHex x))
  | ["setfield", v, i, x] => some (.setField v.toNat! i.toNat! (parseHex x))
  | ["pushc", c] => some (.pushBytes (utf8Enc c.toNat!))
  | ["pushstr", x] => some (.pushBytes (parseHex x))
  | "fpush" :: r => match parseInit (tokenize (" ".intercalate r)) with | some (i, []) => some (.fpush i) | _ => none
  | ["fpop"] => some .fpop
  | ["ftrunc", n] => some (.ftrunc n.toNat!)
  | ["fclear"] => some .fclear
  | "item" :: i :: r => (parseOp r).map (.item i.toNat!)
  | "last" :: r => (parseOp r).map .last
  | "assign" :: r => match parseInit (tokenize (" ".intercalate r)) with | some (i, []) => some (.assign i) | _ => none
  | _ => none

/-- element type whose values an operation returns (for rendering), following `item` -/
def retElemTy : Op → Ty → Slice → Option Ty
  | .item _ op, .flex it _, s => retElemTy op it s
  | .last op, .ustruct _ last, s => retElemTy op last s
  | .last op, .uenum tag vs, s =>          -- top level only: the current variant is read from the value's own tag
    match tag.readU s with
    | .ok t => (match (vs.getD t []).getLast? with | some lt => retElemTy op lt s | none => none)
    | _ => none
  | _, .vec et _, _ => some et
  | _, _, _ => none

def renderVal (et : Option Ty) (bs : Bytes) : String :=
  match et with
  | some t => (match specSized t bs with | .ok x => us x | _ => "RENDER-FAULT")
  | none => hexOf bs

def retStr (et : Option Ty) : OpRet → String
  | .ok => "ok" | .full => "full" | .none => "none" | .some bs => "some:" ++ renderVal et bs | .elem bs => renderVal et bs
  | .panic => "PANIC" | .err e => s!"err:{errStr e}" | .empty => "empty" | .noitem => "noitem" | .novariant => "novariant"

def runO (t : Ty) (a16 : Nat) (pre : Bytes) (op : Op) : String :=
  let s : Slice := ⟨a16, pre⟩
  match t.dict.validate s with
  | .fault _ => "FAULT"
  | .err e => s!"notvalid:{errStr e} {maskedHex pre pre} p={probeStr t s}"
  | .ok () =>
    match applyOp op t s, applyOp (op.subst 0xEE 0x11) t s with
    | .ok o, .ok o2 =>
      let before := probeStr t s
      let after := probeStr t ⟨a16, o.bytes⟩
      let same := if stripCaps before == stripCaps after then 1 else 0
      s!"{retStr (retElemTy op t s) o.ret} {maskedHex o.bytes o2.bytes} p={after} same={same}"
    | .fault f, _ => s!"FAULT:{repr f}"
    | _, _ => "MODEL-ERR"
end Drv
