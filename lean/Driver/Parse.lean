import FV
import FV.Spec.Content
/-! Parsing of the trace protocol: hex, descriptors, initialisers. -/
open FV
namespace Drv

def hexVal (c : Char) : Nat :=
  if c.isDigit then c.toNat - '0'.toNat else c.toNat - 'a'.toNat + 10

def parseHex (s : String) : Bytes :=
  if s == "-" then [] else
  let rec go : List Char → Bytes
    | a :: b :: rest => UInt8.ofNat (hexVal a * 16 + hexVal b) :: go rest
    | _ => []
  go s.toList

/-- tokens: "(" ")" and atoms -/
def tokenize (s : String) : List String :=
  let rec go (cs : List Char) (cur : List Char) (acc : List String) : List String :=
    let flush (acc : List String) := if cur.isEmpty then acc else String.ofList cur.reverse :: acc
    match cs with
    | [] => (flush acc).reverse
    | '(' :: r => go r [] ("(" :: flush acc)
    | ')' :: r => go r [] (")" :: flush acc)
    | ' ' :: r => go r [] (flush acc)
    | c :: r => go r (c :: cur) acc
  go s.toList [] []

/-- `l<size>a<align><l|b>` -/
def parseLen (t : String) : LenTy :=
  let cs := t.toList
  let body := (cs.drop 1).dropLast
  let sz := String.ofList (body.takeWhile (· != 'a'))
  let al := String.ofList ((body.dropWhile (· != 'a')).drop 1)
  ⟨sz.toNat!, al.toNat!, cs.getLast? == some 'b'⟩

def parsePrim (t : String) : Ty :=
  let body := t.toList.drop 1
  let sz := String.ofList (body.takeWhile (· != 'a'))
  let al := String.ofList ((body.dropWhile (· != 'a')).drop 1)
  .prim sz.toNat! al.toNat!

mutual
partial def parseTy : List String → Option (Ty × List String)
  | "(" :: "arr" :: r => do
      let (e, r) ← parseTy r
      match r with
      | n :: ")" :: r => some (.arr e n.toNat!, r)
      | _ => none
  | "(" :: "ss" :: r => do let (fs, r) ← parseTys r; some (.sstruct fs, r)
  | "(" :: "us" :: r => do
      let (fs, r) ← parseTys r
      match fs.getLast? with
      | some l => some (.ustruct fs.dropLast l, r)
      | none => none
  | "(" :: "ce" :: l :: n :: ")" :: r => some (.cenum (parseLen l) n.toNat!, r)
  | "(" :: "se" :: l :: r => do let (vs, r) ← parseVars r; some (.senum (parseLen l) vs, r)
  | "(" :: "ue" :: l :: r => do let (vs, r) ← parseVars r; some (.uenum (parseLen l) vs, r)
  | "(" :: "vec" :: r => do
      let (e, r) ← parseTy r
      match r with
      | l :: ")" :: r => some (.vec e (parseLen l), r)
      | _ => none
  | "(" :: "flex" :: r => do
      let (e, r) ← parseTy r
      match r with
      | l :: ")" :: r => some (.flex e (parseLen l), r)
      | _ => none
  | "(" :: "str" :: l :: ")" :: r => some (.str (parseLen l), r)
  | "bool" :: r => some (.bool, r)
  | t :: r => if t.startsWith "p" then some (parsePrim t, r) else none
  | [] => none
/-- types up to the closing paren (consumed) -/
partial def parseTys : List String → Option (List Ty × List String)
  | ")" :: r => some ([], r)
  | ts => do
      let (t, r) ← parseTy ts
      let (rest, r) ← parseTys r
      some (t :: rest, r)
partial def parseVars : List String → Option (List (List Ty) × List String)
  | ")" :: r => some ([], r)
  | "(" :: "v" :: r => do
      let (fs, r) ← parseTys r
      let (rest, r) ← parseVars r
      some (fs :: rest, r)
  | _ => none
end

def parseDesc (s : String) : Option Ty :=
  match parseTy (tokenize s) with
  | some (t, []) => some t
  | _ => none

/-- leading hex atoms -/
def takeHexes : List String → List Bytes × List String
  | t :: r => if t == "(" || t == ")" then ([], t :: r) else
      let (hs, r') := takeHexes r
      (parseHex t :: hs, r')
  | [] => ([], [])

mutual
partial def parseInit : List String → Option (Init × List String)
  | "(" :: "raw" :: h :: ")" :: r => some (.raw (parseHex h), r)
  -- `(def X)`: the implementation takes the library's default path; `X` is the documented default as an explicit initialiser
  | "(" :: "def" :: r => do
      let (i, r) ← parseInit r
      match r with | ")" :: r => some (i, r) | _ => none
  | "(" :: "ve" :: ")" :: r => some (.vecEmpty, r)
  | "(" :: "va" :: r => let (hs, r) := takeHexes r; match r with | ")" :: r => some (.vecArr hs, r) | _ => none
  | "(" :: "vi" :: r => let (hs, r) := takeHexes r; match r with | ")" :: r => some (.vecIter hs, r) | _ => none
  | "(" :: "sf" :: h :: ")" :: r => some (.strFrom (parseHex h), r)
  | "(" :: "fe" :: ")" :: r => some (.flexEmpty, r)
  | "(" :: "fi" :: r => do let (is, r) ← parseInits r; some (.flexIter is, r)
  | "(" :: "us" :: r =>
      let (hs, r) := takeHexes r
      do
        let (l, r) ← parseInit r
        match r with | ")" :: r => some (.ustruct hs l, r) | _ => none
  | "(" :: "ue" :: i :: r =>
      let (hs, r) := takeHexes r
      match r with
      | ")" :: r => some (.uenum i.toNat! hs none, r)
      | _ => do
        let (l, r) ← parseInit r
        match r with | ")" :: r => some (.uenum i.toNat! hs (some l), r) | _ => none
  | _ => none
partial def parseInits : List String → Option (List Init × List String)
  | ")" :: r => some ([], r)
  | ts => do
      let (i, r) ← parseInit ts
      let (rest, r) ← parseInits r
      some (i :: rest, r)
end

def kindStr : EKind → String
  | .insufficientSize => "insufficientSize" | .badAlign => "badAlign" | .invalidEnumTag => "invalidEnumTag"
  | .invalidData => "invalidData" | .other => "other"
def errStr (e : Err) : String := s!"{kindStr e.kind}@{e.pos}"

end Drv
